------------------------------- MODULE Serial -------------------------------
(***************************************************************************)
(* The serialised form of a compiled program, from the format documented   *)
(* at the head of internal/compile/serial.go (not from the Go functions):  *)
(*                                                                         *)
(*   Program:  magic "!sky" | str: offset of the string section |          *)
(*             version | filename | loads []Ident | names []string |       *)
(*             consts []Constant | globals []Ident | toplevel Funcode |    *)
(*             funcs []Funcode | recursion (0/1) | <strings>               *)
(*   Funcode:  id Ident | doc string | code []byte | pclinetab []varint |  *)
(*             locals []Ident | cells []int | freevars []Ident | maxstack  *)
(*             | numparams | numkwonlyparams | hasvarargs | haskwargs      *)
(*   Ident:    name string | line | col                                    *)
(*   Constant: type varint (0 string, 1 bytes, 2 int, 3 float as the       *)
(*             unsigned 64-bit pattern, 4 bigint as decimal ASCII) | data  *)
(*                                                                         *)
(* Every integer except str is a varint; every string is referred to by    *)
(* its length only, its bytes being appended to the string section, so     *)
(* encoder and decoder walk the section in lock step.                      *)
(*                                                                         *)
(* Model.  A program is a record of fields (Program, Funcode, Ident,       *)
(* Constant below).  An encoding is a record                               *)
(*    [magic, off, toks, strs]                                             *)
(* where toks is the sequence of varints -- each one the RAW UNSIGNED      *)
(* value as little-endian limbs base 2^15 (BitInt magnitudes; signed       *)
(* varints are zig-zag coded, as Go's binary.PutVarint does) -- strs the   *)
(* bytes of the string section, and off = 8 + the number of bytes the      *)
(* varints occupy (7 payload bits per byte).  The same operators serve the *)
(* design check (C17MC: Decode(Encode(p)) = p over a small field domain)   *)
(* and the conformance check on real files (C17Trace: the harness only     *)
(* splits a file into varints and string section; this module parses it).  *)
(***************************************************************************)
EXTENDS Integers, Sequences, BitInt

Magic   == <<33, 115, 107, 121>>          \* "!sky"

(***************************************************************************)
(* varints                                                                 *)
(***************************************************************************)
\* zig-zag code of a small integer |n| < 2^29
Z(n)    == MagOfNat(IF n >= 0 THEN 2 * n ELSE -2 * n - 1)
Small(t) == Len(t) <= 2
UnZ(t)  == LET u == NatOfMag(t) IN IF u % 2 = 0 THEN u \div 2 ELSE -((u + 1) \div 2)
\* zig-zag code of an arbitrary (64-bit) integer given as a BitInt record
Two == FromInt(2)
One == FromInt(1)
ZBig(x)   == IF x.neg THEN ISub(IMul(IAbs(x), Two), One).m ELSE IMul(x, Two).m
EvenMag(t) == t = <<>> \/ t[1] % 2 = 0
UnZBig(t) == IF EvenMag(t) THEN Mk(FALSE, MDivSmall(t, 2)[1])
             ELSE Mk(TRUE, MDivSmall(MAdd(t, <<1>>), 2)[1])
\* bytes a varint occupies: one per 7 bits, at least one
VarLen(t) == IF Len(t) <= 2
             THEN LET u == NatOfMag(t) IN
                  IF u < 128 THEN 1 ELSE IF u < 16384 THEN 2 ELSE IF u < 2097152 THEN 3 ELSE IF u < 268435456 THEN 4 ELSE 5
             ELSE (BitLen(Mk(FALSE, t)) + 6) \div 7
RECURSIVE SumVarLen(_, _)
SumVarLen(toks, n) == IF n > Len(toks) THEN 0 ELSE VarLen(toks[n]) + SumVarLen(toks, n + 1)

\* decimal ASCII text of a big integer and back
DecText(x)  == LET ds == ToDigits(x, 10) IN (IF x.neg THEN <<45>> ELSE <<>>) \o [n \in 1..Len(ds) |-> 48 + ds[n]]
IsDecText(s) == /\ s # <<>>
                /\ LET body == IF s[1] = 45 THEN Tail(s) ELSE s IN
                   body # <<>> /\ \A n \in 1..Len(body) : body[n] \in 48..57
TextDec(s)  == LET neg == s[1] = 45
                   body == IF neg THEN Tail(s) ELSE s
               IN FromDigits(neg, [n \in 1..Len(body) |-> body[n] - 48], 10)

(***************************************************************************)
(* encoder: state [p: varints so far, s: string section so far]            *)
(***************************************************************************)
E0 == [p |-> <<>>, s |-> <<>>]
ERaw(e, t)  == [e EXCEPT !.p = Append(@, t)]
EInt(e, n)  == ERaw(e, Z(n))
EBool(e, b) == EInt(e, IF b THEN 1 ELSE 0)
EStr(e, str) == [p |-> Append(e.p, Z(Len(str))), s |-> e.s \o str]
EIdent(e, b) == EInt(EInt(EStr(e, b.name), b.line), b.col)

RECURSIVE EIdentsFrom(_, _, _)
EIdentsFrom(e, bs, n) == IF n > Len(bs) THEN e ELSE EIdentsFrom(EIdent(e, bs[n]), bs, n + 1)
EIdents(e, bs) == EIdentsFrom(EInt(e, Len(bs)), bs, 1)

RECURSIVE EStrsFrom(_, _, _)
EStrsFrom(e, ss, n) == IF n > Len(ss) THEN e ELSE EStrsFrom(EStr(e, ss[n]), ss, n + 1)
EStrs(e, ss) == EStrsFrom(EInt(e, Len(ss)), ss, 1)

RECURSIVE EIntsFrom(_, _, _)
EIntsFrom(e, xs, n) == IF n > Len(xs) THEN e ELSE EIntsFrom(EInt(e, xs[n]), xs, n + 1)
EInts(e, xs) == EIntsFrom(EInt(e, Len(xs)), xs, 1)

EConst(e, c) ==
  CASE c.t = "string" -> EStr(EInt(e, 0), c.v)
    [] c.t = "bytes"  -> EStr(EInt(e, 1), c.v)
    [] c.t = "int"    -> ERaw(EInt(e, 2), ZBig(c.v))            \* c.v a BitInt record (int64)
    [] c.t = "float"  -> ERaw(EInt(e, 3), c.v)                  \* c.v the 64-bit pattern as limbs, unsigned
    [] c.t = "bigint" -> EStr(EInt(e, 4), DecText(c.v))         \* c.v a BitInt record
RECURSIVE EConstsFrom(_, _, _)
EConstsFrom(e, cs, n) == IF n > Len(cs) THEN e ELSE EConstsFrom(EConst(e, cs[n]), cs, n + 1)
EConsts(e, cs) == EConstsFrom(EInt(e, Len(cs)), cs, 1)

EFunc(e0, f) ==
  LET e1 == EIdent(e0, [name |-> f.name, line |-> f.line, col |-> f.col])
      e2 == EStr(EStr(e1, f.doc), f.code)
      e3 == EInts(e2, f.pclinetab)
      e4 == EIdents(e3, f.locals)
      e5 == EInts(e4, f.cells)
      e6 == EIdents(e5, f.freevars)
      e7 == EInt(EInt(EInt(e6, f.maxstack), f.numparams), f.numkwonly)
  IN EBool(EBool(e7, f.hasvarargs), f.haskwargs)
RECURSIVE EFuncsFrom(_, _, _)
EFuncsFrom(e, fs, n) == IF n > Len(fs) THEN e ELSE EFuncsFrom(EFunc(e, fs[n]), fs, n + 1)
EFuncs(e, fs) == EFuncsFrom(EInt(e, Len(fs)), fs, 1)

Encode(prog, version) ==
  LET e1 == EStr(EInt(E0, version), prog.filename)
      e2 == EIdents(e1, prog.loads)
      e3 == EStrs(e2, prog.names)
      e4 == EConsts(e3, prog.consts)
      e5 == EIdents(e4, prog.globals)
      e6 == EFunc(e5, prog.toplevel)
      e7 == EFuncs(e6, prog.funcs)
      e8 == EBool(e7, prog.recursion)
  IN [magic |-> Magic, off |-> 8 + SumVarLen(e8.p, 1), toks |-> e8.p, strs |-> e8.s]

(***************************************************************************)
(* decoder: state [p, i: varints and read position, s, j: string section   *)
(* and read position, err].                                                *)
(* Every reader returns <<value, state'>> and is total: running out of     *)
(* input or meeting an impossible count sets err instead of failing, so a  *)
(* malformed file is rejected, not a crash of the checker.                 *)
(***************************************************************************)
D0(enc) == [p |-> enc.toks, i |-> 1, s |-> enc.strs, j |-> 1, err |-> FALSE]
Fail(d) == [d EXCEPT !.err = TRUE]
PLeft(d) == Len(d.p) - d.i + 1          \* varints not yet read
SLeft(d) == Len(d.s) - d.j + 1          \* string bytes not yet read
DRaw(d) == IF d.i > Len(d.p) THEN <<<<>>, Fail(d)>> ELSE <<d.p[d.i], [d EXCEPT !.i = @ + 1]>>
DInt(d) == LET x == DRaw(d) IN IF Small(x[1]) THEN <<UnZ(x[1]), x[2]>> ELSE <<0, Fail(x[2])>>
DBool(d) == LET x == DInt(d) IN <<x[1] # 0, x[2]>>
\* a count of items still to be read cannot exceed what is left
DCount(d) == LET x == DInt(d) IN IF x[1] \in 0..PLeft(x[2]) THEN x ELSE <<0, Fail(x[2])>>
DStr(d) == LET x == DInt(d) IN
           IF x[1] \in 0..SLeft(x[2])
           THEN <<SubSeq(x[2].s, x[2].j, x[2].j + x[1] - 1), [x[2] EXCEPT !.j = @ + x[1]]>>
           ELSE <<<<>>, Fail(x[2])>>
DIdent(d) == LET a == DStr(d) b == DInt(a[2]) c == DInt(b[2]) IN
             <<[name |-> a[1], line |-> b[1], col |-> c[1]], c[2]>>

\* read n items with reader R, accumulating
RECURSIVE DMany(_, _, _, _)
DMany(R(_), d, n, acc) == IF n = 0 THEN <<acc, d>> ELSE LET x == R(d) IN DMany(R, x[2], n - 1, Append(acc, x[1]))
DList(R(_), d) == LET c == DCount(d) IN DMany(R, c[2], c[1], <<>>)

DConst(d) ==
  LET ty == DInt(d) IN
  CASE ty[1] = 0 -> LET x == DStr(ty[2]) IN <<[t |-> "string", v |-> x[1]], x[2]>>
    [] ty[1] = 1 -> LET x == DStr(ty[2]) IN <<[t |-> "bytes", v |-> x[1]], x[2]>>
    [] ty[1] = 2 -> LET x == DRaw(ty[2]) IN <<[t |-> "int", v |-> UnZBig(x[1])], x[2]>>
    [] ty[1] = 3 -> LET x == DRaw(ty[2]) IN <<[t |-> "float", v |-> x[1]], x[2]>>
    [] ty[1] = 4 -> LET x == DStr(ty[2]) IN
                    IF IsDecText(x[1]) THEN <<[t |-> "bigint", v |-> TextDec(x[1])], x[2]>>
                    ELSE <<[t |-> "bigint", v |-> Zero], Fail(x[2])>>
    [] OTHER -> <<[t |-> "string", v |-> <<>>], Fail(ty[2])>>

DFunc(d) ==
  LET id == DIdent(d)
      doc == DStr(id[2])
      code == DStr(doc[2])
      pcl == DList(DInt, code[2])
      loc == DList(DIdent, pcl[2])
      cel == DList(DInt, loc[2])
      fre == DList(DIdent, cel[2])
      ms == DInt(fre[2])
      np == DInt(ms[2])
      nk == DInt(np[2])
      hv == DBool(nk[2])
      hk == DBool(hv[2])
  IN <<[name |-> id[1].name, line |-> id[1].line, col |-> id[1].col, doc |-> doc[1], code |-> code[1],
        pclinetab |-> pcl[1], locals |-> loc[1], cells |-> cel[1], freevars |-> fre[1],
        maxstack |-> ms[1], numparams |-> np[1], numkwonly |-> nk[1], hasvarargs |-> hv[1], haskwargs |-> hk[1]],
       hk[2]>>

\* [ok, prog] ; ok is FALSE for a wrong magic number or version, an inconsistent
\* offset, exhausted or unconsumed input
Decode(enc, version) ==
  LET ver == DInt(D0(enc))
      fil == DStr(ver[2])
      lds == DList(DIdent, fil[2])
      nms == DList(DStr, lds[2])
      cns == DList(DConst, nms[2])
      glb == DList(DIdent, cns[2])
      top == DFunc(glb[2])
      fns == DList(DFunc, top[2])
      rec == DBool(fns[2])
      d   == rec[2]
  IN [ok |-> /\ enc.magic = Magic
             /\ enc.off = 8 + SumVarLen(enc.toks, 1)
             /\ ver[1] = version
             /\ ~d.err /\ PLeft(d) = 0 /\ SLeft(d) = 0,
      prog |-> [filename |-> fil[1], loads |-> lds[1], names |-> nms[1], consts |-> cns[1], globals |-> glb[1],
                toplevel |-> top[1], funcs |-> fns[1], recursion |-> rec[1]]]

\* the two laws of the format
RoundTrip(prog, version) == Decode(Encode(prog, version), version) = [ok |-> TRUE, prog |-> prog]
Canonical(enc, version)  == Decode(enc, version).ok => Encode(Decode(enc, version).prog, version) = enc
=============================================================================
