------------------------------- MODULE Serial -------------------------------
(***************************************************************************)
(* The serialised form of a compiled program, from the format documented   *)
(* at the head of internal/compile/serial.go (not from the Go functions):  *)
(*                                                                         *)
(*   Program:  magic "!sky" | str: offset of the string section |          *)
(*             version | filename | loads []Ident | names []string |       *)
(*             consts []Constant | globals []Ident | toplevel Funcode |    *)
(*             funcs []Funcode | recursion (0/1) | <strings>               *)
(*   Funcode:  id Ident | doc string | code []byte | pclinetab []varint |  *)
(*             locals []Ident | cells []int | freevars []Ident | maxstack  *)
(*             | numparams | numkwonlyparams | hasvarargs | haskwargs      *)
(*   Ident:    name string | line | col                                    *)
(*   Constant: type varint (0 string, 1 bytes, 2 int, 3 float as the       *)
(*             unsigned 64-bit pattern, 4 bigint as decimal ASCII) | data  *)
(*                                                                         *)
(* Every integer except str is a varint; every string is referred to by    *)
(* its length only, its bytes being appended to the string section, so     *)
(* encoder and decoder walk the section in lock step.                      *)
(*                                                                         *)
(* Model.  A program is a record of fields (Program, Funcode, Ident,       *)
(* Constant below).  An encoding is a record                               *)
(*    [magic, off, toks, strs]                                             *)
(* where toks is the sequence of varints -- each one the RAW UNSIGNED      *)
(* value as little-endian limbs base 2^15 (BitInt magnitudes; signed       *)
(* varints are zig-zag coded, as Go's binary.PutVarint does) -- strs the   *)
(* bytes of the string section, and off = 8 + the number of bytes the      *)
(* varints occupy (7 payload bits per byte).  The same operators serve the *)
(* design check (C17MC: Decode(Encode(p)) = p over a small field domain)   *)
(* and the conformance check on real files (C17Trace: the harness only     *)
(* splits a file into varints and string section; this module parses it).  *)
(***************************************************************************)
EXTENDS Integers, Sequences, BitInt

Magic   == <<33, 115, 107, 121>>          \* "!sky"

(***************************************************************************)
(* varints                                                                 *)
(***************************************************************************)
\* zig-zag code of a small integer |n| < 2^29
Z(n)    == MagOfNat(IF n >= 0 THEN 2 * n ELSE -2 * n - 1)
Small(t) == Len(t) <= 2
UnZ(t)  == LET u == NatOfMag(t) IN IF u % 2 = 0 THEN u \div 2 ELSE -((u + 1) \div 2)
\* zig-zag code of an arbitrary (64-bit) integer given as a BitInt record
Two == FromInt(2)
One == FromInt(1)
ZBig(x)   == IF x.neg THEN ISub(IMul(IAbs(x), Two), One).m ELSE IMul(x, Two).m
EvenMag(t) == t = <<>> \/ t[1] % 2 = 0
UnZBig(t) == IF EvenMag(t) THEN Mk(FALSE, MDivSmall(t, 2)[1])
             ELSE Mk(TRUE, MDivSmall(MAdd(t, <<1>>), 2)[1])
\* bytes a varint occupies: one per 7 bits, at least one
VarLen(t) == IF Len(t) <= 2
             THEN LET u == NatOfMag(t) IN
                  IF u < 128 THEN 1 ELSE IF u < 16384 THEN 2 ELSE IF u < 2097152 THEN 3 ELSE IF u < 268435456 THEN 4 ELSE 5
             ELSE (BitLen(Mk(FALSE, t)) + 6) \div 7
RECURSIVE SumVarLen(_, _)
SumVarLen(toks, n) == IF n > Len(toks) THEN 0 ELSE VarLen(toks[n]) + SumVarLen(toks, n + 1)

\* decimal ASCII text of a big integer and back
DecText(x)  == LET ds == ToDigits(x, 10) IN (IF x.neg THEN <<45>> ELSE <<>>) \o [n \in 1..Len(ds) |-> 48 + ds[n]]
IsDecText(s) == /\ s # <<>>
                /\ LET body == IF s[1] = 45 THEN Tail(s) ELSE s IN
                   body # <<>> /\ \A n \in 1..Len(body) : body[n] \in 48..57
TextDec(s)  == LET neg == s[1] = 45
                   body == IF neg THEN Tail(s) ELSE s
               IN FromDigits(neg, [n \in 1..Len(body) |-> body[n] - 48], 10)

(***************************************************************************)
(* encoder: state [p: varints so far, s: string section so far]            *)
(***************************************************************************)
E0 == [p |-> <<>>, s |-> <<>>]
ERaw(e, t)  == [e EXCEPT !.p = Append(@, t)]
EInt(e, n)  == ERaw(e, Z(n))
EBool(e, b) == EInt(e, IF b THEN 1 ELSE 0)
EStr(e, str) == [p |-> Append(e.p, Z(Len(str))), s |-> e.s \o str]
EIdent(e, b) == EInt(EInt(EStr(e, b.name), b.line), b.col)

RECURSIVE EIdentsFrom(_, _, _)
EIdentsFrom(e, bs, n) == IF n > Len(bs) THEN e ELSE EIdentsFrom(EIdent(e, bs[n]), bs, n + 1)
EIdents(e, bs) == EIdentsFrom(EInt(e, Len(bs)), bs, 1)

RECURSIVE EStrsFrom(_, _, _)
EStrsFrom(e, ss, n) == IF n > Len(ss) THEN e ELSE EStrsFrom(EStr(e, ss[n]), ss, n + 1)
EStrs(e, ss) == EStrsFrom(EInt(e, Len(ss)), ss, 1)

RECURSIVE EIntsFrom(_, _, _)
EIntsFrom(e, xs, n) == IF n > Len(xs) THEN e ELSE EIntsFrom(EInt(e, xs[n]), xs, n + 1)
EInts(e, xs) == EIntsFrom(EInt(e, Len(xs)), xs, 1)

EConst(e, c) ==
  CASE c.t = "string" -> EStr(EInt(e, 0), c.v)
    [] c.t = "bytes"  -> EStr(EInt(e, 1), c.v)
    [] c.t = "int"    -> ERaw(EInt(e, 2), ZBig(c.v))            \* c.v a BitInt record (int64)
    [] c.t = "float"  -> ERaw(EInt(e, 3), c.v)                  \* c.v the 64-bit pattern as limbs, unsigned
    [] c.t = "bigint" -> EStr(EInt(e, 4), DecText(c.v))         \* c.v a BitInt record
RECURSIVE EConstsFrom(_, _, _)
EConstsFrom(e, cs, n) == IF n > Len(cs) THEN e ELSE EConstsFrom(EConst(e, cs[n]), cs, n + 1)
EConsts(e, cs) == EConstsFrom(EInt(e, Len(cs)), cs, 1)

EFunc(e0, f) ==
  LET e1 == EIdent(e0, [name |-> f.name, line |-> f.line, col |-> f.col])
      e2 == EStr(EStr(e1, f.doc), f.code)
      e3 == EInts(e2, f.pclinetab)
      e4 == EIdents(e3, f.locals)
      e5 == EInts(e4, f.cells)
      e6 == EIdents(e5, f.freevars)
      e7 == EInt(EInt(EInt(e6, f.maxstack), f.numparams), f.numkwonly)
  IN EBool(EBool(e7, f.hasvarargs), f.haskwargs)
RECURSIVE EFuncsFrom(_, _, _)
EFuncsFrom(e, fs, n) == IF n > Len(fs) THEN e ELSE EFuncsFrom(EFunc(e, fs[n]), fs, n + 1)
EFuncs(e, fs) == EFuncsFrom(EInt(e, Len(fs)), fs, 1)

Encode(prog, version) ==
  LET e1 == EStr(EInt(E0, version), prog.filename)
      e2 == EIdents(e1, prog.loads)
      e3 == EStrs(e2, prog.names)
      e4 == EConsts(e3, prog.consts)
      e5 == EIdents(e4, prog.globals)
      e6 == EFunc(e5, prog.toplevel)
      e7 == EFuncs(e6, prog.funcs)
      e8 == EBool(e7, prog.recursion)
  IN [magic |-> Magic, off |-> 8 + SumVarLen(e8.p, 1), toks |-> e8.p, strs |-> e8.s]

(***************************************************************************)
(* decoder.  A cursor is a pair: i = index of the next varint, j = index   *)
(* of the next byte of the string section.  Every reader returns           *)
(*    [v: value, i, j: cursor after it, ok: input was sufficient and sane] *)
(* and is total (a malformed file is rejected, not a crash of the          *)
(* checker).  Lists whose items have a fixed number of varints are read by *)
(* index arithmetic: item k of a list starting at i occupies the varints   *)
(* i + w*(k-1) .. i + w*k - 1, and its string starts where the strings of  *)
(* the items before it end (lock step).                                    *)
(***************************************************************************)
TokOK(toks, i) == i \in 1..Len(toks) /\ Small(toks[i])
IntAt(toks, i) == IF TokOK(toks, i) THEN UnZ(toks[i]) ELSE 0
RawAt(toks, i) == IF i \in 1..Len(toks) THEN toks[i] ELSE <<>>
Bytes(strs, j, n) == IF n <= 0 \/ j < 1 \/ j + n - 1 > Len(strs) THEN <<>> ELSE SubSeq(strs, j, j + n - 1)

\* Pre(lens)[k] = lens[1] + ... + lens[k-1];  Total(lens) = sum of all
RECURSIVE PreFrom(_, _, _, _)
PreFrom(lens, k, sum, acc) == IF k > Len(lens) THEN Append(acc, sum) ELSE PreFrom(lens, k + 1, sum + lens[k], Append(acc, sum))
Pre(lens) == PreFrom(lens, 1, 0, <<>>)          \* Len(lens) + 1 entries; the last one is the total
Total(lens) == Pre(lens)[Len(lens) + 1]

\* a list of n items of w varints each, the varint at offset so (0-based) of every item being
\* the length of the item's string (so = -1: the items have no string); Item(k, base, start)
\* builds item k from its first varint index and the start of its string
RdList(toks, strs, i, j, w, so, Item(_, _, _)) ==
  LET n    == IntAt(toks, i)
      cnt  == IF TokOK(toks, i) /\ n >= 0 /\ i + w * n <= Len(toks) THEN n ELSE 0
      lens == [k \in 1..cnt |-> IF so < 0 THEN 0 ELSE IntAt(toks, i + 1 + w * (k - 1) + so)]
      offs == Pre(lens)
  IN [v  |-> [k \in 1..cnt |-> Item(k, i + 1 + w * (k - 1), j + offs[k])],
      i  |-> i + 1 + w * cnt,
      j  |-> j + offs[cnt + 1],
      ok |-> /\ TokOK(toks, i) /\ n = cnt
             /\ \A k \in (i + 1)..(i + w * cnt) : (so < 0 \/ TRUE) => k \in 1..Len(toks)
             /\ \A k \in 1..cnt : lens[k] >= 0
             /\ j + offs[cnt + 1] - 1 <= Len(strs)]

RdInts(toks, strs, i, j) ==
  LET r == RdList(toks, strs, i, j, 1, -1, LAMBDA k, base, start : IntAt(toks, base)) IN
  [r EXCEPT !.ok = @ /\ \A k \in (i + 1)..(r.i - 1) : TokOK(toks, k)]
RdStrs(toks, strs, i, j) ==
  LET r == RdList(toks, strs, i, j, 1, 0, LAMBDA k, base, start : Bytes(strs, start, IntAt(toks, base))) IN
  [r EXCEPT !.ok = @ /\ \A k \in (i + 1)..(r.i - 1) : TokOK(toks, k)]
RdIdents(toks, strs, i, j) ==
  LET r == RdList(toks, strs, i, j, 3, 0,
                  LAMBDA k, base, start : [name |-> Bytes(strs, start, IntAt(toks, base)),
                                           line |-> IntAt(toks, base + 1), col |-> IntAt(toks, base + 2)]) IN
  [r EXCEPT !.ok = @ /\ \A k \in (i + 1)..(r.i - 1) : TokOK(toks, k)]

\* a constant is two varints: the type and either a string length (types 0, 1, 4) or the data
ConstAt(toks, strs, base, start) ==
  LET ty == IntAt(toks, base) IN
  CASE ty = 0 -> [t |-> "string", v |-> Bytes(strs, start, IntAt(toks, base + 1))]
    [] ty = 1 -> [t |-> "bytes", v |-> Bytes(strs, start, IntAt(toks, base + 1))]
    [] ty = 2 -> [t |-> "int", v |-> UnZBig(RawAt(toks, base + 1))]
    [] ty = 3 -> [t |-> "float", v |-> RawAt(toks, base + 1)]
    [] ty = 4 -> LET txt == Bytes(strs, start, IntAt(toks, base + 1)) IN
                 [t |-> "bigint", v |-> IF IsDecText(txt) THEN TextDec(txt) ELSE Zero]
    [] OTHER -> [t |-> "unknown", v |-> <<>>]
ConstOK(toks, strs, base, start) ==
  LET ty == IntAt(toks, base) IN
  /\ TokOK(toks, base) /\ ty \in 0..4 /\ base + 1 <= Len(toks)
  /\ ty \in {0, 1, 4} => TokOK(toks, base + 1)
  /\ ty = 4 => IsDecText(Bytes(strs, start, IntAt(toks, base + 1)))
RdConsts(toks, strs, i, j) ==
  LET n    == IntAt(toks, i)
      cnt  == IF TokOK(toks, i) /\ n >= 0 /\ i + 2 * n <= Len(toks) THEN n ELSE 0
      lens == [k \in 1..cnt |-> IF IntAt(toks, i + 1 + 2 * (k - 1)) \in {0, 1, 4} THEN IntAt(toks, i + 2 + 2 * (k - 1)) ELSE 0]
      offs == Pre(lens)
  IN [v  |-> [k \in 1..cnt |-> ConstAt(toks, strs, i + 1 + 2 * (k - 1), j + offs[k])],
      i  |-> i + 1 + 2 * cnt,
      j  |-> j + offs[cnt + 1],
      ok |-> /\ TokOK(toks, i) /\ n = cnt
             /\ \A k \in 1..cnt : lens[k] >= 0
             /\ j + offs[cnt + 1] - 1 <= Len(strs)
             /\ \A k \in 1..cnt : ConstOK(toks, strs, i + 1 + 2 * (k - 1), j + offs[k])]

RdFunc(toks, strs, i, j) ==
  LET nlen == IntAt(toks, i)                     \* id: name, line, col
      dlen == IntAt(toks, i + 3)                 \* doc
      clen == IntAt(toks, i + 4)                 \* code
      j1   == j + nlen
      j2   == j1 + dlen
      j3   == j2 + clen
      pcl  == RdInts(toks, strs, i + 5, j3)
      loc  == RdIdents(toks, strs, pcl.i, pcl.j)
      cel  == RdInts(toks, strs, loc.i, loc.j)
      fre  == RdIdents(toks, strs, cel.i, cel.j)
      e    == fre.i                              \* maxstack numparams numkwonly hasvarargs haskwargs
  IN [v |-> [name |-> Bytes(strs, j, nlen), line |-> IntAt(toks, i + 1), col |-> IntAt(toks, i + 2),
             doc |-> Bytes(strs, j1, dlen), code |-> Bytes(strs, j2, clen),
             pclinetab |-> pcl.v, locals |-> loc.v, cells |-> cel.v, freevars |-> fre.v,
             maxstack |-> IntAt(toks, e), numparams |-> IntAt(toks, e + 1), numkwonly |-> IntAt(toks, e + 2),
             hasvarargs |-> IntAt(toks, e + 3) # 0, haskwargs |-> IntAt(toks, e + 4) # 0],
      i |-> e + 5, j |-> fre.j,
      ok |-> /\ \A k \in i..(i + 4) : TokOK(toks, k)
             /\ nlen >= 0 /\ dlen >= 0 /\ clen >= 0 /\ j3 - 1 <= Len(strs)
             /\ pcl.ok /\ loc.ok /\ cel.ok /\ fre.ok
             /\ \A k \in e..(e + 4) : TokOK(toks, k)]

\* functions have a variable number of varints: read them one after the other
RECURSIVE RdFuncsFrom(_, _, _, _, _, _, _)
RdFuncsFrom(toks, strs, i, j, n, acc, ok) ==
  IF n = 0 THEN [v |-> acc, i |-> i, j |-> j, ok |-> ok]
  ELSE LET f == RdFunc(toks, strs, i, j) IN RdFuncsFrom(toks, strs, f.i, f.j, n - 1, Append(acc, f.v), ok /\ f.ok)
RdFuncs(toks, strs, i, j) ==
  LET n == IntAt(toks, i)
      cnt == IF TokOK(toks, i) /\ n >= 0 /\ i + n <= Len(toks) THEN n ELSE 0
  IN RdFuncsFrom(toks, strs, i + 1, j, cnt, <<>>, TokOK(toks, i) /\ n = cnt)

\* [ok, prog] ; ok is FALSE for a wrong magic number or version, an inconsistent
\* offset, exhausted or unconsumed input
Decode(enc, version) ==
  LET toks == enc.toks
      strs == enc.strs
      flen == IntAt(toks, 2)                     \* varint 1 is the version, 2 the file name
      lds == RdIdents(toks, strs, 3, 1 + flen)
      nms == RdStrs(toks, strs, lds.i, lds.j)
      cns == RdConsts(toks, strs, nms.i, nms.j)
      glb == RdIdents(toks, strs, cns.i, cns.j)
      top == RdFunc(toks, strs, glb.i, glb.j)
      fns == RdFuncs(toks, strs, top.i, top.j)
  IN [ok |-> /\ enc.magic = Magic
             /\ enc.off = 8 + SumVarLen(toks, 1)
             /\ TokOK(toks, 1) /\ IntAt(toks, 1) = version
             /\ TokOK(toks, 2) /\ flen \in 0..Len(strs)
             /\ lds.ok /\ nms.ok /\ cns.ok /\ glb.ok /\ top.ok /\ fns.ok
             /\ TokOK(toks, fns.i) /\ fns.i = Len(toks) /\ fns.j = Len(strs) + 1,
      prog |-> [filename |-> Bytes(strs, 1, flen), loads |-> lds.v, names |-> nms.v, consts |-> cns.v, globals |-> glb.v,
                toplevel |-> top.v, funcs |-> fns.v, recursion |-> IntAt(toks, fns.i) # 0]]

\* the two laws of the format
RoundTrip(prog, version) == Decode(Encode(prog, version), version) = [ok |-> TRUE, prog |-> prog]
Canonical(enc, version)  == Decode(enc, version).ok => Encode(Decode(enc, version).prog, version) = enc
=============================================================================
