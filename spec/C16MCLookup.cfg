CONSTANTS
  PW = 2
  LW = 3
  CW = 3
  MaxRows = 5
  DPc = {1, 3, 4, 7}
  DLine <- LookupDL
  DCol <- LookupDC
  Line0 = 9
  Col0 = 9
  Greedy = TRUE
INIT Init
NEXT Next
INVARIANTS RoundTrip WordsFit Shape GreedyEq LookupOK LookupNone
POSTCONDITION Done
