CONSTANTS
  PW = 2
  LW = 3
  CW = 3
  MaxRows = 2
  DPc1 = {0, 1, 2, 3, 4, 5, 6, 7, 8, 9, 10}
  DLine1 <- SmallD
  DCol1 <- SmallD
  DPc2 = {1, 4, 7}
  DLine2 <- LookupDL
  DCol2 <- LookupDC
  Line0 = 12
  Col0 = 11
  Greedy = TRUE
INIT Init
NEXT Next
INVARIANTS RoundTrip WordsFit Shape GreedyEq LookupOK LookupNone
POSTCONDITION Done
