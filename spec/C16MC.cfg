CONSTANTS
  PW = 2
  LW = 3
  CW = 3
  MaxRows = 2
  DPc = {1, 2, 3, 4, 5, 6, 7, 9, 10}
  DLine <- SmallD
  DCol <- SmallD
  Line0 = 12
  Col0 = 11
  Greedy = TRUE
INIT Init
NEXT Next
INVARIANTS RoundTrip WordsFit Shape GreedyEq LookupOK LookupNone
POSTCONDITION Done
