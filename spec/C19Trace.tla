------------------------------ MODULE C19Trace ------------------------------
(***************************************************************************)
(* Record validation for C19 (code -> spec).  Every record is one          *)
(* evaluation by the real interpreter + lib/time (vh eval); the verdict is *)
(* computed by TimeSpec.  Record classes (field c):                        *)
(*  op     (L) op (R) for operands L, R of any kind          -> Judge      *)
(*  val    an operand expression denotes the intended value (constructor / *)
(*         attribute binding: from_timestamp, parse_duration, in_location, *)
(*         module constants)                                               *)
(*  attrs  year..nanosecond, unix, unix_nano of an instant in a zone with  *)
(*         a known fixed offset                                            *)
(*  mk     time(year=..., ..., location=fixed offset zone)                  *)
(*  ptime  parse_time(RFC 3339 text with a numeric offset)                 *)
(*  law    a law evaluated by the interpreter itself, result must be True  *)
(*  hash   dict lookup / dict size for two keys (== and hash coherent)     *)
(*  sort   sorted(list) is ordered by instant and a permutation            *)
(*  dstr   str(d) denotes d and parse_duration(str(d)) = d                 *)
(*  dparse parse_duration(text) against the duration grammar               *)
(* Results are observed through a wrapper that returns a coded tuple:      *)
(*  (1, d.nanoseconds) (2, t.unix, t.nanosecond) (3, int) (4, float)       *)
(*  (5, bool) (0,)                                                         *)
(***************************************************************************)
EXTENDS TimeSpec, Json, IOUtils, TLC, FiniteSets

Recs == ndJsonDeserialize(IOEnv.VERIF_RECS)
VARIABLE i

Big(v) == IF v.t = "int" THEN FromInt(v.v) ELSE [neg |-> v.neg, m |-> v.m]
IsIntV(v) == v.t \in {"int", "big"}

\* decode one wrapper tuple
ObsV(v) ==
  IF v.t # "tuple" \/ Len(v.v) = 0 \/ v.v[1].t # "int" THEN [k |-> "other"]
  ELSE LET tup == v.v  code == tup[1].v IN
    CASE code = 1 /\ Len(tup) = 2 /\ IsIntV(tup[2]) -> [k |-> "duration", n |-> Big(tup[2])]
      [] code = 2 /\ Len(tup) = 3 /\ IsIntV(tup[2]) /\ tup[3].t = "int" /\ tup[3].v >= 0 /\ tup[3].v < 1000000000 ->
             [k |-> "time", n |-> Instant(Big(tup[2]), Big(tup[3]))]
      [] code = 3 /\ Len(tup) = 2 /\ IsIntV(tup[2]) -> [k |-> "int", n |-> Big(tup[2])]
      [] code = 4 /\ Len(tup) = 2 /\ tup[2].t = "float" ->
             [k |-> "float", neg |-> tup[2].s = 1, zero |-> (tup[2].e = 0 /\ tup[2].m = <<0, 0, 0, 0>>),
              fin |-> tup[2].e # 2047]
      [] code = 5 /\ Len(tup) = 2 /\ tup[2].t = "bool" -> [k |-> "bool", b |-> tup[2].v]
      [] OTHER -> [k |-> "other"]
Obs(res) == IF ~res.ok THEN [k |-> "reject"] ELSE ObsV(res.v)

IsExact(o, kind, n) == o.k = kind /\ IEq(o.n, n)
OkIf(b) == IF b THEN "ok" ELSE "bad"

\* native ints of a tuple of small ints (components); <<>> if malformed
SmallInts(v) == IF v.t = "tuple" /\ \A j \in 1..Len(v.v) : v.v[j].t = "int"
                THEN [j \in 1..Len(v.v) |-> v.v[j].v] ELSE <<>>

(* ---- val ---- *)
VVal(r) ==
  LET claimed == CASE r.ctor = "ts"    -> Instant(r.a[1], r.a[2])
                   [] r.ctor = "civil" -> CivilInstant(r.comp, r.off)
                   [] OTHER            -> r.a[1]
  IN OkIf(IEq(claimed, r.X.n) /\ IsExact(Obs(r.res), r.X.k, r.X.n))

(* ---- attrs: (year, month, day, hour, minute, second, nanosecond, unix, unix_nano) ---- *)
VAttrs(r) ==
  IF ~r.res.ok \/ r.res.v.t # "tuple" \/ Len(r.res.v.v) # 9 THEN "bad"
  ELSE LET t == r.res.v.v
           c == SmallInts([t |-> "tuple", v |-> SubSeq(t, 1, 7)])
       IN IF c = <<>> \/ ~IsIntV(t[8]) \/ ~IsIntV(t[9]) THEN "bad"
          ELSE IF ~CivilOK(r.X.n, r.off, c) THEN "bad"
          ELSE IF ~IEq(Instant(Big(t[8]), I(c[7])), r.X.n) THEN "bad"          \* unix (with 0 <= nanosecond < 1e9)
          ELSE IF IEq(Big(t[9]), r.X.n) THEN "ok"
          ELSE IF ~InI64(r.X.n) THEN "ovf-attr" ELSE "bad"

(* ---- mk / ptime: wall clock r.comp at offset r.off denotes the instant ---- *)
VCivil(r) ==
  LET o == Obs(r.res) IN
  IF ~ValidCivil(r.comp) THEN "unjudged"
  ELSE OkIf(IsExact(o, "time", CivilInstant(r.comp, r.off)))

(* ---- laws evaluated by the interpreter ---- *)
VLaw(r) ==
  LET o == Obs(r.res)
      holds == o.k = "bool" /\ o.b
  IN IF holds THEN "ok"
     ELSE IF r.name = "addsub"   /\ ~InI64(IAdd(r.A.n, r.B.n)) THEN "ovf-law"
     ELSE IF r.name = "subadd"   /\ ~InI64(ISub(r.B.n, r.A.n)) THEN "ovf-law"
     ELSE IF r.name = "ddadd"    /\ ~InI64(IAdd(r.A.n, r.B.n)) THEN "ovf-law"
     ELSE IF r.name = "comm"     /\ ~InI64(IAdd(r.A.n, r.B.n)) THEN "ovf-law"
     ELSE IF r.name = "unixnano" /\ ~InI64(r.A.n) THEN "ovf-law"
     ELSE "bad"

(* ---- hash: ({A: 1}.get(B, 0), len(dict([(A, 1), (B, 2)]))) ---- *)
VHash(r) ==
  LET same == r.A.k = r.B.k /\ IEq(r.A.n, r.B.n)
      t == IF r.res.ok THEN SmallInts(r.res.v) ELSE <<>>
  IN OkIf(t = (IF same THEN <<1, 1>> ELSE <<0, 2>>))

(* ---- sort ---- *)
VSort(r) ==
  IF ~r.res.ok \/ r.res.v.t # "list" \/ Len(r.res.v.v) # Len(r.xs) THEN "bad"
  ELSE LET out == [j \in 1..Len(r.xs) |-> ObsV(r.res.v.v[j])]
           n == Len(r.xs)
       IN OkIf(/\ \A j \in 1..n : out[j].k = r.xs[1].k
               /\ \A j \in 1..(n - 1) : ILe(out[j].n, out[j + 1].n)
               /\ \A j \in 1..n : Cardinality({k \in 1..n : IEq(out[k].n, r.xs[j].n)})
                                  = Cardinality({k \in 1..n : IEq(r.xs[k].n, r.xs[j].n)}))

(* ---- dstr: (str(d), parse_duration(str(d)).nanoseconds) ---- *)
VDstr(r) ==
  IF ~r.res.ok \/ r.res.v.t # "tuple" \/ Len(r.res.v.v) # 2 \/ r.res.v.v[1].t # "str" \/ ~IsIntV(r.res.v.v[2]) THEN "bad"
  ELSE LET e == DurEval(r.res.v.v[1].v) IN
       OkIf(e.ok /\ e.exact /\ IEq(e.n, r.X.n) /\ IEq(Big(r.res.v.v[2]), r.X.n))

(* ---- dparse ---- *)
VDparse(r) ==
  LET e == DurEval(r.text)  o == Obs(r.res) IN
  IF ~e.ok THEN OkIf(o.k = "reject")
  ELSE IF ~e.exact THEN "inexact-text"          \* a term is not a whole number of ns: rounding is not specified
  ELSE IF InI64(e.n) THEN OkIf(IsExact(o, "duration", e.n))
  ELSE IF o.k = "reject" THEN "ovf-reject" ELSE "bad"

Verdict(r) ==
  CASE r.c = "op"     -> Judge(r.L, r.op, r.R, Obs(r.res))
    [] r.c = "val"    -> VVal(r)
    [] r.c = "attrs"  -> VAttrs(r)
    [] r.c = "mk"     -> VCivil(r)
    [] r.c = "ptime"  -> VCivil(r)
    [] r.c = "law"    -> VLaw(r)
    [] r.c = "hash"   -> VHash(r)
    [] r.c = "sort"   -> VSort(r)
    [] r.c = "dstr"   -> VDstr(r)
    [] r.c = "dparse" -> VDparse(r)

K == 64
Init == i \in 1..(IF Len(Recs) < K THEN Len(Recs) ELSE K)
Next == i + K <= Len(Recs) /\ i' = i + K
Check == LET v == Verdict(Recs[i]) IN
         \/ v = "ok"
         \/ (v = "bad" /\ PrintT(<<"BAD", Recs[i].id>>))
         \/ (v # "bad" /\ PrintT(<<"NOTE", Recs[i].id, v>>))

\* vacuity guard: the table entries exercised by op records
Seen == {<<Recs[j].L.k, Recs[j].op, Recs[j].R.k>> : j \in {k \in 1..Len(Recs) : Recs[k].c = "op"}}
Done == /\ PrintT(<<"CHECKED", TLCGet("stats").distinct>>)
        /\ PrintT(<<"COVER", Cardinality(Seen \cap Declared), Cardinality(Declared), Cardinality(Seen \cap Accepted), Cardinality(Accepted)>>)
        /\ PrintT(<<"MISSING", Declared \ Seen>>)
=============================================================================
