CONSTANTS
  NK = 3
  HMax = 2
  MaxOps = 4
  Full = TRUE
  BucketSize = 2
  LoadNum = 3
  LoadDen = 2
INIT Init
NEXT Next
INVARIANTS SeedIndependent Refines TablesOK
