------------------------------ MODULE C05Trace ------------------------------
(***************************************************************************)
(* Trace validation (code -> spec) for C05: the corollary of Threads!NoRace *)
(* that can be observed on ONE thread, without any luck with schedules:    *)
(*                                                                         *)
(*     after publication no operation writes to a published object.        *)
(*                                                                         *)
(* The harness runs a module with the verif hooks on (iterator counter     *)
(* +1 / -1 and "frozen flag stored" on lists and hash tables), marks the   *)
(* completion of the module ("publish"), then performs every operation of  *)
(* Threads!ReadOps on every published value.  Along the log the spec keeps *)
(* the set of objects whose flag has been stored and, at "publish", the    *)
(* set of published objects; it rejects                                    *)
(*   begin / done   on a published object (Threads: the iter guard),       *)
(*   freeze         on a published object (Threads: the freeze guard),     *)
(*   final          a published object whose counter is not 0 or that is   *)
(*                  not frozen when the run is over,                       *)
(*   publish        if a container the harness found reachable from the    *)
(*                  globals was not seen being frozen (the hooks would be  *)
(*                  blind; reported as a machinery failure).               *)
(* Events: [n, ev, o, c, fz, tag]; runs are separated by "reset".          *)
(***************************************************************************)
EXTENDS Integers, Sequences, FiniteSets, Json, IOUtils, TLC

Trace == ndJsonDeserialize(IOEnv.VERIF_RECS)
VARIABLES l,
          flagged,     \* ids of objects whose frozen flag has been stored in this run
          published    \* ids of the objects frozen when the module finished

Init == l = 0 /\ flagged = {} /\ published = {}

Range(s) == {s[i] : i \in 1..Len(s)}

EventOK(e) ==
  CASE e.ev \in {"begin", "done"} -> e.o \notin published
    [] e.ev = "freeze"  -> e.o \notin published
    [] e.ev = "publish" -> Range(e.objs) \subseteq flagged
    [] e.ev = "final"   -> e.o \in published => (e.c = 0 /\ e.fz # 0)
    [] e.ev \in {"op", "reset"} -> TRUE

Next ==
  /\ l < Len(Trace)
  /\ l' = l + 1
  /\ flagged' = CASE Trace[l + 1].ev = "freeze" -> flagged \cup {Trace[l + 1].o}
                  [] Trace[l + 1].ev = "reset" -> {}
                  [] OTHER -> flagged
  /\ published' = CASE Trace[l + 1].ev = "publish" -> flagged
                    [] Trace[l + 1].ev = "reset" -> {}
                    [] OTHER -> published
  /\ (EventOK(Trace[l + 1]) \/ PrintT(<<"BAD", Trace[l + 1].n>>))
  /\ (Trace[l + 1].ev = "publish" => PrintT(<<"PUBLISHED", Cardinality(flagged)>>))
Done == PrintT(<<"CHECKED", TLCGet("stats").distinct - 1>>)
=============================================================================
