CONSTANT MaxLines = 4
INIT Init
NEXT Next
INVARIANTS WellNested Emit
