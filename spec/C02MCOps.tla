------------------------------ MODULE C02MCOps ------------------------------
(***************************************************************************)
(* C02, domain 1b: operator forms x operand tuples (CrashDomain 1b).       *)
(*                                                                         *)
(* One root state per form, one successor per operand tuple of the form's  *)
(* domain; every case is printed once:  O[form index, [code indices]].     *)
(*   index   x[y]        receivers x (index codes + junk + pool values)    *)
(*   slice2  x[y:z]      receivers x (index codes + junk)^2                *)
(*   slice3  x[y:z:w]    receivers x (index codes)^3        -- FULL        *)
(*   set3    x[y] = z, x[y] += z   assignment receivers x indices x values *)
(*   setf    x.a = y, x.a += y     operands x values                       *)
(*   fmt     x % y       format strings x operands                         *)
(*   pair    every binary and augmented operator, `in`, `not in`, and/or,  *)
(*           x(y): all ORDERED pairs                                       *)
(*   one     unary operators, x.attr, *x, **x, unpacking, for, comprehension*)
(* quick: receivers = RecvSmall, pairs over the 23-value MidPool;          *)
(* thorough: receivers and pairs over every operand code.                  *)
(* Expected outcome of every case: a value or an error within the budget.  *)
(***************************************************************************)
EXTENDS CrashDomain, Json, IOUtils

Tier == IOEnv.C02_TIER
VARIABLES fi, ph, args
vars == <<fi, ph, args>>

Ixs(seq) == {CodeIx(seq[i]) : i \in 1..Len(seq)}
AllOps  == Ixs(OperandCodes)
IxSet   == Ixs(IxCodes)
IxPlus  == IxSet \cup Ixs(IxJunk)
MidSet  == Ixs(MidPool)
SubSet  == Ixs(SubPool)
Recv    == IF Tier = "quick" THEN Ixs(RecvSmall) ELSE AllOps
PairOps == IF Tier = "quick" THEN MidSet ELSE AllOps
Vals    == IF Tier = "quick" THEN SubSet ELSE MidSet

DomOf(tag) ==
  CASE tag = "index"  -> {<<x, y>> : x \in Recv, y \in IxPlus \cup (IF Tier = "quick" THEN SubSet ELSE AllOps)}
    [] tag = "slice2" -> {<<x, y, z>> : x \in Recv, y \in IxPlus, z \in IxPlus}
    [] tag = "slice3" -> {<<x, y, z, w>> : x \in Recv, y \in IxSet, z \in IxSet, w \in IxSet}
    [] tag = "set3"   -> {<<x, y, z>> : x \in Ixs(RecvMut), y \in IxSet \cup SubSet, z \in Vals}
    [] tag = "setf"   -> {<<x, y>> : x \in AllOps, y \in Vals}
    [] tag = "fmt"    -> {<<x, y>> : x \in Ixs(FmtStrings), y \in AllOps}
    [] tag = "pair"   -> {<<x, y>> : x \in PairOps, y \in PairOps}
    [] tag = "one"    -> {<<x>> : x \in AllOps}

NF == Len(OpForms)
Init == fi \in 1..NF /\ ph = 0 /\ args = <<>>
Next == ph = 0 /\ ph' = 1 /\ args' \in DomOf(OpForms[fi].dom) /\ UNCHANGED fi

TypeOK == fi \in 1..NF /\ ph \in {0, 1} /\ \A i \in 1..Len(args) : args[i] \in 1..Len(Codes)
\* a symbolic index code never stands for the receiver
NoSymbolicReceiver == ph = 1 => Codes[args[1]] \notin {IxSym[i] : i \in 1..Len(IxSym)}
Emit == ph = 1 => PrintT("O" \o ToJson(<<fi, args>>))

RECURSIVE SumDom(_)
SumDom(i) == IF i = 0 THEN 0 ELSE Cardinality(DomOf(OpForms[i].dom)) + SumDom(i - 1)
Declared == SumDom(NF)
Post == /\ PrintT("META" \o ToJson([forms |-> OpForms, codes |-> Codes, kinds |-> [i \in 1..Len(Codes) |-> KindOf(Codes[i])],
                                     declared |-> Declared, unbounded |-> Unbounded, ix |-> IxCodes, distinct |-> TLCGet("stats").distinct]))
        /\ TLCGet("stats").distinct = Declared + NF
=============================================================================
