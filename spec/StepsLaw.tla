------------------------------ MODULE StepsLaw ------------------------------
(* Closed forms derived from the Steps state machine (loop head: increment, limit test,
   cancellation test, execute); see Steps.tla. *)
EXTENDS Integers, Sequences, TLC

(***************************************************************************)
(* Closed form for a limited run of a fresh thread (used to validate the   *)
(* recorded cut-point sweeps): a program whose unlimited run takes `total` *)
(* steps (0 = it does not terminate within the reference budget) and calls *)
(* the host at the steps in `ticks`, run with limit N.                     *)
(***************************************************************************)
Completes(total, N) == total > 0 /\ total < N
TicksSeen(ticks, N) == Len(SelectSeq(ticks, LAMBDA s : s < N))
StepsAfter(total, N) == IF Completes(total, N) THEN total ELSE N
=============================================================================
