------------------------------- MODULE Resolve -------------------------------
(***************************************************************************)
(* Static well-formedness of a Starlark file (doc/spec.md: "Name binding   *)
(* and variables", "Functions", "Function definitions", "Function and      *)
(* method calls", "Assignments", "Augmented assignments", the statement    *)
(* sections and "Dialect differences"), as a function of the six           *)
(* FileOptions.                                                            *)
(*                                                                         *)
(*   StaticErrors(ast, opts, pre)  =  set of violations [rule, at]         *)
(*                                                                         *)
(* ast  : the JSON tree of `vh ast` (harness/cmd/vh/ast.go) - every node   *)
(*        is a record with k = kind and p = <<line, col>> - plus, for the  *)
(*        rules that talk about a sub-token, tp/fp/fc on load nodes        *)
(*        (positions of the local names, of the quoted names, bytes of the *)
(*        quoted names), ep on parameters (position of '='), np on         *)
(*        *args / **kwargs (position of the name).                         *)
(* opts : [Set, While, TopLevelControl, GlobalReassign, LoadBindsGlobally, *)
(*        Recursion : BOOLEAN]                                             *)
(* pre  : set of names predeclared by the application                      *)
(* at   : the set of positions at which the violation may be reported:     *)
(*        the first token of the offending construct and its operator      *)
(*        token (the two conventions a reader may have for "the position   *)
(*        of a construct").                                                *)
(*                                                                         *)
(* rules                                                                   *)
(*  undefined  a name with no binding at all                               *)
(*  set        reference to the universal `set` while Set is off           *)
(*  loop       break / continue outside a loop                             *)
(*  return     return outside a function                                   *)
(*  loadplace  load nested in another statement                            *)
(*  loadname   quoted name of a load is empty or starts with '_'           *)
(*  toplevel   if / for / while outside a function, TopLevelControl off    *)
(*  while      while statement, While off                                  *)
(*  reassign   second binding of a name in the file/module block,          *)
(*             GlobalReassign off                                          *)
(*  dupparam   two parameters with one name                                *)
(*  paramorder parameter list not of the form                              *)
(*             required* optional* [* | *args] kwonly* [**kwargs]          *)
(*             or bare * without keyword-only parameter                    *)
(*  argorder   argument list not of the form pos* named* [*x] [**y]        *)
(*  dupkw      named argument repeated                                     *)
(*  argcount   more than 255 positional or more than 255 named arguments   *)
(*  assign     target that cannot be assigned; compound target of an       *)
(*             augmented assignment                                        *)
(*                                                                         *)
(* Scoping (spec.md "Name binding and variables").  Blocks: predeclared    *)
(* (universal + application), module, file, function, comprehension.  A    *)
(* name bound anywhere in a block is bound in the whole block.  A use      *)
(* refers to the innermost enclosing block that binds the name; because    *)
(* only "is there a binding at all" is a static question, the walk keeps   *)
(* the union of the names bound by the enclosing function/comprehension    *)
(* blocks (ctx.locals) and the names bound in the file and module blocks   *)
(* (ctx.top).  The operand of a comprehension's first for clause belongs   *)
(* to the enclosing block, default values of parameters belong to the      *)
(* block enclosing the function.                                           *)
(*                                                                         *)
(* One documented deviation (resolve.go, comment in `use`): with           *)
(* GlobalReassign a use that stands directly in the file block follows the *)
(* Python rule - it sees only the top-level bindings made so far (then the *)
(* predeclared block) - instead of "bound anywhere in the block".  The     *)
(* file-level walk therefore threads the set `seen` of names bound so far, *)
(* in execution order (right-hand side before targets, iterable before     *)
(* loop variables, a def's name before its defaults).  The same set        *)
(* decides which binding is the second one for rule reassign.              *)
(***************************************************************************)
EXTENDS Integers, Sequences, FiniteSets

\* spec.md "Built-in constants and functions"
Universal == {"None", "True", "False", "abs", "any", "all", "bool", "chr", "dict", "dir",
              "enumerate", "fail", "float", "getattr", "hasattr", "hash", "int", "len",
              "list", "max", "min", "ord", "print", "range", "repr", "reversed", "set",
              "sorted", "str", "tuple", "type", "zip"}

V(r, at) == [rule |-> r, at |-> at]
RangeOf(s) == {s[i] : i \in DOMAIN s}

RECURSIVE Start(_), TargetNames(_), BoundIn(_), ExprErrs(_, _, _), TargetW(_, _, _, _),
          TargetsW(_, _, _, _, _), StmtW(_, _, _), StmtsW(_, _, _, _), FnErrs(_, _, _, _, _)

\* first token of an expression
Start(e) == CASE e.k = "binary" -> Start(e.x)
              [] e.k = "call"   -> Start(e.fn)
              [] e.k \in {"index", "slice", "dot"} -> Start(e.x)
              [] e.k = "cond"   -> Start(e.then)
              [] OTHER -> e.p
Anchors(e) == {Start(e), e.p}

--------------------------------------------------------------------------------
\* names bound by a target / by the statements of one block (nested function
\* bodies and comprehensions are blocks of their own)
TargetNames(t) == CASE t.k = "name" -> {t.name}
                    [] t.k \in {"tuple", "list"} -> UNION {TargetNames(t.elems[i]) : i \in DOMAIN t.elems}
                    [] t.k = "paren" -> TargetNames(t.x)
                    [] OTHER -> {}

StmtBinds(s) == CASE s.k = "assign" -> TargetNames(s.lhs)
                  [] s.k = "def"    -> {s.name}
                  [] s.k = "for"    -> TargetNames(s.vars) \cup BoundIn(s.body)
                  [] s.k = "while"  -> BoundIn(s.body)
                  [] s.k = "if"     -> BoundIn(s.then) \cup BoundIn(s.else)
                  [] s.k = "load"   -> RangeOf(s.to)
                  [] OTHER -> {}
BoundIn(ss) == UNION {StmtBinds(ss[i]) : i \in DOMAIN ss}

ParamNames(ps) == {ps[i].name : i \in {j \in DOMAIN ps : ps[j].k # "star"}}
CompVars(c) == UNION {TargetNames(c.clauses[i].vars) : i \in {j \in DOMAIN c.clauses : c.clauses[j].k = "for"}}

--------------------------------------------------------------------------------
\* a non-binding use of name n at position p
UseErrs(n, p, ctx, seen) ==
  IF n \in ctx.locals THEN {}
  ELSE LET visible == IF ctx.direct /\ ctx.opts.GlobalReassign THEN seen ELSE ctx.top IN
       IF n \in visible \/ n \in ctx.pre THEN {}
       ELSE IF n \in Universal
            THEN (IF n = "set" /\ ~ctx.opts.Set THEN {V("set", {p})} ELSE {})
            ELSE {V("undefined", {p})}

\* parameter lists (def and lambda)
ParamErrs(ps) ==
  LET n == Len(ps)
      KwB(i)   == \E j \in 1..(i - 1) : ps[j].k = "kwargs"
      StarB(i) == \E j \in 1..(i - 1) : ps[j].k \in {"star", "args"}
      OptB(i)  == \E j \in 1..(i - 1) : ps[j].k = "param" /\ ps[j].hasdflt
      At(i) == CASE ps[i].k = "param" -> {ps[i].p, ps[i].ep}
                 [] ps[i].k \in {"args", "kwargs"} -> {ps[i].p, ps[i].np}
                 [] OTHER -> {ps[i].p}
      Mis(i) == CASE ps[i].k = "param" -> KwB(i) \/ (~StarB(i) /\ ~ps[i].hasdflt /\ OptB(i))
                  [] ps[i].k \in {"star", "args"} -> KwB(i) \/ StarB(i)
                  [] OTHER -> KwB(i)
      Bare(i) == ps[i].k = "star" /\ ~\E j \in (i + 1)..n : ps[j].k = "param" /\ ~KwB(j)
      Same(i) == {j \in 1..n : ps[j].k # "star" /\ ps[j].name = ps[i].name}
      Dup(i)  == ps[i].k # "star" /\ Cardinality(Same(i)) > 1
  IN {V("paramorder", At(i)) : i \in {j \in 1..n : Mis(j) \/ Bare(j)}}
     \* "any two parameters have the same name" is symmetric: one violation per name,
     \* reportable at any of the parameters that carry it
     \cup {V("dupparam", UNION {At(j) : j \in Same(i)}) : i \in {j \in 1..n : Dup(j)}}

\* argument lists
ArgErrs(e) ==
  LET a == e.args
      n == Len(a)
      KwB(i) == \E j \in 1..(i - 1) : a[j].k = "kwarg"
      StB(i) == \E j \in 1..(i - 1) : a[j].k = "stararg"
      NmB(i) == \E j \in 1..(i - 1) : a[j].k = "named"
      At(i)  == IF a[i].k = "pos" THEN Anchors(a[i].x) ELSE {a[i].p}
      Mis(i) == CASE a[i].k = "pos" -> KwB(i) \/ StB(i) \/ NmB(i)
                  [] a[i].k = "kwarg" -> KwB(i)
                  [] OTHER -> KwB(i) \/ StB(i)
      Rep(i) == a[i].k = "named" /\ \E j \in 1..(i - 1) : a[j].k = "named" /\ a[j].name = a[i].name
      cnt(k) == Cardinality({i \in 1..n : a[i].k = k})
  IN {V("argorder", At(i)) : i \in {j \in 1..n : Mis(j)}}
     \cup {V("dupkw", At(i)) : i \in {j \in 1..n : Rep(j)}}
     \cup (IF cnt("pos") > 255 \/ cnt("named") > 255 THEN {V("argcount", Anchors(e))} ELSE {})

ExprsErrs(es, ctx, seen) == UNION {ExprErrs(es[i], ctx, seen) : i \in DOMAIN es}

ExprErrs(e, ctx, seen) ==
  CASE e.k = "name"   -> UseErrs(e.name, e.p, ctx, seen)
    [] e.k = "lit"    -> {}
    [] e.k \in {"paren", "unary", "dot"} -> ExprErrs(e.x, ctx, seen)     \* the name after a dot is not resolved
    [] e.k \in {"binary", "index"} -> ExprErrs(e.x, ctx, seen) \cup ExprErrs(e.y, ctx, seen)
    [] e.k = "cond"   -> ExprErrs(e.cond, ctx, seen) \cup ExprErrs(e.then, ctx, seen) \cup ExprErrs(e.else, ctx, seen)
    [] e.k = "slice"  -> ExprErrs(e.x, ctx, seen)
                         \cup (IF e.haslo THEN ExprErrs(e.lo, ctx, seen) ELSE {})
                         \cup (IF e.hashi THEN ExprErrs(e.hi, ctx, seen) ELSE {})
                         \cup (IF e.hasstep THEN ExprErrs(e.step, ctx, seen) ELSE {})
    [] e.k \in {"list", "tuple"} -> ExprsErrs(e.elems, ctx, seen)
    [] e.k = "dict"   -> UNION {ExprErrs(e.entries[i].key, ctx, seen) \cup ExprErrs(e.entries[i].val, ctx, seen) : i \in DOMAIN e.entries}
    [] e.k = "call"   -> ExprErrs(e.fn, ctx, seen) \cup ArgErrs(e)
                         \cup UNION {ExprErrs(e.args[i].x, ctx, seen) : i \in DOMAIN e.args}
    [] e.k = "lambda" -> FnErrs(e.params, e.body, TRUE, ctx, seen)
    [] e.k = "comp"   ->
         LET inner == [ctx EXCEPT !.locals = ctx.locals \cup CompVars(e), !.direct = FALSE]
             st0   == [errs |-> {}, seen |-> seen, loaded |-> {}]
             cl(i) == e.clauses[i]
         IN ExprErrs(cl(1).x, ctx, seen)                                  \* first operand: enclosing block
            \cup UNION {IF cl(i).k = "for"
                        THEN TargetW(cl(i).vars, FALSE, inner, st0).errs
                             \cup (IF i > 1 THEN ExprErrs(cl(i).x, inner, seen) ELSE {})
                        ELSE ExprErrs(cl(i).cond, inner, seen) : i \in DOMAIN e.clauses}
            \cup (IF e.curly THEN ExprErrs(e.key, inner, seen) \cup ExprErrs(e.val, inner, seen)
                  ELSE ExprErrs(e.body, inner, seen))

\* def / lambda: defaults in the enclosing block, parameters and body in a new function block
FnErrs(params, body, isLambda, ctx, seen) ==
  LET dflts  == UNION {ExprErrs(params[i].dflt, ctx, seen) : i \in {j \in DOMAIN params : params[j].k = "param" /\ params[j].hasdflt}}
      locals == ParamNames(params) \cup (IF isLambda THEN {} ELSE BoundIn(body))
      c2     == [ctx EXCEPT !.infn = TRUE, !.loops = 0, !.nest = TRUE, !.direct = FALSE,
                            !.locals = ctx.locals \cup locals]
  IN dflts \cup ParamErrs(params)
     \cup (IF isLambda THEN ExprErrs(body, c2, {}) ELSE StmtsW(body, 1, c2, [errs |-> {}, seen |-> {}, loaded |-> {}]).errs)

--------------------------------------------------------------------------------
\* statements; st = [errs, seen, loaded] threaded in execution order
\* (seen: names bound so far in the file/module blocks; loaded: those bound by load)

\* a binding occurrence of n at position p
BindName(n, p, ctx, st) ==
  IF ~ctx.direct THEN st                        \* local to a function or comprehension: may be rebound
  ELSE [st EXCEPT !.errs = st.errs \cup (IF ~ctx.opts.GlobalReassign /\ n \in st.seen THEN {V("reassign", {p})} ELSE {}),
                  !.seen = st.seen \cup {n}]

\* a binding occurrence made by a load statement.  spec.md: "The sets of names bound in the file
\* block and in the module block do not overlap: it is an error for a load statement to bind the
\* name of a global, or for a top-level statement to bind a name bound by a load statement" -
\* the same rule as BindName.  ctx.relax (FALSE in the oracle) is a DIAGNOSTIC variant that
\* lets a file-local load binding hide an earlier global; the check uses it only to give a
\* rejected record a precise signature.
LoadBind(n, p, ctx, st) ==
  IF ~ctx.direct THEN st
  ELSE LET clash == IF ctx.relax /\ ~ctx.opts.LoadBindsGlobally THEN n \in st.loaded ELSE n \in st.seen
       IN [errs   |-> st.errs \cup (IF ~ctx.opts.GlobalReassign /\ clash THEN {V("reassign", {p})} ELSE {}),
           seen   |-> st.seen \cup {n},
           loaded |-> st.loaded \cup {n}]

AddErrs(st, E) == [st EXCEPT !.errs = st.errs \cup E]

TargetW(t, aug, ctx, st) ==
  CASE t.k = "name"  -> BindName(t.name, t.p, ctx, st)
    [] t.k = "index" -> AddErrs(st, ExprErrs(t.x, ctx, st.seen) \cup ExprErrs(t.y, ctx, st.seen))
    [] t.k = "dot"   -> AddErrs(st, ExprErrs(t.x, ctx, st.seen))
    [] t.k = "paren" -> TargetW(t.x, aug, ctx, st)
    [] t.k \in {"tuple", "list"} ->
         TargetsW(t.elems, 1, aug, ctx, IF aug THEN AddErrs(st, {V("assign", Anchors(t))}) ELSE st)
    [] OTHER -> AddErrs(st, {V("assign", Anchors(t))})
TargetsW(ts, i, aug, ctx, st) ==
  IF i > Len(ts) THEN st ELSE TargetsW(ts, i + 1, aug, ctx, TargetW(ts[i], aug, ctx, st))

TopLevelErr(s, ctx) == IF ~ctx.infn /\ ~ctx.opts.TopLevelControl THEN {V("toplevel", {s.p})} ELSE {}

\* bytes of a quoted load name: empty or leading underscore
BadLoadName(b) == Len(b) = 0 \/ b[1] = 95

RECURSIVE LoadW(_, _, _, _)
LoadW(s, i, ctx, st) ==
  IF i > Len(s.to) THEN st
  ELSE LoadW(s, i + 1, ctx,
             LoadBind(s.to[i], s.tp[i], ctx,
                      IF BadLoadName(s.fc[i]) THEN AddErrs(st, {V("loadname", {s.fp[i]})}) ELSE st))

StmtW(s, ctx, st) ==
  CASE s.k = "expr"   -> AddErrs(st, ExprErrs(s.x, ctx, st.seen))
    [] s.k = "assign" -> TargetW(s.lhs, s.op # "=", ctx, AddErrs(st, ExprErrs(s.rhs, ctx, st.seen)))
    [] s.k = "def"    -> LET st1 == BindName(s.name, s.np, ctx, st)
                         IN AddErrs(st1, FnErrs(s.params, s.body, FALSE, ctx, st1.seen))
    [] s.k = "if"     -> LET c2  == [ctx EXCEPT !.nest = TRUE]
                             st1 == AddErrs(st, TopLevelErr(s, ctx) \cup ExprErrs(s.cond, ctx, st.seen))
                         IN StmtsW(s.else, 1, c2, StmtsW(s.then, 1, c2, st1))
    [] s.k = "for"    -> LET c2  == [ctx EXCEPT !.nest = TRUE, !.loops = ctx.loops + 1]
                             st1 == AddErrs(st, TopLevelErr(s, ctx) \cup ExprErrs(s.x, ctx, st.seen))
                         IN StmtsW(s.body, 1, c2, TargetW(s.vars, FALSE, ctx, st1))
    [] s.k = "while"  -> LET c2  == [ctx EXCEPT !.nest = TRUE, !.loops = ctx.loops + 1]
                             st1 == AddErrs(st, TopLevelErr(s, ctx) \cup ExprErrs(s.cond, ctx, st.seen)
                                                \cup (IF ~ctx.opts.While THEN {V("while", {s.p})} ELSE {}))
                         IN StmtsW(s.body, 1, c2, st1)
    [] s.k \in {"break", "continue"} -> IF ctx.loops = 0 THEN AddErrs(st, {V("loop", {s.p})}) ELSE st
    [] s.k = "return" -> AddErrs(st, (IF ~ctx.infn THEN {V("return", {s.p})} ELSE {})
                                     \cup (IF s.has THEN ExprErrs(s.x, ctx, st.seen) ELSE {}))
    [] s.k = "load"   -> LoadW(s, 1, ctx, IF ctx.infn \/ ctx.nest THEN AddErrs(st, {V("loadplace", {s.p})}) ELSE st)
    [] OTHER -> st                                                       \* pass

StmtsW(ss, i, ctx, st) == IF i > Len(ss) THEN st ELSE StmtsW(ss, i + 1, ctx, StmtW(ss[i], ctx, st))

StaticErrorsV(ast, opts, pre, relax) ==
  LET ctx == [infn |-> FALSE, loops |-> 0, nest |-> FALSE, direct |-> TRUE, locals |-> {},
              top |-> BoundIn(ast.body), opts |-> opts, pre |-> pre, relax |-> relax]
  IN StmtsW(ast.body, 1, ctx, [errs |-> {}, seen |-> {}, loaded |-> {}]).errs
StaticErrors(ast, opts, pre) == StaticErrorsV(ast, opts, pre, FALSE)

\* names bound at top level by load only (they are module globals exactly when LoadBindsGlobally)
RECURSIVE LoadNames(_), OtherNames(_)
LoadNames(ss) == UNION {CASE ss[i].k = "load" -> RangeOf(ss[i].to)
                          [] ss[i].k = "if" -> LoadNames(ss[i].then) \cup LoadNames(ss[i].else)
                          [] ss[i].k \in {"for", "while"} -> LoadNames(ss[i].body)
                          [] OTHER -> {} : i \in DOMAIN ss}
OtherNames(ss) == UNION {CASE ss[i].k = "load" -> {}
                           [] ss[i].k = "if" -> OtherNames(ss[i].then) \cup OtherNames(ss[i].else)
                           [] ss[i].k = "for" -> TargetNames(ss[i].vars) \cup OtherNames(ss[i].body)
                           [] ss[i].k = "while" -> OtherNames(ss[i].body)
                           [] OTHER -> StmtBinds(ss[i]) : i \in DOMAIN ss}
OnlyLoaded(ast) == LoadNames(ast.body) \ OtherNames(ast.body)
=============================================================================
