CONSTANTS
  Full = TRUE
INIT Init
NEXT Next
INVARIANTS RoundTripOK CanonicalOK Rejects
