------------------------------ MODULE C06Trace ------------------------------
(***************************************************************************)
(* Trace validation (code -> spec) of hook traces recorded from the real   *)
(* interpreter (build tag verif): iterator begin/done on lists and hash    *)
(* tables, freeze, frame push/pop, and mutation attempts made by the       *)
(* harness.  The trace spec steps the counters of the Mutability protocol  *)
(* along the log and checks, at every event:                               *)
(*   begin/done  the counter the implementation holds equals the model's   *)
(*               and never goes below zero;                                *)
(*   attempt     the mutation failed iff the protocol says the object is   *)
(*               frozen or being iterated (MutationFails);                 *)
(*   pop to 0    when a thread's call stack is empty again, every unfrozen *)
(*               object has no live iterator (Quiescent).                  *)
(* Events: [n, ev, o, c, d, t, ok]; several runs are concatenated, separated  *)
(* by "reset" events.  Object ids are integers assigned by the harness.           *)
(***************************************************************************)
EXTENDS Integers, Sequences, Json, IOUtils, TLC

Trace == ndJsonDeserialize(IOEnv.VERIF_RECS)
VARIABLES l,
          frozen,    \* set of frozen object ids
          iters,     \* function from the ids of objects with live iterators to their count (> 0)
          depth      \* function from thread ids to the depth of their call stack

Depth(t) == IF t \in DOMAIN depth THEN depth[t] ELSE 0
Cnt(o) == IF o \in DOMAIN iters THEN iters[o] ELSE 0
\* the protocol's guard, as in Mutability!MutationFails
Mutable(o) == o \notin frozen /\ Cnt(o) = 0
Quiet == \A o \in DOMAIN iters : o \in frozen
Set(o, c) == IF c = 0 THEN [x \in (DOMAIN iters) \ {o} |-> iters[x]]
             ELSE [x \in (DOMAIN iters) \cup {o} |-> IF x = o THEN c ELSE iters[x]]
Empty == [x \in {} |-> 0]

Init == l = 0 /\ frozen = {} /\ iters = Empty /\ depth = Empty

EventOK(e) ==
  CASE e.ev = "begin"   -> e.o \notin frozen /\ e.c = Cnt(e.o) + 1
    [] e.ev = "done"    -> e.o \notin frozen /\ Cnt(e.o) > 0 /\ e.c = Cnt(e.o) - 1
    [] e.ev = "freeze"  -> TRUE
    [] e.ev = "push"    -> e.d = Depth(e.t) + 1
    [] e.ev = "pop"     -> e.d = Depth(e.t) - 1
                           /\ ((e.d = 0 /\ \A t \in (DOMAIN depth) \ {e.t} : depth[t] = 0) => Quiet)
    [] e.ev = "attempt" -> (e.ok = 1) = Mutable(e.o)
    [] e.ev = "quiet"   -> Quiet          \* the harness asserts that the run is over
    [] e.ev = "reset"   -> TRUE

Next ==
  /\ l < Len(Trace)
  /\ l' = l + 1
  /\ iters' = CASE Trace[l + 1].ev \in {"begin", "done"} -> Set(Trace[l + 1].o, IF Trace[l + 1].c < 0 THEN 0 ELSE Trace[l + 1].c)
                [] Trace[l + 1].ev = "reset" -> Empty
                [] OTHER -> iters
  /\ frozen' = CASE Trace[l + 1].ev = "freeze" -> frozen \cup {Trace[l + 1].o}
                 [] Trace[l + 1].ev = "reset" -> {}
                 [] OTHER -> frozen
  /\ depth' = CASE Trace[l + 1].ev \in {"push", "pop"} ->
                       [t \in (DOMAIN depth) \cup {Trace[l + 1].t} |-> IF t = Trace[l + 1].t THEN Trace[l + 1].d ELSE depth[t]]
                [] Trace[l + 1].ev = "reset" -> Empty
                [] OTHER -> depth
  /\ (EventOK(Trace[l + 1]) \/ PrintT(<<"BAD", Trace[l + 1].n>>))
Done == PrintT(<<"CHECKED", TLCGet("stats").distinct - 1>>)
=============================================================================
