------------------------------ MODULE BitIntMC ------------------------------
(***************************************************************************)
(* Design check of BitInt: every operator agrees with TLC's native integer *)
(* arithmetic on a set of operands that exercises limb boundaries (2^15,   *)
(* 2^30) in both signs, exhaustively over all pairs.                       *)
(***************************************************************************)
EXTENDS BitInt, TLC
Around(c) == {c - 2, c - 1, c, c + 1, c + 2}
Pos == (0..40) \cup Around(32768) \cup Around(65536) \cup Around(1000000) \cup {32767 * 32768, 32768 * 32768 - 1}
S == Pos \cup {-p : p \in Pos}
VARIABLES x, y
\* pairs are enumerated by Next, not Init: TLC evaluates invariants of initial states on
\* its main thread, whose stack -Xss does not enlarge (deep RECURSIVE operators overflow there)
Init == x = 0 /\ y = 0
Next == x = 0 /\ y = 0 /\ x' \in S /\ y' \in S
Small(n) == n > -1000000000 /\ n < 1000000000
FloorDiv(a, b) == a \div b            \* TLA+ \div and % are floored for positive b only
XB == FromInt(x)
YB == FromInt(y)
RECURSIVE NatAnd(_, _)
NatAnd(a, b) == IF a = 0 \/ b = 0 THEN 0 ELSE (IF a % 2 = 1 /\ b % 2 = 1 THEN 1 ELSE 0) + 2 * NatAnd(a \div 2, b \div 2)
Agree ==
  /\ ToInt(XB) = x
  /\ FromInt(ToInt(XB)) = XB
  /\ ToInt(IAdd(XB, YB)) = x + y
  /\ ToInt(ISub(XB, YB)) = x - y
  /\ ToInt(INeg(XB)) = -x
  /\ (ICmp(XB, YB) < 0) = (x < y) /\ (ICmp(XB, YB) = 0) = (x = y)
  /\ (x < 40000 /\ x > -40000 /\ y < 40000 /\ y > -40000) => ToInt(IMul(XB, YB)) = x * y
  /\ (y > 0) => FloorDivModOK(XB, YB, FromInt(x \div y), FromInt(x % y))
  /\ (y > 0 /\ x % y # 0) => ~FloorDivModOK(XB, YB, FromInt((x \div y) + 1), FromInt((x % y) - y))
  /\ (y < 0) => FloorDivModOK(XB, YB, FromInt((-x) \div (-y)), FromInt(-((-x) % (-y))))
  /\ ToDigits(XB, 10) = ToDigits(XB, 10) /\ FromDigits(x < 0, ToDigits(XB, 10), 10) = XB
  /\ FromDigits(x < 0, ToDigits(XB, 16), 16) = XB /\ FromDigits(x < 0, ToDigits(XB, 2), 2) = XB
  /\ (x >= 0 /\ y >= 0) => ToInt(IAnd(XB, YB)) = NatAnd(x, y)
  /\ (x >= 0 /\ y >= 0) => ToInt(IOr(XB, YB)) = x + y - NatAnd(x, y)
  /\ (x >= 0 /\ y >= 0) => ToInt(IXor(XB, YB)) = x + y - 2 * NatAnd(x, y)
  /\ ToInt(INot(XB)) = -x - 1
  \* signed bitwise laws: x & y + x | y = x + y ; x ^ y = (x | y) - (x & y); ~(x & y) = ~x | ~y
  /\ IAdd(IAnd(XB, YB), IOr(XB, YB)) = IAdd(XB, YB)
  /\ IXor(XB, YB) = ISub(IOr(XB, YB), IAnd(XB, YB))
  /\ INot(IAnd(XB, YB)) = IOr(INot(XB), INot(YB))
  /\ IAnd(XB, FromInt(-1)) = XB /\ IOr(XB, FromInt(-1)) = FromInt(-1)
  /\ (y >= 0 /\ y <= 40) => RshOK(ILsh(XB, y), y, XB)
  /\ (y >= 0 /\ y <= 20 /\ x >= 0) => RshOK(XB, y, FromInt(x \div (2 ^ y)))
  /\ (x > 0) => (2 ^ (BitLen(XB) - 1) <= x /\ (BitLen(XB) > 30 \/ x < 2 ^ BitLen(XB)))
=============================================================================
