INIT Init
NEXT Next
INVARIANT Agree
