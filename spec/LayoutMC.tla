------------------------------- MODULE LayoutMC -------------------------------
(***************************************************************************)
(* Enumerates every skeleton of up to MaxLines lines over the column set   *)
(* Cols and the four line kinds, and emits it with Layout!Nest(lines) for  *)
(* replay on the real scanner and parser (spec -> code).  Design property: *)
(* whenever Nest is defined the depths form a valid pre-order (each line   *)
(* is at most one level deeper than its predecessor, and deeper only after *)
(* a header).                                                              *)
(***************************************************************************)
EXTENDS Layout, Json
CONSTANTS MaxLines
Cols == {0, 1, 2, 4, 8, 9}
Kinds == {"open", "stmt", "blank", "comment"}
VARIABLE lines
Init == lines = <<>>
Next == Len(lines) < MaxLines /\ \E c \in Cols, k \in Kinds : lines' = Append(lines, [col |-> c, kind |-> k])
WellNested == LET n == Nest(lines).n IN
  ~Nest(lines).ok \/ \A i \in 1..Len(n) :
      /\ n[i].depth >= 0
      /\ (i = 1 => n[i].depth = 0)
      /\ (i > 1 => n[i].depth <= n[i - 1].depth + 1 /\ (n[i].depth = n[i - 1].depth + 1 <=> n[i - 1].kind = "open"))
Emit == Len(lines) = 0 \/ PrintT("L" \o ToJson([lines |-> lines, ok |-> Nest(lines).ok, nest |-> Nest(lines).n]))
=============================================================================
