-------------------------------- MODULE Det --------------------------------
(***************************************************************************)
(* Determinism of execution as a 2-safety property over recorded runs.     *)
(*                                                                         *)
(* A run is a record                                                       *)
(*    [key  : identity of the input (program text, dialect options,        *)
(*            predeclared environment),                                    *)
(*     kind : how it was scheduled -- "proc" a fresh process (new hash     *)
(*            seed), "seq" the same process again after other executions,  *)
(*            "reuse" on a thread that has executed other programs,        *)
(*            "conc" one of N threads released together,                   *)
(*     fp   : fingerprint of the process-wide string-hash seed,            *)
(*     obs  : everything a client can observe]                             *)
(* and doc/spec.md promises that obs is a function of key alone:           *)
(*                                                                         *)
(*    \A r1, r2 \in Runs : SameInput(r1, r2) => ObsEq(r1.obs, r2.obs)      *)
(*                                                                         *)
(* A single run can never violate this; a pair of runs can.  The property  *)
(* is schedule-independent, so the set of runs must also COVER the         *)
(* schedule dimension of the quantifier (Covered, SeedsVary) or the        *)
(* verdict is vacuous.                                                     *)
(***************************************************************************)
EXTENDS Integers, Sequences, FiniteSets

\* The observable components (property statement): success flag, whether the
\* failure was static, Print transcript, host-visible effects, canonical
\* serialisation of the globals (values and iteration order of every reachable
\* list/dict/set, aliasing), the printed form of the globals dictionary,
\* attribute listings of every kind of value met, error message, backtrace,
\* number of executed steps.
Components == {"ok", "static", "printed", "effects", "globals", "gstr", "dirs", "err", "bt", "steps"}

ObsEq(a, b) == \A c \in Components : a[c] = b[c]
Diff(a, b)  == {c \in Components : a[c] # b[c]}

SameInput(r1, r2) == r1.key = r2.key

Idx(runs) == 1..Len(runs)

\* the 2-safety property itself
Deterministic(runs) ==
  \A x \in Idx(runs), y \in Idx(runs) :
     SameInput(runs[x], runs[y]) => ObsEq(runs[x].obs, runs[y].obs)

\* diagnostics: the components on which some pair of equal-input runs differs,
\* and the kinds of the runs that differ from the first run
Divergence(runs) ==
  UNION {Diff(runs[x].obs, runs[y].obs) : x \in Idx(runs), y \in Idx(runs)}
Deviants(runs) ==
  {runs[x].kind : x \in {y \in Idx(runs) : ~ObsEq(runs[1].obs, runs[y].obs)}}

(***************************************************************************)
(* Coverage of the schedule dimension.  need is a record kind -> minimum   *)
(* number of runs of that kind.                                            *)
(***************************************************************************)
CountKind(runs, kind) == Cardinality({x \in Idx(runs) : runs[x].kind = kind})
Covered(runs, need)   == \A kind \in DOMAIN need : CountKind(runs, kind) >= need[kind]
OneInput(runs)        == \A x \in Idx(runs) : SameInput(runs[1], runs[x])

\* every fresh process really had a hash seed of its own; all in-process runs
\* share the seed of their process
SeedsVary(runs) ==
  /\ \A x \in Idx(runs), y \in Idx(runs) :
        (x # y /\ runs[x].kind = "proc") => runs[x].fp # runs[y].fp
  /\ \A x \in Idx(runs), y \in Idx(runs) :
        (runs[x].kind # "proc" /\ runs[y].kind # "proc") => runs[x].fp = runs[y].fp
=============================================================================
