INIT Init
NEXT Next
INVARIANT Check
POSTCONDITION Done
