------------------------------ MODULE C12Trace ------------------------------
(***************************************************************************)
(* code -> spec validation of complete operation sequences executed on the *)
(* real dict / set: every record holds one sequence over the reduced       *)
(* alphabet                                                                *)
(*    1..NK        insert key k with the step index as value (set: add k)  *)
(*    NK+1..2NK    delete key k (dict.pop(k, None) / set.discard)          *)
(*    2NK+1        popitem / set.pop     2NK+2  clear                      *)
(* and, for every step, the observed result and the observed content in    *)
(* iteration order.  The abstract module replays the sequence.             *)
(***************************************************************************)
EXTENDS Hashtable, Json, IOUtils

Recs == ndJsonDeserialize(IOEnv.VERIF_RECS)
NK == 5
VARIABLE i

\* one abstract step: <<al', result>>; results: <<>> nothing, <<v>> value, <<k, v>> pair, <<-1>> error
AStep(al, code, step, isSet) ==
  IF code <= NK THEN <<AIns(al, code, IF isSet THEN 0 ELSE step), <<>>>>
  ELSE IF code <= 2 * NK THEN
       LET k == code - NK IN <<ADel(al, k), IF AHas(al, k) /\ ~isSet THEN <<AGet(al, k)>> ELSE <<>>>>
  ELSE IF code = 2 * NK + 1 THEN
       (IF al = <<>> THEN <<al, <<-1>>>> ELSE <<Tail(al), IF isSet THEN <<al[1][1]>> ELSE <<al[1][1], al[1][2]>>>>)
  ELSE <<<<>>, <<>>>>

RECURSIVE Follows(_, _, _, _)
Follows(al, r, n, isSet) ==
  IF n > Len(r.ops) THEN TRUE
  ELSE LET x == AStep(al, r.ops[n], n, isSet) IN
       /\ x[1] = r.obs[n]
       /\ x[2] = r.res[n]
       /\ Follows(x[1], r, n + 1, isSet)

Good(r) == Follows(<<>>, r, 1, r.set = 1)

K == 64
Init == i \in 1..(IF Len(Recs) < K THEN Len(Recs) ELSE K)
Next == i + K <= Len(Recs) /\ i' = i + K
Check == Good(Recs[i]) \/ PrintT(<<"BAD", Recs[i].id>>)
Done == PrintT(<<"CHECKED", TLCGet("stats").distinct>>)
=============================================================================
