INIT Init
NEXT Next
INVARIANT Design
