------------------------------ MODULE C07Trace ------------------------------
(***************************************************************************)
(* Record validation for C07 (code -> spec): cut-point sweeps.  Progs is   *)
(* the table of reference runs (total steps, 0 = does not terminate within *)
(* the reference budget; the step count at every host call); every run     *)
(* record is one execution of program p on a fresh thread with step limit  *)
(* n.  The Steps module's closed forms say what must be observed.          *)
(***************************************************************************)
EXTENDS StepsLaw, Json, IOUtils

Recs  == ndJsonDeserialize(IOEnv.VERIF_RECS)
Progs == ndJsonDeserialize(IOEnv.VERIF_PROGS)
VARIABLE recno

Good(r) ==
  LET P == Progs[r.p] IN
  /\ P.deterministic                                   \* the reference run repeats exactly
  /\ IF Completes(P.total, r.n)
     THEN r.out = "ok" /\ r.same /\ r.steps = P.total /\ r.ticks = Len(P.ticks)
     ELSE /\ r.out = "steps"                            \* cancelled, with the documented reason
          /\ r.steps = r.n                              \* the counter stops at the limit: fewer than n instructions ran
          /\ r.ticks = TicksSeen(P.ticks, r.n)          \* exactly the host calls made before step n happened

KK == 64
Init == recno \in 1..(IF Len(Recs) < KK THEN Len(Recs) ELSE KK)
Next == recno + KK <= Len(Recs) /\ recno' = recno + KK
Check == Good(Recs[recno]) \/ PrintT(<<"BAD", Recs[recno].id>>)
Done == PrintT(<<"CHECKED", TLCGet("stats").distinct>>)
=============================================================================
