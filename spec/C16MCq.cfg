CONSTANTS
  PW = 2
  LW = 3
  CW = 3
  MaxRows = 3
  DPc1 = {0, 2}
  DLine1 <- LookupDL
  DCol1 <- LookupDC
  DPc2 = {1, 4, 7}
  DLine2 <- LookupDL
  DCol2 <- LookupDC
  Line0 = 9
  Col0 = 9
  Greedy = TRUE
INIT Init
NEXT Next
INVARIANTS RoundTrip WordsFit Shape GreedyEq LookupOK LookupNone
POSTCONDITION Done
