------------------------------- MODULE C20MC -------------------------------
(***************************************************************************)
(* Design check of ProtoSpec (no emission): with Flags = FALSE the ideal   *)
(* model keeps frozen content stable on every history within the bounds;   *)
(* with Flags = TRUE (wrapper-group flags) TLC must find a history that    *)
(* changes frozen content - the model-level image of the freeze bypasses.  *)
(* ProtoRange self-test: the oracle on hand-computed boundary cases.       *)
(***************************************************************************)
EXTENDS ProtoSpec, ProtoRange
HView == core
IV(n) == [t |-> "int", neg |-> n < 0, m |-> FromInt(n).m]
BG(x) == [t |-> "int", neg |-> x.neg, m |-> x.m]
S(s) == [t |-> "str", v |-> s]
RangeSelfTest ==
  /\ InRange("int32", BG(INeg(Pow2(31)))) /\ ~InRange("int32", BG(ISub(INeg(Pow2(31)), One)))
  /\ InRange("int32", BG(ISub(Pow2(31), One))) /\ ~InRange("int32", BG(Pow2(31)))
  /\ InRange("uint32", IV(0)) /\ ~InRange("uint32", IV(-1)) /\ InRange("fixed32", BG(ISub(Pow2(32), One))) /\ ~InRange("uint32", BG(Pow2(32)))
  /\ InRange("sint64", BG(INeg(Pow2(63)))) /\ ~InRange("int64", BG(ISub(INeg(Pow2(63)), One)))
  /\ InRange("sfixed64", BG(ISub(Pow2(63), One))) /\ ~InRange("int64", BG(Pow2(63)))
  /\ InRange("uint64", BG(ISub(Pow2(64), One))) /\ ~InRange("fixed64", BG(Pow2(64))) /\ ~InRange("uint64", IV(-1))
  /\ ~InRange("int32", [t |-> "bool", v |-> TRUE])
  /\ ValidUTF8(<<>>) /\ ValidUTF8(<<97, 195, 169, 230, 151, 165, 240, 159, 152, 128>>)
  /\ ~ValidUTF8(<<255>>) /\ ~ValidUTF8(<<97, 195>>) /\ ~ValidUTF8(<<237, 160, 128>>) /\ ~ValidUTF8(<<192, 128>>)
  /\ ~ValidUTF8(<<224, 128, 128>>) /\ ~ValidUTF8(<<244, 144, 128, 128>>) /\ ~ValidUTF8(<<128>>)
  /\ FloatOfSmallInt(FALSE, 1) = [t |-> "float", s |-> 0, e |-> 1023, m |-> <<0, 0, 0, 0>>]
  /\ FloatOfSmallInt(TRUE, 3) = [t |-> "float", s |-> 1, e |-> 1024, m |-> <<0, 0, 0, 64>>]
  /\ FloatOfSmallInt(FALSE, 16777217) = [t |-> "float", s |-> 0, e |-> 1047, m |-> <<0, 8192, 0, 0>>]
  /\ Fits32(FloatOfSmallInt(FALSE, 16777216)) /\ ~Fits32(FloatOfSmallInt(FALSE, 16777217))
  /\ Judge("enum", "p2", IV(5)).d = "accept" /\ Judge("enum", "p2", IV(5)).want.v.name = <<69, 53>>
  /\ Judge("enum", "p2", IV(2)).d = "reject" /\ Judge("enum", "p3", S(<<69, 77, 73, 78>>)).want.v.n = INeg(Pow2(31))
  /\ Judge("string", "p2", S(<<255>>)).d = "either" /\ Judge("string", "p2", S(<<97>>)).d = "accept"
  /\ Judge("string", "p2", [t |-> "bytes", v |-> <<97>>]).d = "either" /\ Judge("bool", "p2", IV(1)).d = "reject"
  /\ Judge("double", "p2", IV(3)).want.v = FloatOfSmallInt(FALSE, 3) /\ Judge("float", "p2", IV(16777217)).want.mode = "float"
ASSUME RangeSelfTest
=============================================================================
