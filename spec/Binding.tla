------------------------------ MODULE Binding ------------------------------
(***************************************************************************)
(* Binding of call arguments to parameters.                                *)
(*                                                                         *)
(* Bind(sig, call): Starlark-defined functions (doc/spec.md "Function and  *)
(* method calls" = the Python 3 rule).                                     *)
(* Unpack(pairs, call), UnpackPos(min, n, call): the UnpackArgs /          *)
(* UnpackPositionalArgs helpers for host built-ins (documented in          *)
(* starlark/unpack.go).                                                    *)
(*                                                                         *)
(* sig  = [pos    : Seq([name, opt, dflt]),   positional-or-keyword params *)
(*         star   : "none" | "bare" | "args",                              *)
(*         kwonly : Seq([name, opt, dflt]),                                *)
(*         kwargs : BOOLEAN]                                               *)
(* call = [pos   : Seq(value),                                             *)
(*         named : Seq(<<name, value>>)      (names distinct: static rule) *)
(*         star  : optional Seq(value)       the *sequence operand         *)
(*         ss    : optional Seq(<<key, value>>)  the **mapping operand,    *)
(*                 key = [str |-> TRUE, name |-> n] or [str |-> FALSE]]    *)
(***************************************************************************)
EXTENDS Integers, Sequences, FiniteSets, TLC

None    == [some |-> FALSE]
Some(x) == [some |-> TRUE, v |-> x]
OptSeq(o) == IF o.some THEN o.v ELSE <<>>
Min2(a, b) == IF a < b THEN a ELSE b

Fail == [ok |-> FALSE]

KwVal(K, n) == LET j == CHOOSE j \in 1..Len(K) : K[j][1] = n IN K[j][2]

Bind(sig, call) ==
  LET ssOK   == \A j \in 1..Len(OptSeq(call.ss)) : OptSeq(call.ss)[j][1].str
      SS     == [j \in 1..Len(OptSeq(call.ss)) |-> <<OptSeq(call.ss)[j][1].name, OptSeq(call.ss)[j][2]>>]
      P      == call.pos \o OptSeq(call.star)      \* effective positional arguments
      K      == call.named \o SS                   \* effective keyword arguments, in order
      npos   == Len(sig.pos)
      params == sig.pos \o sig.kwonly
      pname(i) == params[i].name
      PN     == {pname(i) : i \in 1..Len(params)}
      nb     == Min2(Len(P), npos)                 \* parameters bound positionally
      dupKw  == \E i, j \in 1..Len(K) : i < j /\ K[i][1] = K[j][1]
      clash  == \E i \in 1..Len(K) : \E j \in 1..nb : K[i][1] = pname(j)
      extra  == SelectSeq(K, LAMBDA kv : kv[1] \notin PN)
      given(i) == IF i <= nb THEN Some(P[i])
                  ELSE IF \E j \in 1..Len(K) : K[j][1] = pname(i) THEN Some(KwVal(K, pname(i)))
                  ELSE None
      missing == \E i \in 1..Len(params) : ~given(i).some /\ ~params[i].opt
  IN IF ~ssOK THEN Fail
     ELSE IF \/ (Len(P) > npos /\ sig.star # "args")
             \/ dupKw \/ clash
             \/ (extra # <<>> /\ ~sig.kwargs)
             \/ missing
     THEN Fail
     ELSE [ok   |-> TRUE,
           vals |-> [i \in 1..Len(params) |-> IF given(i).some THEN given(i).v ELSE params[i].dflt],
           args |-> IF sig.star = "args" THEN Some(SubSeq(P, nb + 1, Len(P))) ELSE None,
           kw   |-> IF sig.kwargs THEN Some(extra) ELSE None]

\* every successful binding gives each parameter exactly one value (totality / functionality
\* are immediate from the definition; this is the design-level sanity property)
BindWellFormed(sig, call) ==
  LET b == Bind(sig, call) IN b.ok => Len(b.vals) = Len(sig.pos) + Len(sig.kwonly)

(***************************************************************************)
(* UnpackArgs.  pairs = Seq([name, mark, ty, prior]) with mark in          *)
(* {"", "?", "??"}; an argument is an abstract code (a string) and         *)
(* Conv(ty, code) says whether a target of type ty accepts it.             *)
(* call = [pos : Seq(code), kw : Seq(<<name, code>>)].                     *)
(* Result: [ok, tgt : Seq(code or "prior")].                               *)
(***************************************************************************)
Accepts(ty, a) ==
  CASE ty = "Value"    -> TRUE
    [] ty = "string"   -> a = "str"
    [] ty = "bool"     -> a \in {"true", "false"}
    [] ty = "int"      -> a \in {"int7", "int9"}             \* Go int: big values do not fit
    [] ty = "Int"      -> a \in {"int7", "int9", "big"}       \* starlark.Int
    [] ty = "List"     -> a = "list"
    [] ty = "Dict"     -> a = "dict"
    [] ty = "Callable" -> a = "fn"
    [] ty = "Iterable" -> a \in {"list", "tuple", "dict"}
    [] ty = "Unpacker" -> a \in {"int7", "int9"}              \* the harness' custom Unpacker accepts small ints
    \* variables of a concrete Starlark type accept exactly the values of that type (no conversion between
    \* string and bytes, bool and int, int and float)
    [] ty = "String"   -> a = "str"
    [] ty = "Bytes"    -> a = "bytes"
    [] ty = "Float"    -> a = "float"
    [] ty = "Bool"     -> a \in {"true", "false"}
    [] ty = "Tuple"    -> a = "tuple"

IsOptional(pairs, i) == \E j \in 1..i : pairs[j].mark # ""

\* arguments supplied for parameter i: positional one and keyword ones
Supplied(pairs, call, i) ==
  (IF i <= Len(call.pos) THEN {call.pos[i]} ELSE {})
    \cup {call.kw[j][2] : j \in {j \in 1..Len(call.kw) : call.kw[j][1] = pairs[i].name}}

UnpackFails(pairs, call) ==
  LET n == Len(pairs)
      names == {pairs[i].name : i \in 1..n}
      cnt(i) == (IF i <= Len(call.pos) THEN 1 ELSE 0)
                + Cardinality({j \in 1..Len(call.kw) : call.kw[j][1] = pairs[i].name})
      skip(i, a) == pairs[i].mark = "??" /\ a = "none"
  IN \/ Len(call.pos) > n
     \/ \E j \in 1..Len(call.kw) : call.kw[j][1] \notin names
     \/ \E i \in 1..n : cnt(i) > 1
     \/ \E i \in 1..n : cnt(i) = 0 /\ ~IsOptional(pairs, i)
     \/ \E i \in 1..n : \E a \in Supplied(pairs, call, i) : ~skip(i, a) /\ ~Accepts(pairs[i].ty, a)

\* expected target contents after a successful call
UnpackTargets(pairs, call) ==
  [i \in 1..Len(pairs) |->
     LET S == Supplied(pairs, call, i) IN
     IF S = {} THEN "prior"
     ELSE LET a == CHOOSE a \in S : TRUE IN
          IF pairs[i].mark = "??" /\ a = "none" THEN "prior" ELSE a]

\* what a target may hold after a FAILED call: its prior value, or an accepted argument that
\* was supplied for it - never a value of the wrong type, never someone else's argument
FailedTargetOK(pairs, call, i, got) ==
  \/ got = "prior"
  \/ got \in {a \in Supplied(pairs, call, i) : Accepts(pairs[i].ty, a)}

UnpackOK(pairs, call, obs) ==
  IF UnpackFails(pairs, call)
  THEN ~obs.ok /\ \A i \in 1..Len(pairs) : FailedTargetOK(pairs, call, i, obs.tgt[i])
  ELSE obs.ok /\ obs.tgt = UnpackTargets(pairs, call)

\* UnpackPositionalArgs(min, targets...): no keywords, min <= #args <= #targets
UnpackPosFails(pairs, min, call) ==
  \/ call.kw # <<>>
  \/ Len(call.pos) < min \/ Len(call.pos) > Len(pairs)
  \/ \E i \in 1..Min2(Len(call.pos), Len(pairs)) : ~Accepts(pairs[i].ty, call.pos[i])
UnpackPosOK(pairs, min, call, obs) ==
  IF UnpackPosFails(pairs, min, call)
  THEN ~obs.ok /\ \A i \in 1..Len(pairs) :
          obs.tgt[i] = "prior" \/ (i <= Len(call.pos) /\ obs.tgt[i] = call.pos[i] /\ Accepts(pairs[i].ty, call.pos[i]))
  ELSE obs.ok /\ obs.tgt = [i \in 1..Len(pairs) |-> IF i <= Len(call.pos) THEN call.pos[i] ELSE "prior"]
=============================================================================
