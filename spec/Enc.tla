-------------------------------- MODULE Enc --------------------------------
(***************************************************************************)
(* Typed value encoding shared by all record-validation (trace) specs.     *)
(* Values recorded from the implementation arrive as JSON objects with a   *)
(* tag field t (DESIGN 1.3); the spec side builds expected values with the *)
(* constructors below and compares with VEq, which inspects the tag before *)
(* any payload so that TLC never compares values of different TLA+ types.  *)
(***************************************************************************)
EXTENDS Integers, Sequences, TLC

VNone      == [t |-> "none"]
VBool(b)   == [t |-> "bool", v |-> b]
VInt(n)    == [t |-> "int", v |-> n]
VStr(s)    == [t |-> "str", v |-> s]
VBytes(s)  == [t |-> "bytes", v |-> s]
VList(s)   == [t |-> "list", v |-> s]
VTuple(s)  == [t |-> "tuple", v |-> s]

MapSeq(f(_), s) == [i \in 1..Len(s) |-> f(s[i])]

RECURSIVE VEq(_, _)
VEq(a, b) ==
  /\ a.t = b.t
  /\ CASE a.t \in {"int", "bool", "str", "bytes"} -> a.v = b.v
       [] a.t \in {"list", "tuple", "set"} ->
            /\ Len(a.v) = Len(b.v)
            /\ \A i \in 1..Len(a.v) : VEq(a.v[i], b.v[i])
       [] a.t = "dict" ->
            /\ Len(a.v) = Len(b.v)
            /\ \A i \in 1..Len(a.v) : VEq(a.v[i][1], b.v[i][1]) /\ VEq(a.v[i][2], b.v[i][2])
       [] a.t = "big" -> a.neg = b.neg /\ a.m = b.m
       [] a.t = "float" -> a.s = b.s /\ a.e = b.e /\ a.m = b.m
       [] OTHER -> TRUE

\* an observed result [ok, v] agrees with an expected one
ResEq(exp, obs) == /\ exp.ok = obs.ok
                   /\ exp.ok => VEq(exp.v, obs.v)
=============================================================================
