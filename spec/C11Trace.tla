------------------------------ MODULE C11Trace ------------------------------
(***************************************************************************)
(* C11  Equality, hashing and ordering are mutually coherent.               *)
(*                                                                          *)
(* Record validation (code -> spec).  The harness (vh c11-run) evaluated,   *)
(* with the real interpreter, the six comparison operators and membership   *)
(* in {x: 1}, set([x]), [x] for ALL ordered pairs of a pool of values, and  *)
(* took Value.Hash() of each value three times.  One "row" record holds all *)
(* results whose left operand is pool value number r.i:                     *)
(*    r.m.eq[j]  =  code of  POOL[i] == POOL[j]   (0 False 1 True 2 error)  *)
(* Two groups of checks per row:                                            *)
(*   LAWS   - formulas over the RECORDED relations alone (reflexive,        *)
(*            symmetric, transitive ==; != its negation; equal => equal     *)
(*            hashes and interchangeable as keys; stable hashes; < a strict *)
(*            total order consistent with ==; <= > >= derived).  Triples    *)
(*            are formed here from the matrices.                            *)
(*   CONF   - independently, every entry against the oracle Values.OpExp.   *)
(* "hash" records carry the hashes observed on the other two builds of the  *)
(* Int representation (the matrices were compared for identity by the       *)
(* driver).  "sorted"/"min"/"max" records are calls over sequences of a     *)
(* second pool, checked against Values.StableSortPerm / MinIdx / MaxIdx.    *)
(***************************************************************************)
EXTENDS Values, Json, IOUtils, TLC

PoolRecs == ndJsonDeserialize(IOEnv.VERIF_POOL)   \* [1] header, then n matrix-pool values, then the sort pool
Recs     == ndJsonDeserialize(IOEnv.VERIF_RECS)   \* rows of build 1 (n), hash records of builds 2.. (n each), sort records
\* NOTE: the state variable must not be named like any operator parameter of the extended modules
\* (BitInt uses i, k, m, ...): TLC would classify every use of those operators as state-level and
\* stop caching constant definitions such as OrdTab.
VARIABLE recno

Hdr   == PoolRecs[1]
N     == Hdr.n
Limit == Hdr.limit                                \* starlark.CompareLimit of the build under test
PV(a) == PoolRecs[1 + a].v
SV(a) == PoolRecs[1 + N + a].v
Row(a) == Recs[a]

\* report one witness of a violated law (and how many there are); always TRUE
Report(r, law, W) ==
  W = {} \/ LET w == CHOOSE w \in W : \A u \in W : (w[1] < u[1] \/ (w[1] = u[1] /\ w[2] <= u[2]))
            IN PrintT(<<"BAD", r.id, law, w[1], w[2], Cardinality(W)>>)
Pairs1(S) == {<<j, 0>> : j \in S}
Or01(a, b) == IF a = 1 \/ b = 1 THEN 1 ELSE 0

Ops == <<"eq", "ne", "lt", "le", "gt", "ge">>
OrdOps == {"lt", "le", "gt", "ge"}

(***************************************************************************)
(* CONF: an observed entry is acceptable.                                   *)
(***************************************************************************)
Acc(op, x, y, obs) ==
  LET e == OpExp(op, x, y) IN
  \/ obs = e
  \/ obs = 2 /\ PairDepth(x, y) > Limit           \* too deep: may fail, must not answer wrongly
  \* doc/spec.md lists NoneType as ordered ("None <= None"); the implementation rejects it: either is accepted
  \/ x.t = "none" /\ y.t = "none" /\ op \in OrdOps /\ obs = (IF op \in {"le", "ge"} THEN 1 ELSE 0)

ConfBad(r, op) == {j \in 1..N : ~Acc(op, PV(r.i), PV(j), r.m[op][j])}

\* membership of y = POOL[j] in a dict / set whose only key is x = POOL[i]
MemAcc(r, j, obs, dictlike) ==
  LET hi == r.hash.ok
      hj == Row(j).hash.ok
  IN IF ~hi THEN obs = 2                                      \* x cannot be a key at all
     ELSE IF ~hj THEN (IF dictlike THEN obs = 0 ELSE obs \in {0, 2})   \* spec.md: `[] in d` is False; for sets unspecified
     ELSE /\ obs \in {0, 1, 2}
          /\ (r.m.eq[j] # 2 => obs = r.m.eq[j])               \* from the recorded relation alone
          /\ (obs = 1 => Eq(PV(r.i), PV(j)))                  \* against the oracle
          /\ (obs = 2 => PairDepth(PV(r.i), PV(j)) > Limit)
GetAcc(r, j, obs) ==                                           \* {x: 1}.get(y) == 1
  LET hi == r.hash.ok
      hj == Row(j).hash.ok
  IN IF ~hi \/ ~hj THEN obs = 2
     ELSE MemAcc(r, j, obs, TRUE)

BothAcc(r, j, obs) ==                                          \* x and y both inserted: one entry iff equal
  LET hi == r.hash.ok
      hj == Row(j).hash.ok
  IN IF ~hi \/ ~hj THEN obs = 2
     ELSE MemAcc(r, j, obs, TRUE)

(***************************************************************************)
(* LAWS over the recorded relations.                                        *)
(***************************************************************************)
HashStable(h) == /\ \A k \in 1..Len(h.oks) : h.oks[k] = h.ok
                 /\ \A k \in 1..Len(h.h) : h.h[k] = h.h[1]

RowGood(r) ==
  LET a == r.i
      M == r.m
      x == PV(a)
      J == 1..N
      T == TotalOrderType(x)
  IN
  /\ \A op \in {"eq", "ne", "lt", "le", "gt", "ge", "ind", "ins", "inl", "get", "one", "upd"} :
        Report(r, "code-" \o op, Pairs1({j \in J : M[op][j] \notin {0, 1, 2}}))
  /\ Report(r, "refl", Pairs1({j \in {a} : M.eq[j] = 0}))
  /\ Report(r, "sym", Pairs1({j \in J : M.eq[j] # Row(j).m.eq[a]}))
  /\ Report(r, "neg", Pairs1({j \in J : IF M.eq[j] = 2 THEN M.ne[j] # 2 ELSE M.ne[j] # 1 - M.eq[j]}))
  /\ Report(r, "ord-defined", Pairs1({j \in J : \E op \in OrdOps : (M[op][j] = 2) # (M.lt[j] = 2)}))
  /\ Report(r, "converse", Pairs1({j \in J : M.lt[j] # 2 /\ (M.gt[j] # Row(j).m.lt[a] \/ M.ge[j] # Row(j).m.le[a])}))
  /\ Report(r, "le-ge", Pairs1({j \in J : M.lt[j] # 2 /\ M.eq[j] # 2 /\
                                   (M.le[j] # Or01(M.lt[j], M.eq[j]) \/ M.ge[j] # Or01(M.gt[j], M.eq[j]))}))
  /\ Report(r, "trichotomy", Pairs1({j \in J : M.lt[j] # 2 /\ M.eq[j] # 2 /\ T /\ TotalOrderType(PV(j)) /\
                                   M.lt[j] + M.eq[j] + M.gt[j] # 1}))
  /\ Report(r, "asym", Pairs1({j \in J : M.lt[j] = 1 /\ (M.gt[j] = 1 \/ M.eq[j] = 1)}))
  /\ Report(r, "trans-eq", {<<j, k>> \in {j \in J : M.eq[j] = 1} \X J : Row(j).m.eq[k] = 1 /\ M.eq[k] = 0})
  /\ Report(r, "trans-lt", {<<j, k>> \in {j \in J : M.lt[j] = 1} \X J : Row(j).m.lt[k] = 1 /\ M.lt[k] = 0})
  /\ Report(r, "eq-congruent", {<<j, k>> \in {j \in J : M.eq[j] = 1} \X J :
                                   \E op \in {"lt", "le", "gt", "ge", "eq"} :
                                      M[op][k] # 2 /\ Row(j).m[op][k] # 2 /\ M[op][k] # Row(j).m[op][k]})
  /\ Report(r, "hash-stable", Pairs1({j \in {a} : ~HashStable(r.hash)}))
  /\ Report(r, "hash-eq", Pairs1({j \in J : M.eq[j] = 1 /\
                                   (r.hash.ok # Row(j).hash.ok \/ (r.hash.ok /\ r.hash.h[1] # Row(j).hash.h[1]))}))
  /\ Report(r, "hashable", Pairs1({j \in {a} : HashSpecified(x) /\ r.hash.ok # Hashable(x)}))
  /\ Report(r, "dict-key", Pairs1({j \in J : ~MemAcc(r, j, M.ind[j], TRUE)}))
  /\ Report(r, "set-member", Pairs1({j \in J : ~MemAcc(r, j, M.ins[j], FALSE)}))
  /\ Report(r, "dict-get", Pairs1({j \in J : ~GetAcc(r, j, M.get[j])}))
  /\ Report(r, "list-member", Pairs1({j \in J : M.inl[j] # M.eq[j]}))
  /\ Report(r, "set-dedupe", Pairs1({j \in J : ~BothAcc(r, j, M.one[j])}))       \* len(set([x, y])) == 1
  /\ Report(r, "dict-update", Pairs1({j \in J : ~BothAcc(r, j, M.upd[j])}))      \* d = {x: 1}; d[y] = 2; len(d) == 1
  \* the hash() built-in: equal values hash equally (its value is compared across processes by the driver)
  /\ Report(r, "hashfn-eq", Pairs1({j \in J : M.eq[j] = 1 /\
                                   (r.hf.ok # Row(j).hf.ok \/ (r.hf.ok /\ r.hf.v # Row(j).hf.v))}))
  /\ Report(r, "hashfn-defined", Pairs1({j \in {a} : (x.t = "str" /\ ~r.hf.ok) \/
                                   (x.t \notin {"str", "bytes"} /\ r.hf.ok)}))
  \* doc/spec.md fixes the function on strings (Java's String.hashCode); outside C11: noted, not judged
  /\ (x.t = "str" /\ r.hf.ok /\ r.hf.v # JavaStringHash(x.v)) => PrintT(<<"NOTE", r.id, "hash-builtin-differs-from-java-hashCode">>)
  /\ \A k \in 1..6 : Report(r, "conf-" \o Ops[k], Pairs1(ConfBad(r, Ops[k])))

\* hashes of another build: stable, and equal for values the (identical) == matrix calls equal
HashGood(r) ==
  LET a == r.i
      Other(j) == Recs[(r.b - 1) * N + j]
  IN /\ Report(r, "hash-stable", Pairs1({j \in {a} : ~HashStable(r.hash)}))
     /\ Report(r, "hash-eq", Pairs1({j \in 1..N : Row(a).m.eq[j] = 1 /\
                  (r.hash.ok # Other(j).hash.ok \/ (r.hash.ok /\ r.hash.h[1] # Other(j).hash.h[1]))}))
     /\ Report(r, "hashable", Pairs1({j \in {a} : r.hash.ok # Row(a).hash.ok}))

(***************************************************************************)
(* sorted / min / max over sequences r.s of sort-pool indices.  r.key is    *)
(* "id" (no key function) or "t0" (key = lambda t: t[0]).                   *)
(***************************************************************************)
KeyOf(mode, v) == IF mode = "t0" THEN v.v[1] ELSE v
S == Hdr.s
\* Values.Ord of the sort keys of every two sort-pool values, tabulated once (TLCEval: functions are lazy in TLC)
OrdTab == TLCEval([mode \in {"id", "t0"} |->
             TLCEval([a \in 1..S |-> TLCEval([b \in 1..S |->
                IF mode = "t0" /\ (SV(a).t # "tuple" \/ SV(b).t # "tuple") THEN Unord
                ELSE Ord(KeyOf(mode, SV(a)), KeyOf(mode, SV(b)))])])])

SortGood(r) ==
  LET n == Len(r.s)
      C(a, b) == OrdTab[r.key][r.s[a]][r.s[b]]
  IN
  IF ~AllOrderedBy(n, C) THEN Report(r, "sorted-unordered-accepted", Pairs1({j \in {0} : r.res.ok}))
  ELSE LET perm == StableSortPermBy(n, C, r.rev)
           exp  == [k \in 1..Len(perm) |-> r.s[perm[k]]]
       IN /\ IsStableSortedBy(n, C, r.rev, perm) \/ PrintT(<<"SPECBUG", r.id>>)
          /\ Report(r, "sorted", Pairs1({j \in {0} : ~r.res.ok \/ r.res.v # exp}))

ExtGood(r) ==
  LET n == Len(r.s)
      C(a, b) == OrdTab[r.key][r.s[a]][r.s[b]]
      idx  == IF r.op = "min" THEN MinIdxBy(n, C) ELSE MaxIdxBy(n, C)
  IN IF n = 0 \/ ~AllOrderedBy(n, C) THEN Report(r, r.op \o "-accepted", Pairs1({j \in {0} : r.res.ok}))
     ELSE /\ Report(r, r.op, Pairs1({j \in {0} : ~r.res.ok \/ ~\E a \in idx : r.s[a] = r.res.v}))
          \* doc/spec.md does not say which of several extrema is returned: noted, not judged
          /\ (~r.res.ok \/ r.s[MinOfSet(idx)] = r.res.v \/ PrintT(<<"NOTFIRST", r.id>>))

Good(r) == CASE r.op = "row" -> RowGood(r)
             [] r.op = "hash" -> HashGood(r)
             [] r.op = "sorted" -> SortGood(r)
             [] r.op \in {"min", "max"} -> ExtGood(r)

(***************************************************************************)
(* One trivial initial state (deep recursion is kept out of initial states),*)
(* then K strided chains over the records.                                  *)
(***************************************************************************)
K == 64
Init == recno = 0
Next == IF recno = 0 THEN recno' \in 1..(IF Len(Recs) < K THEN Len(Recs) ELSE K)
        ELSE recno + K <= Len(Recs) /\ recno' = recno + K
Check == recno = 0 \/ Good(Recs[recno])
Done == PrintT(<<"CHECKED", TLCGet("stats").distinct - 1>>)
=============================================================================
