------------------------------ MODULE ProtoSpec ------------------------------
(***************************************************************************)
(* C20: protocol messages respect freezing.                                *)
(*                                                                         *)
(* A Starlark program holds HANDLES (variables h1, h2, ...) on protocol    *)
(* messages of the test schema                                             *)
(*                                                                         *)
(*   message T { optional int32 i = 1;  optional T sub = 2;                *)
(*               repeated int32 r = 3;  repeated T rm = 4;                 *)
(*               map<string,int32> mp = 5;  map<string,T> mm = 6; }        *)
(*                                                                         *)
(* and on views of their repeated / map / message fields.  The state is a  *)
(* store of message, list and map contents plus the handles.               *)
(*                                                                         *)
(* A message can be reached through a field (h.sub), an element            *)
(* (h.rm[0]), a map entry (h.mm["k"]) and through the SNAPSHOT routes that *)
(* copy the entries of a container into a new Starlark value first:        *)
(* dict(h.mm), d.update(h.mm), keyword expansion of h.mm in a call, and    *)
(* list(h.rm).  A snapshot copies the container, not the messages: the     *)
(* message handle obtained from it denotes the same message object and     *)
(* belongs to the same group as h.                                         *)
(*                                                                         *)
(* Sharing of UNFROZEN content follows what lib/proto documents:           *)
(*   - "m.sub = other" / list elements / append: "alias it directly";      *)
(*   - "Message(m) -- return a shallow copy of an existing message";       *)
(*   - "Assigning to a repeated field must make a copy" of the elements    *)
(*     into the field's list; a map field is replaced by a new map;        *)
(*   - a map field whose values are messages is replaced likewise; the     *)
(*     messages given as values are aliased;                               *)
(*   - reading an unset message / repeated / map field yields an immutable *)
(*     default that is not part of the message.                            *)
(*                                                                         *)
(* FREEZING is the property, stated on content (Flags = FALSE, the ideal): *)
(* Freeze(h) freezes every message, list and map reachable from h and from *)
(* the wrappers derived from h; a mutation whose target is frozen fails    *)
(* and changes nothing, whatever handle or path it comes through.  An      *)
(* assignment to a field of an unfrozen message whose current list is      *)
(* frozen (shared with a frozen message) stores into a fresh list.         *)
(*                                                                         *)
(* Flags = TRUE is the design lib/proto documents for its wrappers ("a     *)
(* frozen flag shared by a group of related Message/RepeatedField/MapField *)
(* wrappers"): mutability is decided by the flag of the group the handle   *)
(* was derived from.  It is model-checked against the same invariant only  *)
(* to exhibit the shortest histories that break it; it is never the oracle.*)
(***************************************************************************)
EXTENDS Integers, Sequences, FiniteSets, TLC

CONSTANTS MaxRoots,   \* message variables (constructed or copied)
          MaxViews,   \* view handles (x = m.r, x = m.sub, ...)
          MaxElems,     \* bound on the length of a repeated field
          Depth,      \* bound on the length of a history
          Flags,      \* FALSE: ideal (content) freezing; TRUE: wrapper-group flags
          Rich        \* TRUE: also the element-aliasing operations on repeated message fields

VARIABLES M,          \* message objects: Seq of [i, sub, r, rm, mp, mm]; 0 = field not set, else value / object id
          L,          \* list objects: Seq of Seq (ints, or message ids for repeated T); also the containers of the
                      \* map<string,T> field mm: a one-element Seq holding the message under key "k"
          P,          \* map objects: Seq of [a, b] (value of keys "a", "b"; 0 = absent)
          H,          \* handles: Seq of [k, o, rt, via]  k in {"msg","li","lm","map"}, o = object, rt = root handle it derives
                      \* from, via = "" or the snapshot route the handle was obtained through
          FM, FL, FP, \* ideal: sets of frozen message / list / map objects
          cells,      \* Flags model: root handles whose group flag is set
          snap,       \* ghost: handle -> content it had when it was frozen
          hist        \* the history (hidden by VIEW): Seq of <<op, h, g, k, ok>>

core == <<M, L, P, H, FM, FL, FP, cells, snap>>
vars == <<M, L, P, H, FM, FL, FP, cells, snap, hist>>

EmptyMsg == [i |-> 0, sub |-> 0, r |-> 0, rm |-> 0, mp |-> 0, mm |-> 0]
Bump(x)  == IF x = 1 THEN 2 ELSE 1        \* a value different from the current one
SeqToSet(s) == {s[j] : j \in 1..Len(s)}

(***************************************************************************)
(* Reachability and content (parametrised by the store so that guards can  *)
(* be evaluated on a candidate successor).                                 *)
(***************************************************************************)
Kids(Mx, Lx, o) == (IF Mx[o].sub # 0 THEN {Mx[o].sub} ELSE {})
                   \cup (IF Mx[o].rm # 0 THEN SeqToSet(Lx[Mx[o].rm]) ELSE {})
                   \cup (IF Mx[o].mm # 0 THEN SeqToSet(Lx[Mx[o].mm]) ELSE {})
RECURSIVE ReachIn(_, _, _)
ReachIn(Mx, Lx, S) == LET N == S \cup UNION {Kids(Mx, Lx, o) : o \in S}
                      IN IF N = S THEN S ELSE ReachIn(Mx, Lx, N)
Reach(S) == ReachIn(M, L, S)
ListsOf(S) == ({M[o].r : o \in S} \cup {M[o].rm : o \in S} \cup {M[o].mm : o \in S}) \ {0}
MapsOf(S)  == {M[o].mp : o \in S} \ {0}

\* a message value is a tree: no message may contain itself
AcyclicIn(Mx, Lx) == \A o \in 1..Len(Mx) : o \notin ReachIn(Mx, Lx, Kids(Mx, Lx, o))
Acyclic == AcyclicIn(M, L)

RECURSIVE Tree(_)
Tree(o) == [i   |-> M[o].i,
            sub |-> IF M[o].sub = 0 THEN <<>> ELSE <<Tree(M[o].sub)>>,
            r   |-> IF M[o].r = 0 THEN <<>> ELSE L[M[o].r],
            rm  |-> IF M[o].rm = 0 THEN <<>> ELSE [j \in 1..Len(L[M[o].rm]) |-> Tree(L[M[o].rm][j])],
            mp  |-> IF M[o].mp = 0 THEN [a |-> 0, b |-> 0] ELSE P[M[o].mp],
            mm  |-> IF M[o].mm = 0 THEN <<>> ELSE <<Tree(L[M[o].mm][1])>>]

Content(h) == CASE H[h].k = "msg" -> Tree(H[h].o)
                [] H[h].k = "li"  -> L[H[h].o]
                [] H[h].k = "lm"  -> [j \in 1..Len(L[H[h].o]) |-> Tree(L[H[h].o][j])]
                [] H[h].k = "map" -> P[H[h].o]
\* what the conformance harness compares after every step
Proj == [h \in 1..Len(H) |-> [k |-> H[h].k, rt |-> H[h].rt, v |-> Content(h)]]

Handles     == 1..Len(H)
IsRoot(h)   == H[h].rt = h
Roots       == {h \in Handles : IsRoot(h)}
MsgHandles  == {h \in Handles : H[h].k = "msg"}
NumViews    == Cardinality(Handles \ Roots)

(***************************************************************************)
(* Is the target frozen for an operation that comes through handle h?      *)
(***************************************************************************)
FrzM(h, o) == IF Flags THEN H[h].rt \in cells ELSE o \in FM
FrzL(h, l) == IF Flags THEN H[h].rt \in cells ELSE l \in FL
FrzP(h, p) == IF Flags THEN H[h].rt \in cells ELSE p \in FP

(***************************************************************************)
(* One step: the operation either succeeds with a new store / handle list  *)
(* or fails and changes nothing.  Operations that would make a message     *)
(* contain itself are outside the model (a message value is a tree; lists  *)
(* shared by a shallow copy have several owners, so the whole candidate    *)
(* store is tested); they are covered by the separate cycle probes.        *)
(***************************************************************************)
Step(op, h, g, k, ok, nM, nL, nP, nH) ==
  /\ Len(hist) < Depth
  /\ ok => AcyclicIn(nM, nL)
  /\ hist' = Append(hist, <<op, h, g, k, ok>>)
  /\ IF ok THEN M' = nM /\ L' = nL /\ P' = nP /\ H' = nH
           ELSE UNCHANGED <<M, L, P, H>>
  /\ UNCHANGED <<FM, FL, FP, cells, snap>>

SetFld(o, f, v) ==
  CASE f = "i"   -> [M EXCEPT ![o].i = v]
    [] f = "sub" -> [M EXCEPT ![o].sub = v]
    [] f = "r"   -> [M EXCEPT ![o].r = v]
    [] f = "rm"  -> [M EXCEPT ![o].rm = v]
    [] f = "mp"  -> [M EXCEPT ![o].mp = v]
    [] f = "mm"  -> [M EXCEPT ![o].mm = v]
Fld(o, f) == CASE f = "i" -> M[o].i [] f = "sub" -> M[o].sub [] f = "r" -> M[o].r
               [] f = "rm" -> M[o].rm [] f = "mp" -> M[o].mp [] f = "mm" -> M[o].mm

\* hN = T()
Construct ==
  /\ Cardinality(Roots) < MaxRoots
  /\ Step("new", 0, 0, 0, TRUE, Append(M, EmptyMsg), L, P,
          Append(H, [k |-> "msg", o |-> Len(M) + 1, rt |-> Len(H) + 1, via |-> ""]))

\* hN = T(h): shallow copy (scalars copied, sub-message / list / map contents shared)
Copy(h) ==
  /\ Cardinality(Roots) < MaxRoots
  /\ Step("copy", h, 0, 0, TRUE, Append(M, M[H[h].o]), L, P,
          Append(H, [k |-> "msg", o |-> Len(M) + 1, rt |-> Len(H) + 1, via |-> ""]))

\* h.i = k
SetI(h) == LET o == H[h].o k == Bump(M[o].i) IN
  Step("seti", h, 0, k, ~FrzM(h, o), SetFld(o, "i", k), L, P, H)

\* h.sub = g  (g a message handle; the message is aliased)
SetSub(h, g) == LET o == H[h].o s == H[g].o IN
  /\ o \notin Reach({s}) /\ M[o].sub # s
  /\ Step("setsub", h, g, 0, ~FrzM(h, o), SetFld(o, "sub", s), L, P, H)

\* h.sub = T(i = k)  (a new message held by no variable)
SetSubNew(h) == LET o == H[h].o k == IF M[o].sub = 0 THEN 1 ELSE Bump(M[M[o].sub].i) IN
  Step("setsubnew", h, 0, k, ~FrzM(h, o),
       Append(SetFld(o, "sub", Len(M) + 1), [EmptyMsg EXCEPT !.i = k]), L, P, H)

\* h.sub = g.sub  (g.sub set)
SetSubFrom(h, g) == LET o == H[h].o s == M[H[g].o].sub IN
  /\ s # 0 /\ H[g].o # o /\ o \notin Reach({s}) /\ M[o].sub # s
  /\ Step("setsubfrom", h, g, 0, ~FrzM(h, o), SetFld(o, "sub", s), L, P, H)

\* h.sub = g.sub  (g.sub UNSET, g may be h): reading an unset message field gives an empty message of its own, so the
\* field of h becomes a new empty message that nothing else holds
SetSubUnset(h, g) == LET o == H[h].o IN
  /\ M[H[g].o].sub = 0
  /\ Step("setsubunset", h, g, 0, ~FrzM(h, o),
          Append(SetFld(o, "sub", Len(M) + 1), EmptyMsg), L, P, H)

\* assignment of the element sequence es to the repeated field f of the message of h:
\* the elements are stored into the field's list (a new list if the field has none,
\* or - ideal - if the current list is frozen content shared with another message)
AssignList(op, h, g, k, f, es) == LET o == H[h].o l == Fld(o, f) IN
  IF l = 0 \/ (~Flags /\ l \in FL)
  THEN Step(op, h, g, k, ~FrzM(h, o), SetFld(o, f, Len(L) + 1), Append(L, es), P, H)
  ELSE Step(op, h, g, k, ~FrzM(h, o), M, [L EXCEPT ![l] = es], P, H)

\* h.r = [k]
SetR(h) == LET o == H[h].o k == IF M[o].r = 0 THEN 1 ELSE Bump(L[M[o].r][1]) IN
  AssignList("setr", h, 0, k, "r", <<k>>)
\* h.r = g.r  (g.r set; g = h is the self-assignment, which must keep the content)
SetRFrom(h, g) == LET l == M[H[g].o].r IN
  /\ l # 0
  /\ AssignList("setrfrom", h, g, 0, "r", L[l])
\* h.rm = [g]
SetRm(h, g) == LET o == H[h].o IN
  /\ o \notin Reach({H[g].o})
  /\ AssignList("setrm", h, g, 0, "rm", <<H[g].o>>)
\* h.rm = [T(i = k)]
SetRmNew(h) == LET o == H[h].o k == IF M[o].rm = 0 THEN 1 ELSE Bump(M[L[M[o].rm][1]].i)
                   l == M[o].rm
                   nm == Append(M, [EmptyMsg EXCEPT !.i = k]) IN
  /\ Len(hist) < Depth
  /\ hist' = Append(hist, <<"setrmnew", h, 0, k, ~FrzM(h, o)>>)
  /\ IF FrzM(h, o) THEN UNCHANGED <<M, L, P, H>>
     ELSE /\ IF l = 0 \/ (~Flags /\ l \in FL)
             THEN M' = [nm EXCEPT ![o].rm = Len(L) + 1] /\ L' = Append(L, <<Len(M) + 1>>)
             ELSE M' = nm /\ L' = [L EXCEPT ![l] = <<Len(M) + 1>>]
          /\ UNCHANGED <<P, H>>
  /\ UNCHANGED <<FM, FL, FP, cells, snap>>
\* h.rm = g.rm
SetRmFrom(h, g) == LET o == H[h].o l == M[H[g].o].rm IN
  /\ l # 0 /\ o \notin Reach(SeqToSet(L[l]))
  /\ AssignList("setrmfrom", h, g, 0, "rm", L[l])

\* h.mp = {"a": k}   (a map field is replaced by a new map)
SetMp(h) == LET o == H[h].o k == IF M[o].mp = 0 THEN 1 ELSE Bump(P[M[o].mp].a) IN
  Step("setmp", h, 0, k, ~FrzM(h, o), SetFld(o, "mp", Len(P) + 1), L, Append(P, [a |-> k, b |-> 0]), H)
\* h.mp = g.mp
SetMpFrom(h, g) == LET o == H[h].o p == M[H[g].o].mp IN
  /\ p # 0
  /\ Step("setmpfrom", h, g, 0, ~FrzM(h, o), SetFld(o, "mp", Len(P) + 1), L, Append(P, P[p]), H)

\* h.mm = {"k": T(i = k)}   (the map field is replaced by a new map holding a new message)
SetMmNew(h) == LET o == H[h].o k == IF M[o].mm = 0 THEN 1 ELSE Bump(M[L[M[o].mm][1]].i) IN
  Step("setmmnew", h, 0, k, ~FrzM(h, o),
       Append(SetFld(o, "mm", Len(L) + 1), [EmptyMsg EXCEPT !.i = k]), Append(L, <<Len(M) + 1>>), P, H)
\* h.mm = {"k": g}   (a new map; the message of g is aliased as its value)
SetMm(h, g) == LET o == H[h].o IN
  /\ o \notin Reach({H[g].o})
  /\ Step("setmm", h, g, 0, ~FrzM(h, o), SetFld(o, "mm", Len(L) + 1), Append(L, <<H[g].o>>), P, H)

\* h.f = None: the field is unset (at most once per history).  A list, map or sub-message that a view or
\* another message still holds is detached from h, not emptied.
Clr(h, f) == LET o == H[h].o IN
  /\ Fld(o, f) # 0
  /\ \A j \in 1..Len(hist) : hist[j][1] \notin {"clr.i", "clr.sub", "clr.r", "clr.rm", "clr.mp", "clr.mm"}
  /\ Step("clr." \o f, h, 0, 0, ~FrzM(h, o), SetFld(o, f, 0), L, P, H)

(***************************************************************************)
(* Mutations through a path from a message handle.  Reading an unset field *)
(* gives an immutable default, so the mutation fails.                      *)
(***************************************************************************)
\* h.sub.i = k
\* whole-field assignment through a path: h.sub.mp = {"a": k},  h.sub.r = [k]
\* (other handles on the same sub-message must see the new content)
SubSetMp(h) == LET s == M[H[h].o].sub k == IF s = 0 \/ M[s].mp = 0 THEN 1 ELSE Bump(P[M[s].mp].a) IN
  Step("sub.setmp", h, 0, k, s # 0 /\ ~FrzM(h, s),
       IF s = 0 THEN M ELSE [M EXCEPT ![s].mp = Len(P) + 1], L,
       IF s = 0 THEN P ELSE Append(P, [a |-> k, b |-> 0]), H)
SubSetR(h) == LET s == M[H[h].o].sub
                  l == IF s = 0 THEN 0 ELSE M[s].r
                  k == IF l = 0 THEN 1 ELSE Bump(L[l][1]) IN
  IF s = 0 THEN Step("sub.setr", h, 0, k, FALSE, M, L, P, H)
  ELSE IF l = 0 \/ (~Flags /\ l \in FL)
       THEN Step("sub.setr", h, 0, k, ~FrzM(h, s), [M EXCEPT ![s].r = Len(L) + 1], Append(L, <<k>>), P, H)
       ELSE Step("sub.setr", h, 0, k, ~FrzM(h, s), M, [L EXCEPT ![l] = <<k>>], P, H)
SubSetI(h) == LET s == M[H[h].o].sub k == IF s = 0 THEN 1 ELSE Bump(M[s].i) IN
  Step("sub.seti", h, 0, k, s # 0 /\ ~FrzM(h, s), IF s = 0 THEN M ELSE SetFld(s, "i", k), L, P, H)

ListAppend(op, h, g, l, x, k) ==
  /\ (IF l = 0 THEN TRUE ELSE Len(L[l]) < MaxElems)
  /\ Step(op, h, g, k, l # 0 /\ ~FrzL(h, l), M, IF l = 0 THEN L ELSE [L EXCEPT ![l] = Append(@, x)], P, H)
ListSet0(op, h, g, l, x, k) ==
  Step(op, h, g, k, l # 0 /\ ~FrzL(h, l), M, IF l = 0 THEN L ELSE [L EXCEPT ![l][1] = x], P, H)

\* h.r.append(k), h.r[0] = k
RApp(h) == LET l == M[H[h].o].r k == IF l = 0 THEN 1 ELSE Bump(L[l][Len(L[l])]) IN ListAppend("r.append", h, 0, l, k, k)
RSet(h) == LET l == M[H[h].o].r k == IF l = 0 THEN 1 ELSE Bump(L[l][1]) IN ListSet0("r.set0", h, 0, l, k, k)
\* h.rm[0].i = k
Rm0SetI(h) == LET l == M[H[h].o].rm e == IF l = 0 THEN 0 ELSE L[l][1] k == IF l = 0 THEN 1 ELSE Bump(M[e].i) IN
  Step("rm0.seti", h, 0, k, l # 0 /\ ~FrzM(h, e), IF l = 0 THEN M ELSE SetFld(e, "i", k), L, P, H)
\* h.mm["k"].i = k   (no entry: the lookup fails)
Mm0SetI(h) == LET l == M[H[h].o].mm e == IF l = 0 THEN 0 ELSE L[l][1] k == IF l = 0 THEN 1 ELSE Bump(M[e].i) IN
  Step("mm0.seti", h, 0, k, l # 0 /\ ~FrzM(h, e), IF l = 0 THEN M ELSE SetFld(e, "i", k), L, P, H)
\* h.rm.append(g), h.rm[0] = g   (the message of g is aliased as an element)
RmApp(h, g) == LET l == M[H[h].o].rm IN
  /\ H[h].o \notin Reach({H[g].o})
  /\ ListAppend("rm.append", h, g, l, H[g].o, 0)
RmSet(h, g) == LET l == M[H[h].o].rm IN
  /\ H[h].o \notin Reach({H[g].o}) /\ (IF l = 0 THEN TRUE ELSE L[l][1] # H[g].o)
  /\ ListSet0("rm.set0", h, g, l, H[g].o, 0)
\* h.mp["b"] = k
MpSet(h) == LET p == M[H[h].o].mp k == IF p = 0 THEN 1 ELSE Bump(P[p].b) IN
  Step("mp.setb", h, 0, k, p # 0 /\ ~FrzP(h, p), M, L, IF p = 0 THEN P ELSE [P EXCEPT ![p].b = k], H)

(***************************************************************************)
(* Views: hN = h.f for a field that is set (a wrapper derived from h).     *)
(***************************************************************************)
View(h, f) == LET o == H[h].o
                  t == CASE f = "sub" -> M[o].sub [] f = "r" -> M[o].r [] f = "rm" -> M[o].rm
                         [] f = "mp" -> M[o].mp [] f = "rm0" -> IF M[o].rm = 0 THEN 0 ELSE L[M[o].rm][1]
                         [] f = "mm0" -> IF M[o].mm = 0 THEN 0 ELSE L[M[o].mm][1]
                  kd == CASE f \in {"sub", "rm0", "mm0"} -> "msg" [] f = "r" -> "li" [] f = "rm" -> "lm" [] f = "mp" -> "map"
  IN /\ t # 0 /\ NumViews < MaxViews
     /\ Step("view." \o f, h, 0, 0, TRUE, M, L, P, Append(H, [k |-> kd, o |-> t, rt |-> H[h].rt, via |-> ""]))

(***************************************************************************)
(* Snapshot routes: hN = <the message> taken from a copy of the entries of *)
(* a container of h.  The copy is a new Starlark dict / list, but the      *)
(* message in it is the message of h: same object, same group as h, so it  *)
(* is frozen with h whenever the snapshot was taken.                       *)
(*   snap.mm0   hN = dict(h.mm)["k"]                                       *)
(*   vals.mm0   d = {}; d.update(h.mm); hN = d.values()[0]                 *)
(*   items.mm0  hN = f(h.mm expanded as keyword arguments), f returning    *)
(*              the first value of its keyword dict                        *)
(*   snap.rm0   hN = list(h.rm)[0]                                         *)
(* The route is recorded in the handle (via) although it has no effect on  *)
(* the content: the states reached through different routes stay distinct, *)
(* so every continuation (freeze, mutation through hN, ...) is enumerated  *)
(* behind every route and not only behind the first one found.             *)
(***************************************************************************)
SnapRoutes == {"snap.mm0", "vals.mm0", "items.mm0", "snap.rm0"}
Snap(h, op) == LET o == H[h].o
                   l == IF op = "snap.rm0" THEN M[o].rm ELSE M[o].mm
  IN /\ l # 0 /\ NumViews < MaxViews
     /\ Step(op, h, 0, 0, TRUE, M, L, P, Append(H, [k |-> "msg", o |-> L[l][1], rt |-> H[h].rt, via |-> op]))

\* mutations through a list / map view v
VApp(v)  == LET l == H[v].o k == Bump(L[l][Len(L[l])]) IN ListAppend("v.append", v, 0, l, k, k)
VSet(v)  == LET l == H[v].o k == Bump(L[l][1]) IN ListSet0("v.set0", v, 0, l, k, k)
V0SetI(v) == LET e == L[H[v].o][1] k == Bump(M[e].i) IN
  Step("v0.seti", v, 0, k, ~FrzM(v, e), SetFld(e, "i", k), L, P, H)
VmApp(v, g) == /\ \A o \in 1..Len(M) : (M[o].rm = H[v].o) => o \notin Reach({H[g].o})
               /\ ListAppend("vm.append", v, g, H[v].o, H[g].o, 0)
VSetB(v) == LET p == H[v].o k == Bump(P[p].b) IN
  Step("v.setb", v, 0, k, ~FrzP(v, p), M, L, [P EXCEPT ![p].b = k], H)

(***************************************************************************)
(* Freeze(h), h a message variable: everything reachable from h and from   *)
(* the wrappers derived from h.                                            *)
(***************************************************************************)
Group(h) == {j \in Handles : H[j].rt = h}
Freeze(h) ==
  LET G  == Group(h)
      ms == Reach({H[j].o : j \in {x \in G : H[x].k = "msg"}}
                  \cup UNION {SeqToSet(L[H[j].o]) : j \in {x \in G : H[x].k = "lm"}})
      ls == ListsOf(ms) \cup {H[j].o : j \in {x \in G : H[x].k \in {"li", "lm"}}}
      ps == MapsOf(ms) \cup {H[j].o : j \in {x \in G : H[x].k = "map"}}
  IN /\ Len(hist) < Depth
     /\ IsRoot(h) /\ h \notin DOMAIN snap
     /\ hist' = Append(hist, <<"freeze", h, 0, 0, TRUE>>)
     /\ FM' = FM \cup ms /\ FL' = FL \cup ls /\ FP' = FP \cup ps
     /\ cells' = cells \cup {h}
     /\ snap' = [j \in DOMAIN snap \cup G |-> IF j \in G THEN Content(j) ELSE snap[j]]
     /\ UNCHANGED <<M, L, P, H>>

Init == /\ M = <<EmptyMsg>> /\ L = <<>> /\ P = <<>>
        /\ H = <<[k |-> "msg", o |-> 1, rt |-> 1, via |-> ""]>>
        /\ FM = {} /\ FL = {} /\ FP = {} /\ cells = {}
        /\ snap = <<>>
        /\ hist = <<>>

Next ==
  \/ Construct
  \/ \E h \in MsgHandles :
       \/ Copy(h) \/ SetI(h) \/ SetSubNew(h) \/ SetR(h) \/ SetRmNew(h) \/ SetMp(h) \/ SetMmNew(h)
       \/ SubSetI(h) \/ SubSetMp(h) \/ SubSetR(h) \/ RApp(h) \/ RSet(h) \/ Rm0SetI(h) \/ MpSet(h) \/ Mm0SetI(h)
       \/ \E f \in {"sub", "r", "rm", "mp", "rm0", "mm0"} : View(h, f)
       \/ \E op \in SnapRoutes : Snap(h, op)
       \/ \E f \in {"i", "sub", "r", "rm", "mp", "mm"} : Clr(h, f)
       \/ \E g \in MsgHandles :
            \/ SetRFrom(h, g) \/ SetMpFrom(h, g) \/ SetSubUnset(h, g)
            \/ (g # h /\ (SetSub(h, g) \/ SetSubFrom(h, g) \/ SetRm(h, g) \/ SetMm(h, g)))
            \/ SetRmFrom(h, g)
            \/ (Rich /\ g # h /\ (RmApp(h, g) \/ RmSet(h, g)))
  \/ \E h \in Roots : Freeze(h)
  \/ \E v \in Handles :
       \/ (H[v].k = "li" /\ (VApp(v) \/ VSet(v)))
       \/ (H[v].k = "lm" /\ V0SetI(v))
       \/ (H[v].k = "lm" /\ Rich /\ \E g \in MsgHandles : VmApp(v, g))
       \/ (H[v].k = "map" /\ VSetB(v))

(***************************************************************************)
(* Invariants.                                                             *)
(***************************************************************************)
TypeOK ==
  /\ \A o \in 1..Len(M) : /\ M[o].i \in 0..2
                          /\ M[o].sub \in 0..Len(M)
                          /\ M[o].r \in 0..Len(L) /\ M[o].rm \in 0..Len(L) /\ M[o].mp \in 0..Len(P)
                          /\ M[o].mm \in 0..Len(L) /\ (M[o].mm # 0 => Len(L[M[o].mm]) = 1)
  /\ \A l \in 1..Len(L) : Len(L[l]) \in 1..MaxElems
  /\ \A h \in Handles : H[H[h].rt].rt = H[h].rt /\ H[h].via \in SnapRoutes \cup {""}
  /\ FM \subseteq 1..Len(M) /\ FL \subseteq 1..Len(L) /\ FP \subseteq 1..Len(P)

\* The property: the content seen through a frozen handle never changes.
FrozenStable == \A h \in DOMAIN snap : Content(h) = snap[h]

\* frozen content is closed under reachability (ideal model)
FrozenClosed == ~Flags =>
  /\ Reach(FM) = FM
  /\ ListsOf(FM) \subseteq FL /\ MapsOf(FM) \subseteq FP
  /\ \A l \in FL : \A o \in 1..Len(M) : (M[o].rm = l \/ M[o].mm = l) => SeqToSet(L[l]) \subseteq FM
=============================================================================
