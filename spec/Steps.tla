------------------------------- MODULE Steps -------------------------------
(***************************************************************************)
(* Execution steps, step limits and cancellation of a Starlark thread.     *)
(*                                                                         *)
(* A thread counts interpreter steps cumulatively over all executions on   *)
(* it.  At the head of the interpreter loop, before every instruction:     *)
(*   the counter is incremented; if it has reached the limit the thread    *)
(*   cancels itself with the reason "too many steps"; if a cancellation    *)
(*   reason is set, execution stops with an error naming that reason.      *)
(* So with a limit of N fewer than N instructions execute.  The host may   *)
(* cancel from any goroutine at any time: the first reason wins, the       *)
(* instruction that has already passed the test (and a built-in call in    *)
(* flight) completes, nothing else runs, and the cancellation stays in     *)
(* force for later executions until Uncancel.                              *)
(*                                                                         *)
(* reasons: 0 none, 1 host reason "a", 2 host reason "b", 3 "too many steps"*)
(***************************************************************************)
EXTENDS StepsLaw

VARIABLES steps,    \* cumulative step counter of the thread
          max,      \* limit (0: unlimited)
          cancel,   \* current cancellation reason
          phase,    \* "idle" | "head" | "exec" | (after an execution) "idle"
          pc,       \* instructions of the current execution already executed
          execs     \* finished executions: <<instructions executed, reason (0 = completed)>>

svars == <<steps, max, cancel, phase, pc, execs>>

SInit(limit) == steps = 0 /\ max = limit /\ cancel = 0 /\ phase = "idle" /\ pc = 0 /\ execs = <<>>

\* the host starts an execution of a program with K instructions
Start == phase = "idle" /\ phase' = "head" /\ pc' = 0 /\ UNCHANGED <<steps, max, cancel, execs>>

\* loop head: increment, limit test, cancellation test
LoopHead(K) ==
  /\ phase = "head"
  /\ steps' = steps + 1
  /\ LET c == IF max > 0 /\ steps + 1 >= max /\ cancel = 0 THEN 3 ELSE cancel IN
     /\ cancel' = c
     /\ IF c # 0 THEN phase' = "idle" /\ execs' = Append(execs, <<pc, c>>) /\ pc' = 0
        ELSE phase' = "exec" /\ UNCHANGED <<execs, pc>>
  /\ UNCHANGED max

\* the instruction that passed the test executes (a built-in call in flight returns)
Exec(K) ==
  /\ phase = "exec"
  /\ IF pc + 1 = K THEN phase' = "idle" /\ execs' = Append(execs, <<pc + 1, 0>>) /\ pc' = 0
     ELSE phase' = "head" /\ pc' = pc + 1 /\ UNCHANGED execs
  /\ UNCHANGED <<steps, max, cancel>>

\* Cancel(reason) from the host: compare-and-swap from "none"; possible at any time
ExtCancel(r) == cancel' = (IF cancel = 0 THEN r ELSE cancel) /\ UNCHANGED <<steps, max, phase, pc, execs>>
Uncancel == phase = "idle" /\ cancel' = 0 /\ UNCHANGED <<steps, max, phase, pc, execs>>
\* the host changes the limit between executions: the limit is a bound on the thread's cumulative step counter,
\* whatever the counter is at that moment (a limit at or below it stops the next execution at its first instruction)
SetLimit(n) == phase = "idle" /\ max' = n /\ UNCHANGED <<steps, cancel, phase, pc, execs>>

=============================================================================
