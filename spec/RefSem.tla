------------------------------- MODULE RefSem -------------------------------
(***************************************************************************)
(* Reference semantics of the Starlark core language, evaluated directly   *)
(* on the syntax tree (doc/spec.md): lexical scoping with the "bound       *)
(* anywhere in the block" rule, closures over environments, left-to-right  *)
(* evaluation order, short-circuit and conditional expressions, loops with *)
(* break/continue/return, comprehensions with their own block, simple /    *)
(* sequence / augmented assignment to names, indexes and (host) fields,    *)
(* all call forms bound by Binding!Bind, load, the recursion rule, the     *)
(* iteration lock of lists and dicts.                                      *)
(*                                                                         *)
(* It is a definitional interpreter written as RECURSIVE TLA+ operators    *)
(* that thread a state record                                              *)
(*    st = [heap, glob, eff, stack, err, opts]                             *)
(* heap  : sequence of objects (lists, dicts, environment frames)          *)
(* glob  : sequence of <<name, value>> (module globals in binding order)   *)
(* eff   : host-visible effects (calls of trace) with deep-copied values   *)
(* stack : active calls <<function name, code id, call position>>          *)
(* err   : [k, p, stack]; k = "" while running.  k = "unsupported" means   *)
(*         the program left the modelled fragment and is not judged.       *)
(* The syntax tree is the JSON produced by `vh ast` from the real parser.  *)
(***************************************************************************)
EXTENDS Binding

\* ---------------------------------------------------------------- values
VNone       == [t |-> "none"]
VBool(b)    == [t |-> "bool", v |-> b]
VInt(n)     == [t |-> "int", v |-> n]
VStr(s)     == [t |-> "str", v |-> s]
VTuple(e)   == [t |-> "tuple", e |-> e]
VRef(id)    == [t |-> "ref", id |-> id]
VBuiltin(n) == [t |-> "builtin", name |-> n]
VBound(id, m) == [t |-> "bound", id |-> id, m |-> m]
Unbound     == [t |-> "unbound"]

NoErr == [k |-> "", p |-> <<0, 0>>, stack |-> <<>>]
R(st, v) == [st |-> st, v |-> v]
Failed(st) == st.err.k # ""
Err(st, kind, pos) == IF Failed(st) THEN st ELSE [st EXCEPT !.err = [k |-> kind, p |-> pos, stack |-> st.stack]]
RFail(st, kind, pos) == R(Err(st, kind, pos), VNone)

Alloc(st, o) == [st |-> [st EXCEPT !.heap = Append(@, o)], id |-> Len(st.heap) + 1]
Obj(st, v) == st.heap[v.id]
IsList(st, v) == v.t = "ref" /\ st.heap[v.id].t = "list"
IsDict(st, v) == v.t = "ref" /\ st.heap[v.id].t = "dict"
IsObj(st, v)  == v.t = "ref" /\ st.heap[v.id].t = "obj"
FieldIdx(o, n) == IF \E i \in 1..Len(o.e) : o.e[i][1] = n THEN CHOOSE i \in 1..Len(o.e) : o.e[i][1] = n ELSE 0

Universe == {"len", "list", "tuple", "range", "bool", "type", "min", "max", "any", "all", "reversed",
             "enumerate", "sorted", "zip", "int", "True", "False", "None", "dict", "str", "repr", "print", "fail",
             "getattr", "hasattr", "dir", "hash", "float", "set", "abs", "chr", "ord", "bytes"}
Modelled == {"len", "list", "tuple", "range", "bool", "type", "min", "max", "any", "all", "reversed",
             "enumerate", "sorted", "int", "True", "False", "None"}
Predeclared == {"trace", "boom", "obj"}

\* ---------------------------------------------------------------- static helpers: names bound in a block
RECURSIVE TargetNames(_)
TargetNames(e) ==
  CASE e.k = "name" -> {e.name}
    [] e.k \in {"tuple", "list"} -> UNION {TargetNames(e.elems[i]) : i \in 1..Len(e.elems)}
    [] e.k = "paren" -> TargetNames(e.x)
    [] OTHER -> {}
RECURSIVE BoundIn(_)
BoundIn(ss) ==
  UNION {LET s == ss[i] IN
         CASE s.k = "assign" -> TargetNames(s.lhs)
           [] s.k = "def"    -> {s.name}
           [] s.k = "for"    -> TargetNames(s.vars) \cup BoundIn(s.body)
           [] s.k = "while"  -> BoundIn(s.body)
           [] s.k = "if"     -> BoundIn(s.then) \cup BoundIn(s.else)
           [] s.k = "load"   -> {s.to[j] : j \in 1..Len(s.to)}
           [] OTHER -> {} : i \in 1..Len(ss)}
ParamNames(ps) == {ps[i].name : i \in {i \in 1..Len(ps) : ps[i].k # "star"}}
CompVars(cl) == UNION {IF cl[i].k = "for" THEN TargetNames(cl[i].vars) ELSE {} : i \in 1..Len(cl)}

\* ---------------------------------------------------------------- variables
GlobIdx(st, n) == IF \E i \in 1..Len(st.glob) : st.glob[i][1] = n
                  THEN CHOOSE i \in 1..Len(st.glob) : st.glob[i][1] = n ELSE 0
SetGlobal(st, n, v) ==
  LET i == GlobIdx(st, n) IN
  IF i = 0 THEN [st EXCEPT !.glob = Append(@, <<n, v>>)] ELSE [st EXCEPT !.glob[i] = <<n, v>>]

RECURSIVE Lookup(_, _, _, _)
Lookup(n, fr, st, pos) ==
  IF fr = 0
  THEN IF n \in st.gnames
       THEN (IF GlobIdx(st, n) # 0 THEN R(st, st.glob[GlobIdx(st, n)][2]) ELSE RFail(st, "unbound-global", pos))
       ELSE IF n \in Predeclared THEN R(st, VBuiltin(n))
       ELSE IF n = "True" THEN R(st, VBool(TRUE)) ELSE IF n = "False" THEN R(st, VBool(FALSE))
       ELSE IF n = "None" THEN R(st, VNone)
       ELSE IF n \in Modelled THEN R(st, VBuiltin(n))
       ELSE RFail(st, "unsupported", pos)
  ELSE LET f == st.heap[fr] IN
       IF n \in DOMAIN f.vars
       THEN (IF f.vars[n].t = "unbound" THEN RFail(st, "unbound-local", pos) ELSE R(st, f.vars[n]))
       ELSE Lookup(n, f.parent, st, pos)

Bind1(n, v, fr, st) ==
  IF fr = 0 THEN SetGlobal(st, n, v) ELSE [st EXCEPT !.heap[fr].vars[n] = v]

\* ---------------------------------------------------------------- value helpers
Truth(st, v) ==
  CASE v.t = "none" -> FALSE
    [] v.t = "bool" -> v.v
    [] v.t = "int"  -> v.v # 0
    [] v.t = "str"  -> v.v # ""
    [] v.t \in {"tuple", "range"} -> v.e # <<>>
    [] v.t = "ref"  -> st.heap[v.id].t = "obj" \/ st.heap[v.id].e # <<>>
    [] OTHER -> TRUE

TypeName(st, v) ==
  CASE v.t = "none" -> "NoneType" [] v.t = "bool" -> "bool" [] v.t = "int" -> "int" [] v.t = "str" -> "string"
    [] v.t = "tuple" -> "tuple" [] v.t = "range" -> "range" [] v.t = "ref" -> st.heap[v.id].t [] v.t = "fn" -> "function"
    [] OTHER -> "builtin_function_or_method"

Hashable(v) == v.t \in {"none", "bool", "int", "str"} \/ (v.t = "tuple" /\ \A i \in 1..Len(v.e) : v.e[i].t \in {"none", "bool", "int", "str"})

\* equality on the modelled values (acyclic)
RECURSIVE VEq(_, _, _)
VEq(st, a, b) ==
  IF a.t # b.t THEN FALSE
  ELSE CASE a.t = "none" -> TRUE
         [] a.t \in {"bool", "int", "str"} -> a.v = b.v
         [] a.t = "tuple" -> Len(a.e) = Len(b.e) /\ \A i \in 1..Len(a.e) : VEq(st, a.e[i], b.e[i])
         [] a.t = "ref" ->
              IF a.id = b.id THEN TRUE
              ELSE LET x == st.heap[a.id] y == st.heap[b.id] IN
                   IF x.t # y.t THEN FALSE
                   ELSE IF x.t = "list" THEN Len(x.e) = Len(y.e) /\ \A i \in 1..Len(x.e) : VEq(st, x.e[i], y.e[i])
                   ELSE Len(x.e) = Len(y.e) /\ \A i \in 1..Len(x.e) : \E j \in 1..Len(y.e) : VEq(st, x.e[i][1], y.e[j][1]) /\ VEq(st, x.e[i][2], y.e[j][2])
         [] a.t = "builtin" -> a.name = b.name
         [] a.t = "fn" -> a.code = b.code /\ a.env = b.env
         [] OTHER -> FALSE

\* sequence of element values of an iterable value, or <<>> with ok = FALSE
Elems(st, v) ==
  CASE v.t \in {"tuple", "range"} -> [ok |-> TRUE, e |-> v.e]
    [] v.t = "ref" /\ st.heap[v.id].t = "list" -> [ok |-> TRUE, e |-> st.heap[v.id].e]
    [] v.t = "ref" /\ st.heap[v.id].t = "dict" -> [ok |-> TRUE, e |-> [i \in 1..Len(st.heap[v.id].e) |-> st.heap[v.id].e[i][1]]]
    [] OTHER -> [ok |-> FALSE, e |-> <<>>]

Lock(st, v, d) == IF v.t = "ref" THEN [st EXCEPT !.heap[v.id].iters = @ + d] ELSE st
Mutable(st, id) == st.heap[id].iters = 0
MutErr(st, id) == IF st.heap[id].iters >= 1000 THEN "frozen" ELSE "iter-mutation"      \* frozen objects carry a permanent lock

DictIdx(st, d, k) == IF \E i \in 1..Len(d.e) : VEq(st, d.e[i][1], k) THEN CHOOSE i \in 1..Len(d.e) : VEq(st, d.e[i][1], k) ELSE 0

\* deep copy of a value for the effect log / final globals (identity dropped, cycles cut).
\* A reference cycle is cut where the walk meets an object it is already inside (path = the heap objects being expanded),
\* which is where the observation side cuts it too; the fuel only bounds deep acyclic nesting.  Cutting by fuel alone
\* expands a list that holds k references to itself into k^fuel copies.
RECURSIVE DeepOn(_, _, _, _)
DeepOn(st, v, fuel, path) ==
  IF fuel = 0 THEN [t |-> "deep"]
  ELSE CASE v.t = "tuple" -> [t |-> "tuple", e |-> [i \in 1..Len(v.e) |-> DeepOn(st, v.e[i], fuel - 1, path)]]
         [] v.t = "ref" ->
              IF v.id \in path THEN [t |-> "deep"]
              ELSE LET o == st.heap[v.id]
                       p == path \cup {v.id} IN
              IF o.t = "list" THEN [t |-> "list", e |-> [i \in 1..Len(o.e) |-> DeepOn(st, o.e[i], fuel - 1, p)]]
              ELSE IF o.t = "obj" THEN [t |-> "obj", e |-> [i \in 1..Len(o.e) |-> <<o.e[i][1], DeepOn(st, o.e[i][2], fuel - 1, p)>>]]
              ELSE [t |-> "dict", e |-> [i \in 1..Len(o.e) |-> <<DeepOn(st, o.e[i][1], fuel - 1, p), DeepOn(st, o.e[i][2], fuel - 1, p)>>]]
         [] v.t = "range" -> [t |-> "range", len |-> Len(v.e)]
         [] v.t = "fn" -> [t |-> "fn", name |-> v.name]
         [] v.t = "bound" -> [t |-> "builtin", name |-> v.m]
         [] OTHER -> v
Deep(st, v, fuel) == DeepOn(st, v, fuel, {})


\* structural equality as `==` computes it, for the values whose equality is structural: "t", "f", or "u" when the
\* comparison leaves the modelled values (functions and methods compare by identity of objects the model does not
\* track; a comparison deeper than the fuel may be cyclic)
RECURSIVE DeepEq(_, _, _, _), DeepEqSeq(_, _, _, _, _), DeepEqDict(_, _, _, _, _)
DeepEq(st, a, b, fuel) ==
  IF fuel = 0 THEN "u"
  ELSE IF a.t \in {"fn", "builtin", "bound", "range", "unbound"} \/ b.t \in {"fn", "builtin", "bound", "range", "unbound"} THEN "u"
  ELSE IF a.t # b.t THEN "f"
  ELSE CASE a.t = "none" -> "t"
         [] a.t \in {"bool", "int", "str"} -> (IF a.v = b.v THEN "t" ELSE "f")
         [] a.t = "tuple" -> (IF Len(a.e) # Len(b.e) THEN "f" ELSE DeepEqSeq(st, a.e, b.e, 1, fuel - 1))
         [] a.t = "ref" ->
              LET x == st.heap[a.id] y == st.heap[b.id] IN
              IF x.t # y.t THEN "f"
              ELSE IF x.t = "obj" THEN (IF a.id = b.id THEN "t" ELSE "f")          \* host objects: identity
              ELSE IF x.t = "list" THEN (IF Len(x.e) # Len(y.e) THEN "f" ELSE DeepEqSeq(st, x.e, y.e, 1, fuel - 1))
              ELSE IF Len(x.e) # Len(y.e) THEN "f" ELSE DeepEqDict(st, x, y, 1, fuel - 1)
         [] OTHER -> "u"
DeepEqSeq(st, xs, ys, i, fuel) ==
  IF i > Len(xs) THEN "t"
  ELSE LET r == DeepEq(st, xs[i], ys[i], fuel) IN IF r = "t" THEN DeepEqSeq(st, xs, ys, i + 1, fuel) ELSE r
\* dicts are equal when they have the same keys with equal values, whatever the insertion order
DeepEqDict(st, x, y, i, fuel) ==
  IF i > Len(x.e) THEN "t"
  ELSE LET j == DictIdx(st, y, x.e[i][1]) IN
       IF j = 0 THEN "f"
       ELSE LET r == DeepEq(st, x.e[i][2], y.e[j][2], fuel) IN IF r = "t" THEN DeepEqDict(st, x, y, i + 1, fuel) ELSE r

\* ordered comparison of two sequences: the first unequal pair of elements decides, then the lengths.
\* result "lt" / "eq" / "gt", "e" = the deciding pair is not ordered (an error), "u" = outside the modelled values
RECURSIVE SeqCmp(_, _, _, _, _), ElemCmp(_, _, _, _)
ElemCmp(st, a, b, fuel) ==
  IF fuel = 0 THEN "u"
  ELSE CASE a.t = "int" /\ b.t = "int" -> (IF a.v < b.v THEN "lt" ELSE IF a.v > b.v THEN "gt" ELSE "eq")
         [] a.t = "bool" /\ b.t = "bool" -> (IF a.v = b.v THEN "eq" ELSE IF b.v THEN "lt" ELSE "gt")
         [] a.t = "tuple" /\ b.t = "tuple" -> SeqCmp(st, a.e, b.e, 1, fuel - 1)
         [] IsList(st, a) /\ IsList(st, b) -> SeqCmp(st, st.heap[a.id].e, st.heap[b.id].e, 1, fuel - 1)
         [] a.t \in {"int", "bool", "none", "tuple"} /\ b.t \in {"int", "bool", "none", "tuple"} /\ a.t # b.t -> "e"
         [] (a.t \in {"int", "bool", "none", "tuple"} /\ IsList(st, b)) \/ (IsList(st, a) /\ b.t \in {"int", "bool", "none", "tuple"}) -> "e"
         [] OTHER -> "u"
SeqCmp(st, xs, ys, i, fuel) ==
  IF i > Len(xs) \/ i > Len(ys) THEN (IF Len(xs) < Len(ys) THEN "lt" ELSE IF Len(xs) > Len(ys) THEN "gt" ELSE "eq")
  ELSE LET q == DeepEq(st, xs[i], ys[i], fuel) IN
       IF q = "u" THEN "u"
       ELSE IF q = "t" THEN SeqCmp(st, xs, ys, i + 1, fuel)
       ELSE ElemCmp(st, xs[i], ys[i], fuel)

SQ == INSTANCE Seqs
OptInt(v) == IF v.t = "none" THEN [some |-> FALSE] ELSE [some |-> TRUE, v |-> v.v]

\* ---------------------------------------------------------------- arithmetic
FloorDiv(a, b) == IF b > 0 THEN a \div b ELSE (-a) \div (-b)
FloorMod(a, b) == a - b * FloorDiv(a, b)
SmallInt(n) == n > -1000000000 /\ n < 1000000000

RECURSIVE SeqLt(_, _, _)
BinOp(st, op, a, b, pos) ==
  CASE a.t = "int" /\ b.t = "int" /\ op \in {"+", "-", "*"} ->
         LET r == CASE op = "+" -> a.v + b.v [] op = "-" -> a.v - b.v [] op = "*" -> a.v * b.v IN
         IF SmallInt(a.v) /\ SmallInt(b.v) /\ (op # "*" \/ (a.v < 30000 /\ a.v > -30000 /\ b.v < 30000 /\ b.v > -30000))
         THEN R(st, VInt(r)) ELSE RFail(st, "unsupported", pos)
    [] a.t = "int" /\ b.t = "int" /\ op \in {"//", "%"} ->
         IF b.v = 0 THEN RFail(st, "divzero", pos)
         ELSE R(st, VInt(IF op = "//" THEN FloorDiv(a.v, b.v) ELSE FloorMod(a.v, b.v)))
    [] a.t = "str" /\ b.t = "str" /\ op = "+" -> R(st, VStr(a.v \o b.v))
    [] a.t = "tuple" /\ b.t = "tuple" /\ op = "+" -> R(st, VTuple(a.e \o b.e))
    [] IsList(st, a) /\ IsList(st, b) /\ op = "+" ->
         LET x == Alloc(st, [t |-> "list", e |-> st.heap[a.id].e \o st.heap[b.id].e, iters |-> 0]) IN R(x.st, VRef(x.id))
    [] op \in {"+", "-", "//", "%"} /\ {a.t, b.t} \subseteq {"int", "none", "bool"} /\ ~(a.t = "int" /\ b.t = "int") -> RFail(st, "binop", pos)
    [] op \in {"-", "//"} /\ a.t \in {"str", "tuple", "none", "bool"} /\ b.t \in {"int", "str", "tuple", "none", "bool"} -> RFail(st, "binop", pos)
    [] op = "+" /\ a.t \in {"int", "str", "tuple", "none", "bool"} /\ b.t \in {"int", "str", "tuple", "none", "bool"} /\ a.t # b.t -> RFail(st, "binop", pos)
    [] op \in {"==", "!="} ->
         LET q == DeepEq(st, a, b, 8) IN
         IF q = "u" THEN RFail(st, "unsupported", pos) ELSE R(st, VBool((q = "t") = (op = "==")))
    [] op \in {"<", "<=", ">", ">="} /\ ((a.t = "tuple" /\ b.t = "tuple") \/ (IsList(st, a) /\ IsList(st, b))) ->
         LET c == ElemCmp(st, a, b, 8) IN
         IF c = "u" THEN RFail(st, "unsupported", pos)
         ELSE IF c = "e" THEN RFail(st, "binop", pos)
         ELSE R(st, VBool(CASE op = "<" -> c = "lt" [] op = "<=" -> c \in {"lt", "eq"} [] op = ">" -> c = "gt" [] op = ">=" -> c \in {"gt", "eq"}))
    [] op \in {"<", "<=", ">", ">="} /\ a.t = "int" /\ b.t = "int" ->
         R(st, VBool(CASE op = "<" -> a.v < b.v [] op = "<=" -> a.v <= b.v [] op = ">" -> a.v > b.v [] op = ">=" -> a.v >= b.v))
    [] op \in {"<", "<=", ">", ">="} /\ a.t # b.t /\ {a.t, b.t} \subseteq {"int", "str", "none"} -> RFail(st, "binop", pos)
    [] op \in {"in", "not in"} /\ (b.t = "tuple" \/ IsList(st, b)) /\ a.t \in {"int", "str", "none", "bool", "tuple", "ref"} ->
         LET es == Elems(st, b).e
             q == [i \in 1..Len(es) |-> DeepEq(st, es[i], a, 8)]
             hit == \E i \in 1..Len(es) : q[i] = "t" IN
         IF \E i \in 1..Len(es) : q[i] = "u" THEN RFail(st, "unsupported", pos)
         ELSE R(st, VBool(IF op = "in" THEN hit ELSE ~hit))
    [] op \in {"in", "not in"} /\ IsDict(st, b) /\ Hashable(a) ->
         LET hit == DictIdx(st, st.heap[b.id], a) # 0 IN R(st, VBool(IF op = "in" THEN hit ELSE ~hit))
    [] op \in {"in", "not in"} /\ IsDict(st, b) /\ ~Hashable(a) /\ a.t \in {"ref", "tuple"} -> RFail(st, "unsupported", pos)
    [] OTHER -> RFail(st, "unsupported", pos)
SeqLt(st, a, b) == FALSE

\* ---------------------------------------------------------------- the interpreter
RECURSIVE Eval(_, _, _), EvalSeq(_, _, _, _), Exec(_, _, _), ExecStmt(_, _, _), CallValue(_, _, _, _),
          AssignTo(_, _, _, _), ForLoop(_, _, _, _, _, _), WhileLoop(_, _, _, _), CompRun(_, _, _, _, _),
          CompFor(_, _, _, _, _, _, _), EvalArgs(_, _, _, _, _), CallBuiltin(_, _, _, _, _), MakeFn(_, _, _, _, _, _, _),
          EvalDefaults(_, _, _, _, _), Unpack(_, _, _, _, _, _), DictItems(_, _, _, _, _)

\* evaluate expressions es[i..] left to right, collecting values
EvalSeq(es, i, fr, st0) ==
  IF i > Len(es) THEN R(st0, <<>>)
  ELSE LET r == Eval(es[i], fr, st0) IN
       IF Failed(r.st) THEN R(r.st, <<>>)
       ELSE LET rest == EvalSeq(es, i + 1, fr, r.st) IN R(rest.st, <<r.v>> \o rest.v)

Eval(e, fr, st) ==
  CASE e.k = "val" -> R(st, e.v)       \* an already evaluated operand (used by augmented assignment)
    [] e.k = "lit" ->
         (CASE e.t = "int" -> R(st, VInt(e.v)) [] e.t = "str" -> R(st, VStr(e.s)) [] OTHER -> RFail(st, "unsupported", e.p))
    [] e.k = "name" -> Lookup(e.name, fr, st, e.p)
    [] e.k = "paren" -> Eval(e.x, fr, st)
    [] e.k = "tuple" -> LET r == EvalSeq(e.elems, 1, fr, st) IN R(r.st, VTuple(r.v))
    [] e.k = "list" ->
         LET r == EvalSeq(e.elems, 1, fr, st) IN
         IF Failed(r.st) THEN R(r.st, VNone)
         ELSE LET x == Alloc(r.st, [t |-> "list", e |-> r.v, iters |-> 0]) IN R(x.st, VRef(x.id))
    [] e.k = "dict" ->
         LET x == Alloc(st, [t |-> "dict", e |-> <<>>, iters |-> 0]) IN
         LET r == DictItems(e.entries, 1, x.id, fr, x.st) IN R(r, VRef(x.id))
    [] e.k = "unary" ->
         LET r == Eval(e.x, fr, st) IN
         IF Failed(r.st) THEN r
         ELSE CASE e.op = "not" -> R(r.st, VBool(~Truth(r.st, r.v)))
                [] e.op = "-" /\ r.v.t = "int" -> R(r.st, VInt(-r.v.v))
                [] e.op = "+" /\ r.v.t = "int" -> r
                [] e.op \in {"-", "+"} /\ r.v.t \in {"str", "none", "bool", "tuple"} -> RFail(r.st, "unop", e.p)
                [] OTHER -> RFail(r.st, "unsupported", e.p)
    [] e.k = "binary" /\ e.op \in {"and", "or"} ->
         LET r == Eval(e.x, fr, st) IN
         IF Failed(r.st) THEN r
         ELSE IF (e.op = "and") = Truth(r.st, r.v) THEN Eval(e.y, fr, r.st) ELSE r
    [] e.k = "binary" ->
         LET a == Eval(e.x, fr, st) IN
         IF Failed(a.st) THEN a
         ELSE LET b == Eval(e.y, fr, a.st) IN
              IF Failed(b.st) THEN b ELSE BinOp(b.st, e.op, a.v, b.v, e.p)
    [] e.k = "cond" ->
         LET c == Eval(e.cond, fr, st) IN
         IF Failed(c.st) THEN c
         ELSE IF Truth(c.st, c.v) THEN Eval(e.then, fr, c.st) ELSE Eval(e.else, fr, c.st)
    [] e.k = "index" ->
         LET a == Eval(e.x, fr, st) IN
         IF Failed(a.st) THEN a
         ELSE LET b == Eval(e.y, fr, a.st) IN
              IF Failed(b.st) THEN b
              ELSE CASE (a.v.t = "tuple" \/ IsList(b.st, a.v)) /\ b.v.t = "int" ->
                          LET es == Elems(b.st, a.v).e
                              j == IF b.v.v < 0 THEN b.v.v + Len(es) ELSE b.v.v
                          IN IF j < 0 \/ j >= Len(es) THEN RFail(b.st, "index-range", e.p) ELSE R(b.st, es[j + 1])
                     [] IsDict(b.st, a.v) /\ Hashable(b.v) ->
                          LET d == b.st.heap[a.v.id] j == DictIdx(b.st, d, b.v) IN
                          IF j = 0 THEN RFail(b.st, "key", e.p) ELSE R(b.st, d.e[j][2])
                     [] IsDict(b.st, a.v) /\ b.v.t = "ref" -> RFail(b.st, "unhashable", e.p)
                     [] a.v.t \in {"int", "none", "bool"} -> RFail(b.st, "index-type", e.p)
                     [] OTHER -> RFail(b.st, "unsupported", e.p)
    [] e.k = "dot" ->
         LET a == Eval(e.x, fr, st) IN
         IF Failed(a.st) THEN a
         ELSE CASE IsList(a.st, a.v) /\ e.name \in {"append", "extend", "pop", "clear", "insert", "index", "remove"} -> R(a.st, VBound(a.v.id, e.name))
                [] IsDict(a.st, a.v) /\ e.name \in {"get", "setdefault", "pop", "keys", "values", "items", "clear", "update", "popitem"} -> R(a.st, VBound(a.v.id, e.name))
                [] IsObj(a.st, a.v) ->
                     LET o == a.st.heap[a.v.id] j == FieldIdx(o, e.name) IN
                     IF j = 0 THEN RFail(a.st, "attr", e.p) ELSE R(a.st, o.e[j][2])
                [] a.v.t \in {"int", "none", "bool", "fn", "tuple"} -> RFail(a.st, "attr", e.p)
                [] OTHER -> RFail(a.st, "unsupported", e.p)
    [] e.k = "lambda" -> MakeFn("lambda", e.params, <<[k |-> "return", p |-> e.p, has |-> TRUE, x |-> e.body]>>, e.p, fr, st, e.p)
    [] e.k = "call" ->
         LET f == Eval(e.fn, fr, st) IN
         IF Failed(f.st) THEN f
         ELSE LET a == EvalArgs(e.args, 1, fr, f.st, [pos |-> <<>>, named |-> <<>>, star |-> None, ss |-> None]) IN
              IF Failed(a.st) THEN R(IF a.st.err.p = <<0, 0>> THEN [a.st EXCEPT !.err.p = e.p] ELSE a.st, VNone)
              ELSE CallValue(f.v, a.v, e.p, a.st)
    [] e.k = "comp" ->
         \* the first iterable is evaluated in the enclosing block, everything else in the comprehension's own block
         LET first == Eval(e.clauses[1].x, fr, st) IN
         IF Failed(first.st) THEN first
         ELSE LET nf == Alloc(first.st, [t |-> "frame", vars |-> [n \in CompVars(e.clauses) |-> Unbound], parent |-> fr])
                  acc == IF e.curly THEN Alloc(nf.st, [t |-> "dict", e |-> <<>>, iters |-> 0])
                                    ELSE Alloc(nf.st, [t |-> "list", e |-> <<>>, iters |-> 0])
              IN R(CompFor(e, 1, first.v, acc.id, nf.id, acc.st, TRUE), VRef(acc.id))
    [] e.k = "slice" ->
         \* operand, then start, end and stride (None when absent) left to right; then the SLICE operation checks the
         \* operand kind, the stride (type, zero), the start and the end
         LET none == [k |-> "val", v |-> VNone]
             r == EvalSeq(<<e.x, IF e.haslo THEN e.lo ELSE none, IF e.hashi THEN e.hi ELSE none, IF e.hasstep THEN e.step ELSE none>>, 1, fr, st) IN
         IF Failed(r.st) THEN R(r.st, VNone)
         ELSE LET x == r.v[1] lo == r.v[2] hi == r.v[3] step == r.v[4] IN
              IF x.t \in {"int", "none", "bool", "fn", "builtin", "bound"} \/ IsDict(r.st, x) \/ IsObj(r.st, x) THEN RFail(r.st, "slice-operand", e.p)
              ELSE IF ~(x.t = "tuple" \/ IsList(r.st, x)) THEN RFail(r.st, "unsupported", e.p)
              ELSE IF step.t \notin {"int", "none"} THEN RFail(r.st, "slice-index", e.p)
              ELSE IF step.t = "int" /\ step.v = 0 THEN RFail(r.st, "slice-zero", e.p)
              ELSE IF lo.t \notin {"int", "none"} \/ hi.t \notin {"int", "none"} THEN RFail(r.st, "slice-index", e.p)
              ELSE LET es == Elems(r.st, x).e
                       out == SQ!Slice(es, OptInt(lo), OptInt(hi), OptInt(step)).v IN
                   IF x.t = "tuple" THEN R(r.st, VTuple(out))
                   ELSE LET n == Alloc(r.st, [t |-> "list", e |-> out, iters |-> 0]) IN R(n.st, VRef(n.id))
    [] OTHER -> RFail(st, "unsupported", <<0, 0>>)

\* dict display: key then value for each entry, in order; duplicate keys are an error
DictItems(ents, i, id, fr, st) ==
  IF i > Len(ents) THEN st
  ELSE LET k == Eval(ents[i].key, fr, st) IN
       IF Failed(k.st) THEN k.st
       ELSE LET v == Eval(ents[i].val, fr, k.st) IN
            IF Failed(v.st) THEN v.st
            ELSE IF ~Hashable(k.v) THEN Err(v.st, IF k.v.t = "ref" THEN "unhashable" ELSE "unsupported", ents[i].p)
            ELSE IF DictIdx(v.st, v.st.heap[id], k.v) # 0 THEN Err(v.st, "dupkey", ents[i].p)
            ELSE DictItems(ents, i + 1, id, fr, [v.st EXCEPT !.heap[id].e = Append(@, <<k.v, v.v>>)])

\* arguments: positional, named, *args, **kwargs are evaluated in textual order
EvalArgs(args, i, fr, st, acc) ==
  IF i > Len(args) THEN R(st, acc)
  ELSE LET a == args[i] r == Eval(a.x, fr, st) IN
       IF Failed(r.st) THEN R(r.st, acc)
       ELSE CASE a.k = "pos"   -> EvalArgs(args, i + 1, fr, r.st, [acc EXCEPT !.pos = Append(@, r.v)])
              [] a.k = "named" -> EvalArgs(args, i + 1, fr, r.st, [acc EXCEPT !.named = Append(@, <<a.name, r.v>>)])
              [] a.k = "stararg" ->
                   LET es == Elems(r.st, r.v) IN
                   IF ~es.ok THEN R(Err(r.st, "star-noniter", <<0, 0>>), acc)
                   ELSE EvalArgs(args, i + 1, fr, r.st, [acc EXCEPT !.star = Some(es.e)])
              [] a.k = "kwarg" ->
                   IF ~IsDict(r.st, r.v) THEN R(Err(r.st, "kwarg-nondict", <<0, 0>>), acc)
                   ELSE LET items == r.st.heap[r.v.id].e IN
                        EvalArgs(args, i + 1, fr, r.st,
                                 [acc EXCEPT !.ss = Some([j \in 1..Len(items) |->
                                     <<IF items[j][1].t = "str" THEN [str |-> TRUE, name |-> items[j][1].v] ELSE [str |-> FALSE], items[j][2]>>])])

\* default values are evaluated once, at definition time, left to right
EvalDefaults(ps, i, fr, st, acc) ==
  IF i > Len(ps) THEN R(st, acc)
  ELSE IF ps[i].k = "param" /\ ps[i].hasdflt
  THEN LET r == Eval(ps[i].dflt, fr, st) IN
       IF Failed(r.st) THEN R(r.st, acc) ELSE EvalDefaults(ps, i + 1, fr, r.st, Append(acc, r.v))
  ELSE EvalDefaults(ps, i + 1, fr, st, acc)

MakeFn(name, params, body, code, fr, st, pos) ==
  LET d == EvalDefaults(params, 1, fr, st, <<>>) IN
  IF Failed(d.st) THEN R(d.st, VNone)
  ELSE R(d.st, [t |-> "fn", name |-> name, params |-> params, body |-> body, code |-> code, env |-> fr, dflts |-> d.v])

\* the signature record of Binding!Bind for a function value
SigOf(f) ==
  LET ps == f.params
      staridx == IF \E i \in 1..Len(ps) : ps[i].k \in {"star", "args"} THEN CHOOSE i \in 1..Len(ps) : ps[i].k \in {"star", "args"} ELSE 0
      isP(i) == ps[i].k = "param"
      nd(i) == Cardinality({j \in 1..i : isP(j) /\ ps[j].hasdflt})      \* index of the default of parameter i
      mk(i) == [name |-> ps[i].name, opt |-> ps[i].hasdflt, dflt |-> IF ps[i].hasdflt THEN f.dflts[nd(i)] ELSE VNone]
      posIdx == {i \in 1..Len(ps) : isP(i) /\ (staridx = 0 \/ i < staridx)}
      kwIdx  == {i \in 1..Len(ps) : isP(i) /\ staridx # 0 /\ i > staridx}
      seqOf(S) == [n \in 1..Cardinality(S) |-> mk(CHOOSE i \in S : Cardinality({j \in S : j < i}) = n - 1)]
  IN [pos |-> seqOf(posIdx), star |-> IF staridx = 0 THEN "none" ELSE IF ps[staridx].k = "star" THEN "bare" ELSE "args",
      kwonly |-> seqOf(kwIdx), kwargs |-> \E i \in 1..Len(ps) : ps[i].k = "kwargs",
      argsname |-> IF staridx # 0 /\ ps[staridx].k = "args" THEN ps[staridx].name ELSE "",
      kwname |-> IF \E i \in 1..Len(ps) : ps[i].k = "kwargs" THEN ps[CHOOSE i \in 1..Len(ps) : ps[i].k = "kwargs"].name ELSE ""]

CallValue(f, call, pos, st) ==
  CASE f.t = "fn" ->
         IF ~st.opts.Recursion /\ \E i \in 1..Len(st.stack) : st.stack[i][2] = f.code THEN RFail(st, "recursion", pos)
         ELSE IF Len(st.stack) > 40 THEN RFail(st, "unsupported", pos)
         ELSE
         LET sig == SigOf(f)
             b == Bind(sig, call)
         IN IF ~b.ok THEN RFail(st, "args", pos)
            ELSE
            LET params == sig.pos \o sig.kwonly
                locals == ParamNames(f.params) \cup BoundIn(f.body)
                kwd == IF sig.kwargs THEN Alloc(st, [t |-> "dict", e |-> [i \in 1..Len(b.kw.v) |-> <<VStr(b.kw.v[i][1]), b.kw.v[i][2]>>], iters |-> 0])
                       ELSE [st |-> st, id |-> 0]
                vars == [n \in locals |->
                           IF \E i \in 1..Len(params) : params[i].name = n THEN b.vals[CHOOSE i \in 1..Len(params) : params[i].name = n]
                           ELSE IF n = sig.argsname /\ sig.star = "args" THEN VTuple(b.args.v)
                           ELSE IF n = sig.kwname /\ sig.kwargs THEN VRef(kwd.id)
                           ELSE Unbound]
                nf == Alloc(kwd.st, [t |-> "frame", vars |-> vars, parent |-> f.env])
                st1 == [nf.st EXCEPT !.stack = Append(@, <<f.name, f.code, pos>>)]
                res == Exec(f.body, nf.id, st1)
            IN IF Failed(res.st) THEN R(res.st, VNone)
               ELSE R([res.st EXCEPT !.stack = st.stack], IF res.flow = "return" THEN res.v ELSE VNone)
    [] f.t = "builtin" -> CallBuiltin(f.name, 0, call, pos, st)
    [] f.t = "bound" -> CallBuiltin(f.m, f.id, call, pos, st)
    [] f.t \in {"int", "none", "bool", "str", "tuple", "ref"} -> RFail(st, "not-callable", pos)
    [] OTHER -> RFail(st, "unsupported", pos)

\* built-in functions and methods (positional arguments only; anything else leaves the fragment)
CallBuiltin(name, recv, call, pos, st) ==
  LET args == call.pos \o OptSeq(call.star)
      n == Len(args)
      plain == call.named = <<>> /\ (~call.ss.some \/ call.ss.v = <<>>)
      it(k) == Elems(st, args[k])
      ints(s) == \A i \in 1..Len(s) : s[i].t = "int"
      newlist(s) == LET x == Alloc(st, [t |-> "list", e |-> s, iters |-> 0]) IN R(x.st, VRef(x.id))
  IN
  IF name = "trace" THEN
       R([st EXCEPT !.eff = Append(@, [fn |-> "trace",
                                       args |-> [i \in 1..n |-> Deep(st, args[i], 6)],
                                       kw |-> [i \in 1..Len(call.named \o (IF call.ss.some THEN [j \in 1..Len(call.ss.v) |-> <<call.ss.v[j][1].name, call.ss.v[j][2]>>] ELSE <<>>)) |->
                                                 LET K == call.named \o (IF call.ss.some THEN [j \in 1..Len(call.ss.v) |-> <<call.ss.v[j][1].name, call.ss.v[j][2]>>] ELSE <<>>) IN
                                                 <<K[i][1], Deep(st, K[i][2], 6)>>]])],
         IF n > 0 THEN args[1] ELSE VNone)
  ELSE IF name = "boom" THEN RFail(st, "boom", pos)
  ELSE IF name = "obj" THEN
       (IF n > 0 \/ (call.ss.some /\ call.ss.v # <<>>) THEN RFail(st, "unsupported", pos)
        ELSE LET x == Alloc(st, [t |-> "obj", e |-> call.named, iters |-> 0]) IN R(x.st, VRef(x.id)))
  ELSE IF ~plain THEN RFail(st, "unsupported", pos)
  ELSE CASE name = "len" /\ n = 1 ->
              (IF args[1].t = "str" THEN RFail(st, "unsupported", pos)
               ELSE IF it(1).ok THEN R(st, VInt(Len(it(1).e))) ELSE RFail(st, "builtin-type", pos))
         [] name = "list" /\ n = 1 -> (IF it(1).ok THEN newlist(it(1).e) ELSE IF args[1].t = "str" THEN RFail(st, "unsupported", pos) ELSE RFail(st, "builtin-type", pos))
         [] name = "list" /\ n = 0 -> newlist(<<>>)
         [] name = "tuple" /\ n = 1 -> (IF it(1).ok THEN R(st, VTuple(it(1).e)) ELSE IF args[1].t = "str" THEN RFail(st, "unsupported", pos) ELSE RFail(st, "builtin-type", pos))
         [] name = "tuple" /\ n = 0 -> R(st, VTuple(<<>>))
         [] name = "range" /\ n = 1 /\ args[1].t = "int" /\ args[1].v < 200 ->
              R(st, [t |-> "range", e |-> [i \in 1..(IF args[1].v < 0 THEN 0 ELSE args[1].v) |-> VInt(i - 1)]])
         [] name = "bool" /\ n = 1 -> R(st, VBool(Truth(st, args[1])))
         [] name = "type" /\ n = 1 /\ args[1].t # "tuple" -> R(st, VStr(TypeName(st, args[1])))
         [] name \in {"any", "all"} /\ n = 1 /\ it(1).ok ->
              R(st, VBool(IF name = "any" THEN \E i \in 1..Len(it(1).e) : Truth(st, it(1).e[i]) ELSE \A i \in 1..Len(it(1).e) : Truth(st, it(1).e[i])))
         [] name = "reversed" /\ n = 1 /\ it(1).ok -> newlist([i \in 1..Len(it(1).e) |-> it(1).e[Len(it(1).e) + 1 - i]])
         [] name = "enumerate" /\ n = 1 /\ it(1).ok -> newlist([i \in 1..Len(it(1).e) |-> VTuple(<<VInt(i - 1), it(1).e[i]>>)])
         [] name \in {"min", "max"} /\ n = 1 /\ it(1).ok /\ it(1).e # <<>> /\ ints(it(1).e) ->
              LET S == {it(1).e[i].v : i \in 1..Len(it(1).e)} IN
              R(st, VInt(IF name = "min" THEN CHOOSE x \in S : \A y \in S : x <= y ELSE CHOOSE x \in S : \A y \in S : x >= y))
         [] name = "int" /\ n = 1 /\ args[1].t = "int" -> R(st, args[1])
         [] name = "int" /\ n = 1 /\ args[1].t = "bool" -> R(st, VInt(IF args[1].v THEN 1 ELSE 0))
         \* ---- list methods
         [] name = "append" /\ n = 1 -> (IF Mutable(st, recv) THEN R([st EXCEPT !.heap[recv].e = Append(@, args[1])], VNone) ELSE RFail(st, MutErr(st, recv), pos))
         [] name = "extend" /\ n = 1 /\ it(1).ok -> (IF Mutable(st, recv) THEN R([st EXCEPT !.heap[recv].e = @ \o it(1).e], VNone) ELSE RFail(st, MutErr(st, recv), pos))
         [] name = "clear" /\ n = 0 -> (IF Mutable(st, recv) THEN R([st EXCEPT !.heap[recv].e = <<>>], VNone) ELSE RFail(st, MutErr(st, recv), pos))
         [] name = "pop" /\ n = 0 /\ st.heap[recv].t = "list" ->
              LET es == st.heap[recv].e IN
              IF es = <<>> THEN RFail(st, "index-range", pos)
              ELSE IF ~Mutable(st, recv) THEN RFail(st, MutErr(st, recv), pos)
              ELSE R([st EXCEPT !.heap[recv].e = SubSeq(es, 1, Len(es) - 1)], es[Len(es)])
         \* ---- dict methods
         [] name = "get" /\ n \in {1, 2} /\ Hashable(args[1]) ->
              LET d == st.heap[recv] j == DictIdx(st, d, args[1]) IN
              R(st, IF j # 0 THEN d.e[j][2] ELSE IF n = 2 THEN args[2] ELSE VNone)
         [] name = "setdefault" /\ n \in {1, 2} /\ Hashable(args[1]) ->
              LET d == st.heap[recv] j == DictIdx(st, d, args[1]) dv == IF n = 2 THEN args[2] ELSE VNone IN
              IF ~Mutable(st, recv) THEN RFail(st, MutErr(st, recv), pos)
              ELSE IF j # 0 THEN R(st, d.e[j][2]) ELSE R([st EXCEPT !.heap[recv].e = Append(@, <<args[1], dv>>)], dv)
         [] name = "keys" /\ n = 0 -> newlist([i \in 1..Len(st.heap[recv].e) |-> st.heap[recv].e[i][1]])
         [] name = "values" /\ n = 0 -> newlist([i \in 1..Len(st.heap[recv].e) |-> st.heap[recv].e[i][2]])
         [] name = "items" /\ n = 0 -> newlist([i \in 1..Len(st.heap[recv].e) |-> VTuple(<<st.heap[recv].e[i][1], st.heap[recv].e[i][2]>>)])
         [] OTHER -> RFail(st, "unsupported", pos)

\* ---------------------------------------------------------------- assignment
\* sequence assignment: the right-hand side is iterated and its elements are assigned left to right
Unpack(targets, vals, i, fr, st, pos) ==
  IF i > Len(targets) THEN st
  ELSE LET s2 == AssignTo(targets[i], vals[i], fr, st) IN
       IF Failed(s2) THEN s2 ELSE Unpack(targets, vals, i + 1, fr, s2, pos)

AssignTo(tg, v, fr, st) ==
  CASE tg.k = "name" -> Bind1(tg.name, v, fr, st)
    [] tg.k = "paren" -> AssignTo(tg.x, v, fr, st)
    [] tg.k \in {"tuple", "list"} ->
         LET es == Elems(st, v) IN
         IF ~es.ok THEN Err(st, IF v.t = "str" THEN "unsupported" ELSE "unpack-noniter", <<0, 0>>)
         ELSE IF Len(es.e) # Len(tg.elems) THEN Err(st, "unpack-count", <<0, 0>>)
         ELSE Unpack(tg.elems, es.e, 1, fr, st, <<0, 0>>)
    [] tg.k = "index" ->
         LET a == Eval(tg.x, fr, st) IN
         IF Failed(a.st) THEN a.st
         ELSE LET b == Eval(tg.y, fr, a.st) IN
              IF Failed(b.st) THEN b.st
              ELSE CASE IsList(b.st, a.v) /\ b.v.t = "int" ->
                          LET n == Len(b.st.heap[a.v.id].e) j == IF b.v.v < 0 THEN b.v.v + n ELSE b.v.v IN
                          IF j < 0 \/ j >= n THEN Err(b.st, "index-range", tg.p)
                          ELSE IF ~Mutable(b.st, a.v.id) THEN Err(b.st, MutErr(b.st, a.v.id), tg.p)
                          ELSE [b.st EXCEPT !.heap[a.v.id].e[j + 1] = v]
                     [] IsDict(b.st, a.v) /\ Hashable(b.v) ->
                          LET d == b.st.heap[a.v.id] j == DictIdx(b.st, d, b.v) IN
                          IF ~Mutable(b.st, a.v.id) THEN Err(b.st, MutErr(b.st, a.v.id), tg.p)
                          ELSE IF j = 0 THEN [b.st EXCEPT !.heap[a.v.id].e = Append(@, <<b.v, v>>)]
                          ELSE [b.st EXCEPT !.heap[a.v.id].e[j] = <<b.v, v>>]
                     [] IsDict(b.st, a.v) /\ b.v.t = "ref" -> Err(b.st, "unhashable", tg.p)
                     [] a.v.t \in {"tuple", "int", "none", "bool", "str"} -> Err(b.st, "setindex-type", tg.p)
                     [] OTHER -> Err(b.st, "unsupported", tg.p)
    [] tg.k = "dot" ->
         LET a == Eval(tg.x, fr, st) IN
         IF Failed(a.st) THEN a.st
         ELSE IF IsObj(a.st, a.v)
              THEN LET o == a.st.heap[a.v.id] j == FieldIdx(o, tg.name) IN
                   IF j = 0 THEN [a.st EXCEPT !.heap[a.v.id].e = Append(@, <<tg.name, v>>)]
                   ELSE [a.st EXCEPT !.heap[a.v.id].e[j] = <<tg.name, v>>]
              ELSE IF a.v.t \in {"int", "none", "bool", "tuple", "str", "fn"} \/ IsList(a.st, a.v) \/ IsDict(a.st, a.v) THEN Err(a.st, "setfield-type", tg.p)
              ELSE Err(a.st, "unsupported", tg.p)
    [] OTHER -> Err(st, "unsupported", <<0, 0>>)

\* ---------------------------------------------------------------- statements
Flow(st, f, v) == [st |-> st, flow |-> f, v |-> v]

Exec(ss, fr, st) ==
  IF ss = <<>> THEN Flow(st, "next", VNone)
  ELSE LET r == ExecStmt(ss[1], fr, st) IN
       IF Failed(r.st) \/ r.flow # "next" THEN r ELSE Exec(Tail(ss), fr, r.st)

\* for loop over the values vals[i..]; the iterated value stays locked until the loop is left
ForLoop(s, vals, i, fr, st, iterable) ==
  IF i > Len(vals) THEN Flow(Lock(st, iterable, -1), "next", VNone)
  ELSE LET a == AssignTo(s.vars, vals[i], fr, st) IN
       IF Failed(a) THEN Flow(IF a.err.p = <<0, 0>> THEN [a EXCEPT !.err.p = s.p] ELSE a, "next", VNone)
       ELSE LET b == Exec(s.body, fr, a) IN
            IF Failed(b.st) THEN b
            ELSE IF b.flow = "break" THEN Flow(Lock(b.st, iterable, -1), "next", VNone)
            ELSE IF b.flow = "return" THEN Flow(Lock(b.st, iterable, -1), "return", b.v)
            ELSE ForLoop(s, vals, i + 1, fr, b.st, iterable)

WhileLoop(s, fr, st, fuel) ==
  IF fuel = 0 THEN Flow(Err(st, "unsupported", s.p), "next", VNone)
  ELSE LET c == Eval(s.cond, fr, st) IN
       IF Failed(c.st) THEN Flow(c.st, "next", VNone)
       ELSE IF ~Truth(c.st, c.v) THEN Flow(c.st, "next", VNone)
       ELSE LET b == Exec(s.body, fr, c.st) IN
            IF Failed(b.st) THEN b
            ELSE IF b.flow = "break" THEN Flow(b.st, "next", VNone)
            ELSE IF b.flow = "return" THEN b
            ELSE WhileLoop(s, fr, b.st, fuel - 1)

ExecStmt(s, fr, st) ==
  CASE s.k = "expr" -> LET r == Eval(s.x, fr, st) IN Flow(r.st, "next", VNone)
    [] s.k = "pass" -> Flow(st, "next", VNone)
    [] s.k = "break" -> Flow(st, "break", VNone)
    [] s.k = "continue" -> Flow(st, "continue", VNone)
    [] s.k = "return" ->
         IF s.has THEN LET r == Eval(s.x, fr, st) IN Flow(r.st, "return", r.v) ELSE Flow(st, "return", VNone)
    [] s.k = "def" ->
         LET f == MakeFn(s.name, s.params, s.body, s.p, fr, st, s.p) IN
         IF Failed(f.st) THEN Flow(f.st, "next", VNone) ELSE Flow(Bind1(s.name, f.v, fr, f.st), "next", VNone)
    [] s.k = "if" ->
         LET c == Eval(s.cond, fr, st) IN
         IF Failed(c.st) THEN Flow(c.st, "next", VNone)
         ELSE IF Truth(c.st, c.v) THEN Exec(s.then, fr, c.st) ELSE Exec(s.else, fr, c.st)
    [] s.k = "for" ->
         LET x == Eval(s.x, fr, st) IN
         IF Failed(x.st) THEN Flow(x.st, "next", VNone)
         ELSE LET es == Elems(x.st, x.v) IN
              IF ~es.ok THEN Flow(Err(x.st, IF x.v.t = "str" THEN "unsupported" ELSE "not-iterable", s.p), "next", VNone)
              ELSE LET r == ForLoop(s, es.e, 1, fr, Lock(x.st, x.v, 1), x.v) IN
                   IF r.flow = "continue" THEN Flow(r.st, "next", VNone) ELSE r
    [] s.k = "while" -> WhileLoop(s, fr, st, 60)
    [] s.k = "assign" /\ s.op = "=" ->
         LET r == Eval(s.rhs, fr, st) IN
         IF Failed(r.st) THEN Flow(r.st, "next", VNone)
         ELSE LET a == AssignTo(s.lhs, r.v, fr, r.st) IN
              Flow(IF Failed(a) /\ a.err.p = <<0, 0>> THEN [a EXCEPT !.err.p = s.p] ELSE a, "next", VNone)
    [] s.k = "assign" ->      \* augmented assignment: the target's operands are evaluated once, before the right-hand side
         LET op == SubSeq(s.op, 1, Len(s.op) - 1) IN
         CASE s.lhs.k = "name" ->
                LET a == Lookup(s.lhs.name, fr, st, s.lhs.p) IN
                IF Failed(a.st) THEN Flow(a.st, "next", VNone)
                ELSE LET b == Eval(s.rhs, fr, a.st) IN
                     IF Failed(b.st) THEN Flow(b.st, "next", VNone)
                     ELSE IF op = "+" /\ IsList(b.st, a.v) THEN       \* x += y on a list extends it in place
                          (LET es == Elems(b.st, b.v) IN
                           IF ~es.ok THEN Flow(Err(b.st, IF b.v.t = "str" THEN "unsupported" ELSE "binop", s.p), "next", VNone)
                           ELSE IF ~Mutable(b.st, a.v.id) THEN Flow(Err(b.st, MutErr(b.st, a.v.id), s.p), "next", VNone)
                           ELSE Flow(Bind1(s.lhs.name, a.v, fr, [b.st EXCEPT !.heap[a.v.id].e = @ \o es.e]), "next", VNone))
                     ELSE LET c == BinOp(b.st, op, a.v, b.v, s.p) IN
                          IF Failed(c.st) THEN Flow(c.st, "next", VNone) ELSE Flow(Bind1(s.lhs.name, c.v, fr, c.st), "next", VNone)
           [] s.lhs.k = "index" ->
                LET x == Eval(s.lhs.x, fr, st) IN
                IF Failed(x.st) THEN Flow(x.st, "next", VNone)
                ELSE LET y == Eval(s.lhs.y, fr, x.st) IN
                     IF Failed(y.st) THEN Flow(y.st, "next", VNone)
                     ELSE \* load x[y], evaluate the right-hand side, apply, store back into the same x and y
                          LET lit(v) == [k |-> "val", v |-> v]
                              cur == Eval([k |-> "index", p |-> s.lhs.p, x |-> lit(x.v), y |-> lit(y.v)], fr, y.st) IN
                          IF Failed(cur.st) THEN Flow(cur.st, "next", VNone)
                          ELSE LET b == Eval(s.rhs, fr, cur.st) IN
                               IF Failed(b.st) THEN Flow(b.st, "next", VNone)
                               ELSE IF op = "+" /\ IsList(b.st, cur.v) THEN      \* the list is extended in place, then stored back
                                    (LET es == Elems(b.st, b.v) IN
                                     IF ~es.ok THEN Flow(Err(b.st, IF b.v.t = "str" THEN "unsupported" ELSE "binop", s.p), "next", VNone)
                                     ELSE IF ~Mutable(b.st, cur.v.id) THEN Flow(Err(b.st, MutErr(b.st, cur.v.id), s.p), "next", VNone)
                                     ELSE Flow(AssignTo([k |-> "index", p |-> s.lhs.p, x |-> lit(x.v), y |-> lit(y.v)], cur.v, fr,
                                                        [b.st EXCEPT !.heap[cur.v.id].e = @ \o es.e]), "next", VNone))
                               ELSE LET c == BinOp(b.st, op, cur.v, b.v, s.p) IN
                                    IF Failed(c.st) THEN Flow(c.st, "next", VNone)
                                    ELSE Flow(AssignTo([k |-> "index", p |-> s.lhs.p, x |-> lit(x.v), y |-> lit(y.v)], c.v, fr, c.st), "next", VNone)
           [] s.lhs.k = "dot" ->       \* x.f op= y: x is evaluated once; load x.f, evaluate y, apply, store
                LET x == Eval(s.lhs.x, fr, st) IN
                IF Failed(x.st) THEN Flow(x.st, "next", VNone)
                ELSE LET lit(v) == [k |-> "val", v |-> v]
                         cur == Eval([k |-> "dot", p |-> s.lhs.p, x |-> lit(x.v), name |-> s.lhs.name], fr, x.st) IN
                     IF Failed(cur.st) THEN Flow(cur.st, "next", VNone)
                     ELSE LET b == Eval(s.rhs, fr, cur.st) IN
                          IF Failed(b.st) THEN Flow(b.st, "next", VNone)
                          ELSE IF op = "+" /\ IsList(b.st, cur.v) THEN
                               (LET es == Elems(b.st, b.v) IN
                                IF ~es.ok THEN Flow(Err(b.st, IF b.v.t = "str" THEN "unsupported" ELSE "binop", s.p), "next", VNone)
                                ELSE IF ~Mutable(b.st, cur.v.id) THEN Flow(Err(b.st, MutErr(b.st, cur.v.id), s.p), "next", VNone)
                                ELSE Flow(AssignTo([k |-> "dot", p |-> s.lhs.p, x |-> lit(x.v), name |-> s.lhs.name], cur.v, fr,
                                                   [b.st EXCEPT !.heap[cur.v.id].e = @ \o es.e]), "next", VNone))
                          ELSE LET c == BinOp(b.st, op, cur.v, b.v, s.p) IN
                               IF Failed(c.st) THEN Flow(c.st, "next", VNone)
                               ELSE Flow(AssignTo([k |-> "dot", p |-> s.lhs.p, x |-> lit(x.v), name |-> s.lhs.name], c.v, fr, c.st), "next", VNone)
           [] OTHER -> Flow(Err(st, "unsupported", s.p), "next", VNone)
    [] s.k = "load" ->
         \* the modelled loader knows one module; loaded names are file-local (not exported as globals)
         IF s.module # "m.star" THEN Flow(Err(st, "load-failed", s.p), "next", VNone)
         ELSE IF \E j \in 1..Len(s.from) : s.from[j] \notin {"a", "b", "s"} THEN Flow(Err(st, "load-failed", s.p), "next", VNone)
         ELSE LET l == Alloc(st, [t |-> "list", e |-> <<VInt(1), VInt(2)>>, iters |-> 1000])     \* a frozen list
                  val(n) == CASE n = "a" -> VInt(7) [] n = "b" -> VRef(l.id) [] n = "s" -> VStr("str")
                  RECURSIVE BindAll(_, _)
                  BindAll(j, s0) == IF j > Len(s.to) THEN s0 ELSE BindAll(j + 1, SetGlobal(s0, s.to[j], val(s.from[j])))
              IN Flow([BindAll(1, l.st) EXCEPT !.loaded = @ \cup {s.to[j] : j \in 1..Len(s.to)}], "next", VNone)
    [] OTHER -> Flow(Err(st, "unsupported", <<0, 0>>), "next", VNone)

\* ---------------------------------------------------------------- comprehensions
\* clause ci of comprehension e; `first` is the already evaluated first iterable
CompRun(e, ci, acc, fr, st) ==
  IF ci > Len(e.clauses)
  THEN IF e.curly
       THEN LET k == Eval(e.key, fr, st) IN
            IF Failed(k.st) THEN k.st
            ELSE LET v == Eval(e.val, fr, k.st) IN
                 IF Failed(v.st) THEN v.st
                 ELSE IF ~Hashable(k.v) THEN Err(v.st, IF k.v.t = "ref" THEN "unhashable" ELSE "unsupported", e.cp)
                 ELSE LET d == v.st.heap[acc] j == DictIdx(v.st, d, k.v) IN
                      IF j = 0 THEN [v.st EXCEPT !.heap[acc].e = Append(@, <<k.v, v.v>>)]
                      ELSE [v.st EXCEPT !.heap[acc].e[j] = <<k.v, v.v>>]
       ELSE LET b == Eval(e.body, fr, st) IN
            IF Failed(b.st) THEN b.st ELSE [b.st EXCEPT !.heap[acc].e = Append(@, b.v)]
  ELSE LET c == e.clauses[ci] IN
       IF c.k = "if"
       THEN LET t == Eval(c.cond, fr, st) IN
            IF Failed(t.st) THEN t.st
            ELSE IF Truth(t.st, t.v) THEN CompRun(e, ci + 1, acc, fr, t.st) ELSE t.st
       ELSE LET x == Eval(c.x, fr, st) IN
            IF Failed(x.st) THEN x.st ELSE CompFor(e, ci, x.v, acc, fr, x.st, FALSE)

\* iterate clause ci over the value xv
CompFor(e, ci, xv, acc, fr, st, isFirst) ==
  LET c == e.clauses[ci] es == Elems(st, xv) IN
  IF ~es.ok THEN Err(st, IF xv.t = "str" THEN "unsupported" ELSE "not-iterable", c.p)
  ELSE LET RECURSIVE Loop(_, _)
           Loop(i, s) ==
             IF i > Len(es.e) THEN Lock(s, xv, -1)
             ELSE LET a == AssignTo(c.vars, es.e[i], fr, s) IN
                  IF Failed(a) THEN (IF a.err.p = <<0, 0>> THEN [a EXCEPT !.err.p = c.p] ELSE a)
                  ELSE LET b == CompRun(e, ci + 1, acc, fr, a) IN
                       IF Failed(b) THEN b ELSE Loop(i + 1, b)
       IN Loop(1, Lock(st, xv, 1))

\* ---------------------------------------------------------------- whole programs
InitState(ast, opts) ==
  [heap |-> <<>>, glob |-> <<>>, eff |-> <<>>, stack |-> <<<<"<toplevel>", <<0, 0>>, <<0, 0>>>>>>, err |-> NoErr,
   opts |-> opts, gnames |-> BoundIn(ast.body), loaded |-> {}]

Run(ast, opts) == Exec(ast.body, 0, InitState(ast, opts)).st

\* the observation of a run, comparable with what the harness records from the real pipeline
Outcome(st) == IF Failed(st) THEN st.err.k ELSE "ok"
ErrPos(st) == st.err.p
ErrStack(st) == [i \in 1..Len(st.err.stack) |-> st.err.stack[i][1]]
Globals(st) == LET g == SelectSeq(st.glob, LAMBDA x : x[1] \notin st.loaded) IN
               [i \in 1..Len(g) |-> <<g[i][1], Deep(st, g[i][2], 6)>>]
=============================================================================
