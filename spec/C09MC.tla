------------------------------- MODULE C09MC -------------------------------
(***************************************************************************)
(* C09, dynamic part: "when recursion is off a function re-entered through *)
(* any call path (direct, mutual, via built-in callbacks or copies of the  *)
(* same definition) fails dynamically" (spec.md, Functions: "it is a       *)
(* dynamic error for a function to call itself or another function value   *)
(* with the same declaration").                                            *)
(*                                                                         *)
(* The machine first BUILDS a call graph: functions 1..nf, function i has  *)
(* an ordered list of call sites edges[i] = << <<target, kind>>, ... >>,   *)
(* functions are numbered in order of first reference (so every graph is   *)
(* built once and every function is reachable from function 1).  Kinds:    *)
(*   "call"    F_t(d-1)                                                    *)
(*   "lambda"  (lambda x: F_t(x))(d-1)     one lambda per call site        *)
(*   "twice"   the call goes to a SECOND function value made from the same *)
(*             def (same declaration, different closure)                   *)
(*   "sorted" "min" "max"   the built-in calls F_t as key= on one element  *)
(* Then it RUNS F_1(Depth): a function called with d = 0 returns at once,  *)
(* otherwise it performs its call sites in order with d-1.  The state of   *)
(* the run is the stack of active DECLARATIONS (function i, or the lambda  *)
(* of call site (i, pc)); built-ins are not declarations.  Entering a      *)
(* declaration that is already active fails unless Recursion.              *)
(* TLC checks the invariants below and emits every finished run with the   *)
(* sequence of function entries (log) and the outcome; the harness renders *)
(* the graph as a program and compares (spec -> code).                     *)
(***************************************************************************)
EXTENDS Integers, Sequences, FiniteSets, TLC, Json

CONSTANTS MaxF, MaxOut, MaxE, Depth, Kinds

VARIABLES phase,    \* "build" "run" "done"
          edges,    \* closed functions: edges[i] = call sites of function i
          cur,      \* call sites of the function being built (function Len(edges)+1)
          nf,       \* number of functions referenced so far
          rec,      \* the Recursion option
          stack,    \* frames [code, fn, d, pc]
          log,      \* function entries so far
          fail, failfn, \* the run failed on entry to function failfn ...
          failkind      \* ... through a call site of this kind
vars == <<phase, edges, cur, nf, rec, stack, log, fail, failfn, failkind>>

Max2(a, b) == IF a > b THEN a ELSE b
Min2(a, b) == IF a < b THEN a ELSE b
RECURSIVE SumLen(_)
SumLen(s) == IF s = <<>> THEN 0 ELSE Len(Head(s)) + SumLen(Tail(s))
NumEdges == SumLen(edges) + Len(cur)

FCode(i) == <<"F", i, 0>>
LCode(i, pc) == <<"L", i, pc>>

Init == /\ phase = "build" /\ edges = <<>> /\ cur = <<>> /\ nf = 1 /\ rec \in BOOLEAN
        /\ stack = <<>> /\ log = <<>> /\ fail = FALSE /\ failfn = 0 /\ failkind = "none"

AddEdge(t, k) ==
  /\ phase = "build" /\ Len(edges) < nf /\ Len(cur) < MaxOut /\ NumEdges < MaxE
  /\ t \in 1..Min2(nf + 1, MaxF)
  /\ cur' = Append(cur, <<t, k>>) /\ nf' = Max2(nf, t)
  /\ UNCHANGED <<phase, edges, rec, stack, log, fail, failfn, failkind>>

CloseFn ==
  /\ phase = "build" /\ Len(edges) < nf
  /\ edges' = Append(edges, cur) /\ cur' = <<>>
  /\ UNCHANGED <<phase, nf, rec, stack, log, fail, failfn, failkind>>

Start ==
  /\ phase = "build" /\ Len(edges) = nf
  /\ phase' = "run"
  /\ stack' = <<[code |-> FCode(1), fn |-> 1, d |-> Depth, pc |-> 1]>>
  /\ log' = <<1>>
  /\ UNCHANGED <<edges, cur, nf, rec, fail, failfn, failkind>>

Active == {stack[i].code : i \in DOMAIN stack}

\* the caller's frame (top) has advanced to pc + 1; enter declaration `code`
Enter(code, fn, d, isFn, kind) ==
  LET top == stack[Len(stack)]
      caller == [top EXCEPT !.pc = top.pc + 1]
      below == SubSeq(stack, 1, Len(stack) - 1)
  IN IF ~rec /\ code \in Active
     THEN /\ fail' = TRUE /\ failfn' = (IF isFn THEN fn ELSE 0) /\ failkind' = kind /\ phase' = "done"
          /\ stack' = <<>> /\ UNCHANGED log
     ELSE /\ stack' = below \o <<caller, [code |-> code, fn |-> fn, d |-> d, pc |-> 1]>>
          /\ log' = (IF isFn THEN Append(log, fn) ELSE log)
          /\ UNCHANGED <<fail, failfn, failkind, phase>>

Pop == /\ stack' = SubSeq(stack, 1, Len(stack) - 1)
       /\ phase' = (IF Len(stack) = 1 THEN "done" ELSE "run")
       /\ UNCHANGED <<log, fail, failfn, failkind>>

Step ==
  /\ phase = "run"
  /\ LET top == stack[Len(stack)] IN
     IF top.code[1] = "L"
     THEN \* the lambda of a call site: calls its target once, then returns
          IF top.pc = 1 THEN Enter(FCode(top.fn), top.fn, top.d, TRUE, "lambda") ELSE Pop
     ELSE IF top.d = 0 \/ top.pc > Len(edges[top.fn]) THEN Pop
     ELSE LET e == edges[top.fn][top.pc] IN
          IF e[2] = "lambda"
          THEN Enter(LCode(top.fn, top.pc), e[1], top.d - 1, FALSE, "lambda")
          ELSE Enter(FCode(e[1]), e[1], top.d - 1, TRUE, e[2])      \* call, twice, sorted, min, max
  /\ UNCHANGED <<edges, cur, nf, rec>>

Next == \/ \E t \in 1..MaxF, k \in Kinds : AddEdge(t, k)
        \/ CloseFn \/ Start \/ Step

\* with Recursion off no declaration is ever active twice
StackDistinctWhenOff == ~rec => \A i, j \in DOMAIN stack : i # j => stack[i].code # stack[j].code
StackBounded == Len(stack) <= 2 * (Depth + 1)
\* a failure happens only with Recursion off, and always on entry to a def (never to a
\* call-site lambda: its enclosing function would have been re-entered first)
FailsOnlyWhenOff == fail => ~rec /\ failfn \in 1..nf

Emit == phase = "done" =>
        PrintT("G" \o ToJson([edges |-> edges, rec |-> rec, fail |-> fail, failfn |-> failfn, failkind |-> failkind, log |-> log]))
=============================================================================
