------------------------------- MODULE C18MC -------------------------------
(***************************************************************************)
(* Design-level check of JsonSpec (P-E), independent of any implementation:*)
(* the position-threaded recursive-descent recogniser ParseDoc is compared, *)
(* exhaustively over all short byte strings, with DECLARATIVE definitions  *)
(* of the same languages (split-point style, written separately from the   *)
(* RFC grammar):                                                           *)
(*  mode "num":    all strings over  - 0 1 2 . e E +   up to length NumLen  *)
(*  mode "struct": all strings over  [ ] { } , : 1 " space  up to StructLen*)
(*  mode "misc":   evaluator anchors: integer and decimal values, every    *)
(*                 escape, surrogate pairs, UTF-8 encoding and validity,   *)
(*                 nothing after the value, whitespace set.                *)
(***************************************************************************)
EXTENDS JsonSpec, TLC

CONSTANTS NumLen, StructLen
VARIABLES mode, w

NumAlpha == {45, 48, 49, 50, 46, 101, 69, 43}
StructAlpha == {91, 93, 123, 125, 44, 58, 49, 34, 32}
Strings(A, n) == UNION {[1..k -> A] : k \in 0..n}

Init == mode = "start" /\ w = <<>>
Next == /\ mode = "start"
        /\ \/ (mode' = "num" /\ w' \in Strings(NumAlpha, NumLen))
           \/ (mode' = "struct" /\ w' \in Strings(StructAlpha, StructLen))
           \/ (mode' = "misc" /\ w' = <<>>)

(* ---------------------------------------------------- declarative numbers *)
AllDigits(x) == \A k \in 1..Len(x) : x[k] >= 48 /\ x[k] <= 57
IsIntPart(x) == x = <<48>> \/ (Len(x) >= 1 /\ x[1] >= 49 /\ x[1] <= 57 /\ AllDigits(x))
IsFracPart(x) == x = <<>> \/ (Len(x) >= 2 /\ x[1] = 46 /\ AllDigits(Tail(x)))
IsExpPart(x) == x = <<>> \/
  (Len(x) >= 2 /\ x[1] \in {101, 69} /\
     LET r == Tail(x) IN IF r[1] \in {43, 45} THEN Len(r) >= 2 /\ AllDigits(Tail(r)) ELSE AllDigits(r))
IsNumber(x) ==
  LET b == IF x # <<>> /\ x[1] = 45 THEN Tail(x) ELSE x IN
  \E a \in 1..Len(b) : \E c \in a..Len(b) :
     IsIntPart(SubSeq(b, 1, a)) /\ IsFracPart(SubSeq(b, a + 1, c)) /\ IsExpPart(SubSeq(b, c + 1, Len(b)))
NumOK == ParseDoc(w).ok = IsNumber(w)

(* -------------------------------------------------- declarative structure *)
RECURSIVE TrimL(_), TrimR(_)
TrimL(x) == IF x # <<>> /\ x[1] = 32 THEN TrimL(Tail(x)) ELSE x
TrimR(x) == IF x # <<>> /\ x[Len(x)] = 32 THEN TrimR(SubSeq(x, 1, Len(x) - 1)) ELSE x
TrimS(x) == TrimR(TrimL(x))
IsStrTok(x) == Len(x) >= 2 /\ x[1] = 34 /\ x[Len(x)] = 34 /\ \A k \in 2..(Len(x) - 1) : x[k] # 34
RECURSIVE InVal(_), InElemList(_), InMembers(_)
InMember(m) == \E k \in 1..Len(m) : m[k] = 58 /\ IsStrTok(TrimS(SubSeq(m, 1, k - 1))) /\ InVal(TrimS(SubSeq(m, k + 1, Len(m))))
InVal(x) ==              \* x is trimmed
  \/ (x # <<>> /\ \A k \in 1..Len(x) : x[k] = 49)          \* 1, 11, 111, ...
  \/ IsStrTok(x)
  \/ /\ Len(x) >= 2 /\ x[1] = 91 /\ x[Len(x)] = 93
     /\ LET t == SubSeq(x, 2, Len(x) - 1) IN TrimS(t) = <<>> \/ InElemList(t)
  \/ /\ Len(x) >= 2 /\ x[1] = 123 /\ x[Len(x)] = 125
     /\ LET t == SubSeq(x, 2, Len(x) - 1) IN TrimS(t) = <<>> \/ InMembers(t)
InElemList(t) == \/ InVal(TrimS(t))
                 \/ \E k \in 1..Len(t) : t[k] = 44 /\ InVal(TrimS(SubSeq(t, 1, k - 1))) /\ InElemList(SubSeq(t, k + 1, Len(t)))
InMembers(t) == \/ InMember(t)
                \/ \E k \in 1..Len(t) : t[k] = 44 /\ InMember(SubSeq(t, 1, k - 1)) /\ InMembers(SubSeq(t, k + 1, Len(t)))
StructOK == ParseDoc(w).ok = InVal(TrimS(w))

(* ------------------------------------------------------------------ anchors *)
P(x) == ParseDoc(x)
StrIs(doc, bytes) == P(doc).ok /\ P(doc).v.t = "str" /\ P(doc).v.v = bytes /\ ~P(doc).q
Q == 34
BS == 92
Misc ==
  \* integers are exact, "-0" is 0
  /\ P(<<49, 50>>).v.t = "int" /\ IEq(P(<<49, 50>>).v.n, FromInt(12)) /\ IEq(P(<<45, 49, 50>>).v.n, FromInt(-12))
  /\ IEq(P(<<45, 48>>).v.n, Zero) /\ IEq(P(<<32, 55, 10>>).v.n, FromInt(7))
  \* 1.25e-3 = 125 * 10^-5 ; 1E+2 = 1 * 10^2 ; -0.0
  /\ LET d == P(<<49, 46, 50, 53, 101, 45, 51>>).v IN d.t = "dec" /\ ~d.neg /\ d.digits = <<1, 2, 5>> /\ d.e10 = -5 /\ d.point
  /\ LET d == P(<<49, 69, 43, 50>>).v IN d.t = "dec" /\ d.digits = <<1>> /\ d.e10 = 2 /\ ~d.point
  /\ LET d == P(<<45, 48, 46, 48>>).v IN d.t = "dec" /\ d.neg /\ d.digits = <<0, 0>> /\ d.e10 = -1
  \* every short escape; A = "A"; é and é = C3 A9; € = E2 82 AC; pair D83D DE00 = F0 9F 98 80
  /\ StrIs(<<Q, BS, 34, BS, 92, BS, 47, BS, 98, BS, 102, BS, 110, BS, 114, BS, 116, Q>>, <<34, 92, 47, 8, 12, 10, 13, 9>>)
  /\ StrIs(<<Q, BS, 117, 48, 48, 52, 49, Q>>, <<65>>)
  /\ StrIs(<<Q, BS, 117, 48, 48, 101, 57, Q>>, <<195, 169>>) /\ StrIs(<<Q, BS, 117, 48, 48, 69, 57, Q>>, <<195, 169>>)
  /\ StrIs(<<Q, BS, 117, 50, 48, 97, 99, Q>>, <<226, 130, 172>>)
  /\ StrIs(<<Q, BS, 117, 100, 56, 51, 100, BS, 117, 100, 101, 48, 48, Q>>, <<240, 159, 152, 128>>)
  /\ StrIs(<<Q, BS, 117, 48, 48, 48, 48, Q>>, <<0>>)
  /\ StrIs(<<Q, 127, 195, 169, Q>>, <<127, 195, 169>>)                    \* raw DEL and raw UTF-8 pass through
  \* unpaired surrogates are flagged
  /\ P(<<Q, BS, 117, 100, 56, 48, 48, Q>>).ok /\ P(<<Q, BS, 117, 100, 56, 48, 48, Q>>).q
  /\ P(<<Q, BS, 117, 100, 99, 48, 48, Q>>).q /\ P(<<Q, BS, 117, 100, 56, 48, 48, BS, 117, 48, 48, 52, 49, Q>>).q
  \* invalid strings
  /\ ~P(<<Q, 1, Q>>).ok /\ ~P(<<Q, 10, Q>>).ok /\ ~P(<<Q, 31, Q>>).ok /\ P(<<Q, 32, Q>>).ok
  /\ ~P(<<Q, BS, 120, 52, 49, Q>>).ok /\ ~P(<<Q, BS, 117, 49, 50, Q>>).ok /\ ~P(<<Q, BS, 117, 49, 50, 71, 52, Q>>).ok
  /\ ~P(<<Q, BS, Q>>).ok /\ ~P(<<Q>>).ok /\ ~P(<<39, 97, 39>>).ok /\ ~P(<<Q, BS, 85, 48, 48, 48, 48, 48, 48, 52, 49, Q>>).ok
  \* UTF-8
  /\ UTF8Enc(127) = <<127>> /\ UTF8Enc(128) = <<194, 128>> /\ UTF8Enc(2047) = <<223, 191>> /\ UTF8Enc(2048) = <<224, 160, 128>>
  /\ UTF8Enc(65535) = <<239, 191, 191>> /\ UTF8Enc(65536) = <<240, 144, 128, 128>> /\ UTF8Enc(1114111) = <<244, 143, 191, 191>>
  /\ \A cp \in {0, 65, 127, 128, 233, 2047, 2048, 8364, 55295, 57344, 65533, 65535, 65536, 128512, 1114111} : ValidUTF8(UTF8Enc(cp))
  /\ ~ValidUTF8(<<192, 175>>) /\ ~ValidUTF8(<<193, 191>>) /\ ~ValidUTF8(<<224, 159, 191>>) /\ ~ValidUTF8(<<237, 160, 128>>)
  /\ ~ValidUTF8(<<240, 143, 191, 191>>) /\ ~ValidUTF8(<<244, 144, 128, 128>>) /\ ~ValidUTF8(<<245, 128, 128, 128>>)
  /\ ~ValidUTF8(<<128>>) /\ ~ValidUTF8(<<195>>) /\ ~ValidUTF8(<<226, 130>>) /\ ~ValidUTF8(<<255>>) /\ ValidUTF8(<<>>)
  \* literals, whitespace set, nothing after the value
  /\ P(<<110, 117, 108, 108>>).v.t = "null" /\ P(<<116, 114, 117, 101>>).v.b /\ ~P(<<102, 97, 108, 115, 101>>).v.b
  /\ ~P(<<110, 117, 108>>).ok /\ ~P(<<110, 117, 108, 108, 108>>).ok /\ ~P(<<84, 114, 117, 101>>).ok
  /\ P(<<32, 9, 10, 13, 49, 32, 9, 10, 13>>).ok /\ ~P(<<12, 49>>).ok /\ ~P(<<11, 49>>).ok /\ ~P(<<49, 0>>).ok
  /\ ~P(<<194, 160, 49>>).ok /\ ~P(<<239, 187, 191, 49>>).ok /\ ~P(<<>>).ok /\ ~P(<<32>>).ok
  /\ ~P(<<49, 32, 50>>).ok /\ ~P(<<91, 93, 93>>).ok /\ ~P(<<123, 125, 32, 120>>).ok
  \* objects keep every member in order (the relations choose the last for a repeated name)
  /\ LET o == P(<<123, Q, 97, Q, 58, 49, 44, Q, 97, Q, 58, 50, 125>>).v
     IN o.t = "obj" /\ Len(o.v) = 2 /\ o.v[1].k = <<97>> /\ HasDupKeys(o) /\ LastIdx(o, <<97>>) = 2
  \* relations: nearest binary64 of 0.1 is 0x3FB999999999999A; 1e400 has no finite nearest
  /\ Decoded(P(<<48, 46, 49>>).v, [t |-> "float", s |-> 0, e |-> 1019, m |-> <<6554, 13107, 26214, 76>>])
  /\ ~Decoded(P(<<48, 46, 49>>).v, [t |-> "float", s |-> 0, e |-> 1019, m |-> <<6553, 13107, 26214, 76>>])
  /\ Decoded(P(<<49, 101, 53>>).v, [t |-> "big", neg |-> FALSE, m |-> <<1696, 3>>])          \* 1e5 read as the int 100000
  /\ HasHugeNumber(P(<<91, 49, 101, 52, 48, 48, 93>>).v) /\ ~HasHugeNumber(P(<<49, 101, 51, 48, 56>>).v)

Inv == CASE mode = "num" -> NumOK
         [] mode = "struct" -> StructOK
         [] mode = "misc" -> Misc
         [] OTHER -> TRUE
=============================================================================
