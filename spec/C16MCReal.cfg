CONSTANTS
  PW = 4
  LW = 5
  CW = 6
  MaxRows = 2
  DPc = {1, 14, 15, 16, 17, 30, 31, 45, 46, 5000, 20001}
  DLine <- RealDL
  DCol <- RealDC
  Line0 = 100050
  Col0 = 10070
  Greedy = FALSE
INIT Init
NEXT Next
INVARIANTS RoundTrip WordsFit Shape GreedyEq LookupOK LookupNone
POSTCONDITION Done
