CONSTANTS
  PW = 4
  LW = 5
  CW = 6
  MaxRows = 2
  DPc1 = {0, 1, 14, 15, 16, 17, 30, 31, 45, 46, 1000}
  DLine1 <- RealDL
  DCol1 <- RealDC
  DPc2 = {1, 16}
  DLine2 <- RealDL2
  DCol2 <- RealDC2
  Line0 = 1050
  Col0 = 1070
  Greedy = TRUE
INIT Init
NEXT Next
INVARIANTS RoundTrip WordsFit Shape GreedyEq LookupOK LookupNone
POSTCONDITION Done
