------------------------------ MODULE C09Trace ------------------------------
(***************************************************************************)
(* Record validation for C09 (code -> spec).  One record = one program     *)
(* text (its tree from the real parser) with one observation of the real   *)
(* front end per FileOptions vector:                                       *)
(*   r.parse_ok, r.ast, r.pre (predeclared names), r.pl = [rule, p] the    *)
(*   planted construct (rule "none" when nothing is planted),              *)
(*   r.obs[j] = [n (unique number of the observation), m (options as a bit *)
(*   mask), errs (the                                                      *)
(*   complete resolve.ErrorList as [cls, p]), static / ok / evalerr        *)
(*   (outcome of ExecFileOptions), compiled (SourceProgramOptions returned *)
(*   a Program), effects (host calls made), globals, panic, active (the    *)
(*   generator's own expectation about the planted construct)].            *)
(* Resolve!StaticErrors is the oracle.                                     *)
(***************************************************************************)
EXTENDS Resolve, TLC, Json, IOUtils

Recs == ndJsonDeserialize(IOEnv.VERIF_RECS)
Relax == "VERIF_C09_RELAX" \in DOMAIN IOEnv /\ IOEnv.VERIF_C09_RELAX = "1"
VARIABLE recno

Match(e, v) == v.rule = e.cls /\ e.p \in v.at

\* option vector of a bit mask: 1 Set, 2 While, 4 TopLevelControl, 8 GlobalReassign,
\* 16 LoadBindsGlobally, 32 Recursion (Recursion has no static effect)
Bit(m, b) == (m \div b) % 2 = 1
OptsOf(m) == [Set |-> Bit(m, 1), While |-> Bit(m, 2), TopLevelControl |-> Bit(m, 4), GlobalReassign |-> Bit(m, 8),
              LoadBindsGlobally |-> Bit(m, 16), Recursion |-> Bit(m, 32)]

\* SE = the oracle's verdict for (r.ast, options of o)
ObsGood(r, o, SE) ==
  LET errs == RangeOf(o.errs)
      P    == {v \in SE : v.rule = r.pl.rule /\ r.pl.p \in v.at}
  IN \* rejected exactly when a rule is broken
     /\ (errs # {}) <=> (SE # {})
     \* every reported error is a violation of the reported kind at the reported place
     /\ \A e \in errs : \E v \in SE : Match(e, v)
     \* the planted violation is reported where it was planted
     /\ P # {} => \E e \in errs : \E v \in P : Match(e, v)
     \* the whole pipeline agrees with the error list, and nothing ran before a rejection
     /\ o.static <=> (errs # {})
     /\ o.static => o.effects = 0 /\ ~o.ok /\ ~o.evalerr /\ ~o.compiled
     \* a program that breaks no rule compiles and starts running
     \* (r.fx: the program's first statement is a host call)
     /\ ~o.static => o.compiled /\ (o.ok \/ o.evalerr) /\ (r.fx => o.effects >= 1)
     /\ ~o.panic
     \* load binds module globals exactly when LoadBindsGlobally
     /\ o.ok => \A n \in OnlyLoaded(r.ast) : (n \in RangeOf(o.globals)) <=> Bit(o.m, 16)

\* a text the parser rejects is rejected statically, whatever the options
ParseRejected(o) == o.static /\ o.effects = 0 /\ ~o.ok /\ ~o.evalerr /\ ~o.compiled /\ ~o.panic

\* generator self-check (machinery): the planted construct is a violation exactly when the
\* generator's table says so
ObsMach(r, o, SE) ==
  r.pl.rule = "none" \/ ((\E v \in SE : v.rule = r.pl.rule /\ r.pl.p \in v.at) <=> o.active)

\* why an observation was rejected (first failing requirement), for the report
Diag(r, o, SE) ==
  LET errs == RangeOf(o.errs)
      P    == {v \in SE : v.rule = r.pl.rule /\ r.pl.p \in v.at}
      stray == {e \in errs : ~\E v \in SE : Match(e, v)}
  IN IF errs = {} /\ SE # {} THEN <<"accepted", {v.rule : v \in SE}>>
     ELSE IF errs # {} /\ SE = {} THEN <<"rejected-valid", {e.cls : e \in errs}>>
     ELSE IF stray # {} THEN <<"misreported", {e.cls : e \in stray}>>
     ELSE IF P # {} /\ ~\E e \in errs : \E v \in P : Match(e, v) THEN <<"unreported", {r.pl.rule}>>
     ELSE IF o.static /\ o.effects > 0 THEN <<"ran-before-rejection", {}>>
     ELSE IF o.panic THEN <<"panic", {}>>
     ELSE IF o.ok /\ \E n \in OnlyLoaded(r.ast) : (n \in RangeOf(o.globals)) # Bit(o.m, 16) THEN <<"load-globals", {}>>
     ELSE <<"pipeline", {}>>

CheckRec(r) ==
  IF ~r.parse_ok THEN \A j \in DOMAIN r.obs : ParseRejected(r.obs[j]) \/ PrintT(<<"BAD", r.obs[j].n>>)
  ELSE \* one evaluation of the oracle per distinct static option vector of the record
       LET T == [k \in {r.obs[j].m % 32 : j \in DOMAIN r.obs} |->
                   StaticErrorsV(r.ast, OptsOf(k), RangeOf(r.pre), Relax)]
       IN \A j \in DOMAIN r.obs :
            LET o == r.obs[j] IN
            /\ ObsGood(r, o, T[o.m % 32]) \/ PrintT(<<"BAD", o.n>> \o Diag(r, o, T[o.m % 32]))
            /\ Relax \/ ObsMach(r, o, T[o.m % 32]) \/ PrintT(<<"BAD", 0 - o.n>>)

K == 64
\* one trivial initial state: all evaluation happens in the workers (large stacks)
Init == recno = 0
Next == IF recno = 0 THEN recno' \in 1..(IF Len(Recs) < K THEN Len(Recs) ELSE K)
        ELSE recno + K <= Len(Recs) /\ recno' = recno + K
Check == recno = 0 \/ CheckRec(Recs[recno])
Done == PrintT(<<"CHECKED", TLCGet("stats").distinct - 1>>)
=============================================================================
