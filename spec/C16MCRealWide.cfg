CONSTANTS
  PW = 4
  LW = 5
  CW = 6
  MaxRows = 2
  DPc1 = {1, 20001}
  DLine1 <- WideDL
  DCol1 <- WideDC
  DPc2 = {16}
  DLine2 <- WideDL2
  DCol2 <- WideDC2
  Line0 = 100050
  Col0 = 10070
  Greedy = FALSE
INIT Init
NEXT Next
INVARIANTS RoundTrip WordsFit Shape GreedyEq LookupOK LookupNone
POSTCONDITION Done
