------------------------------ MODULE C14Trace ------------------------------
(***************************************************************************)
(* C14 part (b), code -> spec: every record is one literal text scanned by *)
(* the real scanner (vh c14-lits, or the literals met while parsing the    *)
(* generated trees) with the token kind and value it produced, or the      *)
(* error.  The oracle is Unquote (string / bytes literals) and the numeric *)
(* literal grammar with BitInt!FromDigits and Float64!IsNearestDec.        *)
(*   record: [id, cat \in {"str","num"}, lit (byte codes),                 *)
(*            res = [ok, kind, v] | [ok |-> FALSE, pos (error positioned)]]*)
(* Tolerated (not judged, see the check's notes): "00..0" read as 0 or     *)
(* rejected; a float literal whose value rounds to infinity rejected.      *)
(***************************************************************************)
EXTENDS Unquote, Float64, Json, IOUtils, TLC

Recs == ndJsonDeserialize(IOEnv.VERIF_RECS)
VARIABLE i

Rejected(r) == ~r.res.ok /\ r.res.pos

Good(r) ==
  IF r.cat = "str" THEN
    LET e == StrLit(r.lit) IN
    IF e.ok THEN /\ r.res.ok
                 /\ r.res.kind = (IF e.bytes THEN "bytes" ELSE "string")
                 /\ r.res.v = e.v
    ELSE Rejected(r)
  ELSE
    LET e == NumLit(r.lit) IN
    IF ~e.ok THEN Rejected(r)
    ELSE IF e.kind = "int" THEN
      IF e.zeros THEN Rejected(r) \/ (r.res.ok /\ r.res.kind = "int" /\ r.res.v.m = <<>>)
      ELSE /\ r.res.ok
           /\ r.res.kind = "int"
           /\ IEq(FromDigits(FALSE, e.digits, e.base), r.res.v)
    ELSE IF r.res.ok THEN r.res.kind = "float" /\ IsNearestDec(r.res.v, FALSE, e.digits, e.e10)
    ELSE Rejected(r) /\ IsNearestDec(PosInf, FALSE, e.digits, e.e10)

K == 64
Init == i \in 1..(IF Len(Recs) < K THEN Len(Recs) ELSE K)
Next == i + K <= Len(Recs) /\ i' = i + K
Check == Good(Recs[i]) \/ PrintT(<<"BAD", Recs[i].id>>)
Done == PrintT(<<"CHECKED", TLCGet("stats").distinct>>)
=============================================================================
