------------------------------- MODULE C06MC -------------------------------
(***************************************************************************)
(* Scenario machine for C06: every behaviour is one abstract program that  *)
(* iterates collection X (optionally nested with a second loop over X or   *)
(* Y), attempts a mutation of a target at a chosen moment, and leaves by a *)
(* chosen exit path.  The Mutability protocol decides what each attempt    *)
(* must do (fail iff the target is being iterated) and what must hold when *)
(* the outermost call has returned.  TLC checks the protocol invariants on *)
(* every behaviour and emits every finished scenario with its expected     *)
(* observations; the harness renders each scenario with every concrete     *)
(* construct of its class and compares (spec -> code).                     *)
(*                                                                         *)
(* construct classes (how the language definition orders iteration and     *)
(* body):  "loop"  for statement in a function: body runs during iteration *)
(*         "comp"  comprehension clause: body runs during iteration        *)
(*         "cb"    built-in that calls back (key=, Hash, Truth, compare)   *)
(*                 while it iterates; the built-in has its own frame       *)
(*         "pre"   the iteration is complete before the body runs          *)
(*                 (star-args expansion, sequence assignment)                  *)
(*         "go"    Go push iterator / Iterate used by host code            *)
(***************************************************************************)
EXTENDS Mutability, Json

VARIABLES sc, phase, exp, attempted
vars == <<frozen, iters, frames, sc, phase, exp, attempted>>

Classes == {"loop", "comp", "cb", "pre", "go"}
Nests   == {"none", "same", "other"}
Targets == {"X", "Y"}
Exits(c) == CASE c = "loop" -> {"exhaust", "break", "return", "err", "panic", "callerr", "cancel"}
              [] c = "comp" -> {"exhaust", "err", "panic", "callerr", "cancel"}
              [] c = "cb"   -> {"exhaust", "err", "panic"}
              [] c = "pre"  -> {"exhaust", "err"}
              [] c = "go"   -> {"exhaust", "break", "panic"}

Scenarios == {s \in [cls : Classes, nest : Nests, tgt : Targets, exit : {"exhaust", "break", "return", "err", "panic", "callerr", "cancel"}, fz : BOOLEAN] :
                /\ s.exit \in Exits(s.cls)
                /\ (s.nest # "none" => s.cls \in {"loop", "comp"})}

Init == /\ MInit
        /\ sc \in Scenarios
        /\ phase = "start" /\ exp = <<>> /\ attempted = FALSE

Obj(t) == t   \* targets are the objects "X" and "Y"

Start == /\ phase = "start"
         /\ FramePush
         /\ phase' = IF sc.fz THEN "freeze" ELSE "begin"
         /\ UNCHANGED <<sc, exp, attempted>>

\* optionally the iterated collection was frozen beforehand: iteration must still work,
\* every mutation fails, nothing is counted
FreezeFirst == /\ phase = "freeze" /\ Freeze("X") /\ phase' = "begin" /\ UNCHANGED <<sc, exp, attempted>>

BuiltinFrame == /\ phase = "begin" /\ sc.cls \in {"cb", "go"} /\ Len(frames) = 1
                /\ FramePush /\ UNCHANGED <<sc, phase, exp, attempted>>

Begin == /\ phase = "begin"
         /\ (sc.cls \in {"cb", "go"} => Len(frames) = 2)
         /\ IterBegin("X")
         /\ phase' = IF sc.nest = "none" THEN (IF sc.cls = "pre" THEN (IF sc.exit = "err" THEN "preerr" ELSE "predone") ELSE "body") ELSE "nest"
         /\ UNCHANGED <<sc, exp, attempted>>

\* class "pre" with a failing iteration (wrong number of values): the error unwinds, no body runs
PreErr == /\ phase = "preerr" /\ Unwind /\ phase' = "done" /\ UNCHANGED <<sc, exp, attempted>>

Nest == /\ phase = "nest"
        /\ IterBegin(IF sc.nest = "same" THEN "X" ELSE "Y")
        /\ phase' = "body" /\ UNCHANGED <<sc, exp, attempted>>

\* class "pre": the operand is consumed completely before the body can run
PreDone == /\ phase = "predone" /\ IterEnd /\ phase' = "body" /\ UNCHANGED <<sc, exp, attempted>>

\* the body attempts a mutation of the target: the protocol says whether it must fail
Attempt == /\ phase = "body" /\ ~attempted
           /\ exp' = Append(exp, [tgt |-> sc.tgt, fails |-> MutationFails(Obj(sc.tgt))])
           /\ attempted' = TRUE
           /\ UNCHANGED <<frozen, iters, frames, sc, phase>>

\* after the loops of the function have ended normally, still inside the function, the
\* collections must be mutable again at once
After == /\ phase = "after"
         /\ exp' = Append(exp, [tgt |-> "X", fails |-> MutationFails("X")])
         /\ phase' = "ret"
         /\ UNCHANGED <<frozen, iters, frames, sc, attempted>>
Ret == /\ phase = "ret" /\ FramePop /\ phase' = "done" /\ UNCHANGED <<sc, exp, attempted>>

Leave == /\ phase = "body" /\ attempted
         /\ CASE sc.exit \in {"exhaust", "break"} ->
                   IF frames[Len(frames)] # <<>> THEN IterEnd /\ phase' = "body"
                   ELSE IF Len(frames) = 1 THEN UNCHANGED <<frozen, iters, frames>> /\ phase' = "after"
                   ELSE FramePop /\ phase' = "body"
              [] sc.exit = "return" -> FramePop /\ phase' = "done"
              [] OTHER -> Unwind /\ phase' = "done"      \* err, callerr, panic, cancel
         /\ UNCHANGED <<sc, exp, attempted>>

Next == Start \/ FreezeFirst \/ BuiltinFrame \/ Begin \/ Nest \/ PreDone \/ PreErr \/ Attempt \/ Leave \/ After \/ Ret

\* properties of the protocol on every behaviour
Inv == CountsExact /\ NonNegative /\ Quiescent
DoneOK == phase = "done" => /\ frames = <<>>
                            /\ \A o \in Objs : frozen[o] \/ Mutable(o)
\* emission of finished scenarios
EmitDone == phase = "done" => PrintT("S" \o ToJson([sc |-> sc, exp |-> exp]))
=============================================================================
