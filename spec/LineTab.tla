------------------------------- MODULE LineTab -------------------------------
(***************************************************************************)
(* The table that maps a program counter to a source position, and its     *)
(* compact encoding, as DOCUMENTED for compiled functions (comments at     *)
(* Funcode / Position / decodeLNT in internal/compile/compile.go):         *)
(*                                                                         *)
(*  * conceptually the table is a sequence of rows (pc, line, col) sorted  *)
(*    by pc; the position of a program counter is that of the LAST row     *)
(*    whose pc is not greater than it;                                     *)
(*  * the rows are delta encoded, starting from (0, line0, col0), the      *)
(*    position of the function's def/lambda token;                         *)
(*  * each delta triple is packed into one word of PW + LW + CW + 1 bits:  *)
(*    an unsigned PW-bit pc delta (top bits), a signed LW-bit line delta,  *)
(*    a signed CW-bit column delta, and a low "incomplete" bit saying that *)
(*    more words follow for the same row because one of the deltas was     *)
(*    maxed out (saturated);                                               *)
(*  * the real widths are 4 / 5 / 6 (16-bit words).                        *)
(*                                                                         *)
(* This module is used (a) for the design-level check C16MC: decoding the  *)
(* encoding gives the rows back and the lookup finds the right row, for    *)
(* deltas below, at and beyond every saturation bound in both signs, and   *)
(* (b) as the vocabulary for C16's layout generator (which deltas make a   *)
(* row need continuation words).  It is never the oracle for a verdict     *)
(* about the code: positions are judged against the source text.           *)
(***************************************************************************)
EXTENDS Integers, Sequences

CONSTANTS PW, LW, CW          \* field widths in bits (pc unsigned; line, col signed)

PcMax   == 2^PW - 1
LineMin == -(2^(LW - 1))
LineMax == 2^(LW - 1) - 1
ColMin  == -(2^(CW - 1))
ColMax  == 2^(CW - 1) - 1
WordLim == 2^(PW + LW + CW + 1)

Row(pc, line, col) == [pc |-> pc, line |-> line, col |-> col]
Start(line0, col0) == Row(0, line0, col0)

Clip(x, lo, hi) == IF x > hi THEN hi ELSE IF x < lo THEN lo ELSE x
Max2(a, b) == IF a > b THEN a ELSE b
CeilDiv(a, b) == (a + b - 1) \div b          \* a >= 0, b > 0

\* ------------------------------------------------------------------ words
\* a word as a record of its fields ...
Word(dpc, dl, dc, more) == [dpc |-> dpc, dl |-> dl, dc |-> dc, more |-> more]
WordOK(w) == /\ w.dpc \in 0..PcMax /\ w.dl \in LineMin..LineMax /\ w.dc \in ColMin..ColMax /\ w.more \in {0, 1}
\* ... and as the packed unsigned integer: signed fields in two's complement
TwoC(x, n) == IF x < 0 THEN x + 2^n ELSE x
SignExt(u, n) == IF u >= 2^(n - 1) THEN u - 2^n ELSE u
Pack(w) == w.dpc * 2^(LW + CW + 1) + TwoC(w.dl, LW) * 2^(CW + 1) + TwoC(w.dc, CW) * 2 + w.more
Unpack(x) == Word(x \div 2^(LW + CW + 1),
                  SignExt((x \div 2^(CW + 1)) % 2^LW, LW),
                  SignExt((x \div 2) % 2^CW, CW),
                  x % 2)

Apply(cur, w) == Row(cur.pc + w.dpc, cur.line + w.dl, cur.col + w.dc)

\* ------------------------------------------------------------------ encoding one row
\* Greedy definition, word by word: every field moves as far towards the target as its width
\* allows; the word is marked incomplete iff the target is not reached yet.
RECURSIVE EncRowGreedy(_, _)
EncRowGreedy(cur, tgt) ==
  LET w0 == Word(Clip(tgt.pc - cur.pc, 0, PcMax), Clip(tgt.line - cur.line, LineMin, LineMax),
                 Clip(tgt.col - cur.col, ColMin, ColMax), 0)
      nxt == Apply(cur, w0)
  IN IF nxt = tgt THEN <<w0>> ELSE <<[w0 EXCEPT !.more = 1]>> \o EncRowGreedy(nxt, tgt)

\* Closed form of the same thing (used for huge deltas, where the recursion above is quadratic):
\* the j-th word carries the j-th slice of each delta.
Slice(d, lo, hi, j) ==          \* lo <= 0 <= hi, j >= 1
  IF d >= 0 THEN (IF hi = 0 THEN 0 ELSE Clip(d - (j - 1) * hi, 0, hi))
            ELSE -Clip((-d) - (j - 1) * (-lo), 0, -lo)
Need(d, lo, hi) == IF d >= 0 THEN CeilDiv(d, hi) ELSE CeilDiv(-d, -lo)
NWords(cur, tgt) ==
  Max2(1, Max2(Need(tgt.pc - cur.pc, 0, PcMax),
               Max2(Need(tgt.line - cur.line, LineMin, LineMax), Need(tgt.col - cur.col, ColMin, ColMax))))
EncRow(cur, tgt) ==
  LET k == NWords(cur, tgt) IN
  [j \in 1..k |-> Word(Slice(tgt.pc - cur.pc, 0, PcMax, j), Slice(tgt.line - cur.line, LineMin, LineMax, j),
                       Slice(tgt.col - cur.col, ColMin, ColMax, j), IF j < k THEN 1 ELSE 0)]

\* ------------------------------------------------------------------ whole tables
\* rows must be sorted by strictly increasing pc (one row per instruction that has a position)
Sorted(rows) == \A i \in 1..Len(rows) - 1 : rows[i].pc < rows[i + 1].pc
RECURSIVE EncFrom(_, _, _)
EncFrom(cur, rows, i) ==
  IF i > Len(rows) THEN <<>> ELSE EncRow(cur, rows[i]) \o EncFrom(rows[i], rows, i + 1)
\* the encoded table: a sequence of packed words
Encode(start, rows) == LET ws == EncFrom(start, rows, 1) IN [i \in 1..Len(ws) |-> Pack(ws[i])]

\* Decoding accumulates the deltas and emits a row at every complete word: the k-th row is the start
\* position plus the sum of the deltas of all words up to and including the k-th complete word.
\* (The sums are written as balanced recursions: TLC evaluates them in logarithmic stack depth.)
ZeroD == [dpc |-> 0, dl |-> 0, dc |-> 0]
RECURSIVE DSum(_, _, _)
DSum(xs, lo, hi) ==          \* componentwise sum of the deltas of the words xs[lo..hi]
  IF lo > hi THEN ZeroD
  ELSE IF lo = hi THEN LET w == Unpack(xs[lo]) IN [dpc |-> w.dpc, dl |-> w.dl, dc |-> w.dc]
  ELSE LET mid == (lo + hi) \div 2 x == DSum(xs, lo, mid) y == DSum(xs, mid + 1, hi) IN
       [dpc |-> x.dpc + y.dpc, dl |-> x.dl + y.dl, dc |-> x.dc + y.dc]
CompleteAt(xs) == SelectSeq([i \in 1..Len(xs) |-> i], LAMBDA i : Unpack(xs[i]).more = 0)
RECURSIVE DecRows(_, _, _, _, _)
DecRows(cur, xs, ends, k, acc) ==
  IF k > Len(ends) THEN acc
  ELSE LET d == DSum(xs, (IF k = 1 THEN 1 ELSE ends[k - 1] + 1), ends[k])
           nxt == Row(cur.pc + d.dpc, cur.line + d.dl, cur.col + d.dc)
       IN DecRows(nxt, xs, ends, k + 1, Append(acc, nxt))
Decode(start, xs) == DecRows(start, xs, CompleteAt(xs), 1, <<>>)

\* ------------------------------------------------------------------ lookup
\* index of the last row whose pc is not greater than pc (0 if there is none)
LookupIdx(rows, pc) ==
  IF \E i \in 1..Len(rows) : rows[i].pc <= pc
  THEN CHOOSE i \in 1..Len(rows) : rows[i].pc <= pc /\ \A j \in (i + 1)..Len(rows) : rows[j].pc > pc
  ELSE 0
Lookup(rows, pc) == LET i == LookupIdx(rows, pc) IN IF i = 0 THEN Row(pc, 0, 0) ELSE [rows[i] EXCEPT !.pc = pc]

\* the documented binary search "find the last entry not greater than pc" over the interval [lo, hi) of
\* 0-based indexes, with the predicate  ~(h < n-1 /\ rows[h+1].pc <= pc)
RECURSIVE BSearch(_, _, _, _)
BSearch(rows, pc, lo, hi) ==
  IF lo >= hi THEN lo
  ELSE LET h == (lo + hi) \div 2 n == Len(rows) IN
       IF ~(h >= n - 1 \/ rows[h + 2].pc > pc) THEN BSearch(rows, pc, h + 1, hi) ELSE BSearch(rows, pc, lo, h)
BSearchIdx(rows, pc) == BSearch(rows, pc, 0, Len(rows)) + 1        \* 1-based; Len(rows) + 1 never happens for non-empty tables
=============================================================================
