----------------------------- MODULE CrashDomain -----------------------------
(***************************************************************************)
(* C02 "no program or built-in call can crash the host process".           *)
(*                                                                         *)
(* This module DECLARES the finite domains the property is explored on.    *)
(* The three machines C02MCCalls, C02MCGraph and C02MCSrc enumerate them   *)
(* with TLC and emit every case; the harness (vh c02-run) materialises     *)
(* each case against the real code in a child process.  The oracle of the  *)
(* property is the weakest possible one,                                   *)
(*                                                                         *)
(*     Outcome(case) \in {"value", "error"}  within the step budget        *)
(*                                                                         *)
(* i.e. never a Go panic, never a fatal runtime error (stack exhaustion,   *)
(* nil dereference, out-of-range), never more steps than the budget, never *)
(* a computation that does not come back.  Where the language definition   *)
(* (doc/spec.md) fixes the result class, the machines also predict it.     *)
(*                                                                         *)
(* Nothing here is derived from the Go code: the list of CALLABLES is read *)
(* from the build under test at run time (vh c02-callables), so that a new *)
(* built-in is covered without touching the specification.                 *)
(***************************************************************************)
EXTENDS Integers, Sequences, FiniteSets, TLC

(***************************************************************************)
(* 1. The argument pool: CODES of edge-case values.  The harness builds a  *)
(* fresh value for every occurrence of a code (harness/cmd/vh/c02.go).     *)
(*   i2pN / im2pN   = 2^N / -2^N;  i2p63m1 = 2^63-1                        *)
(*   f0 fm0 f1p5 finf fminf fnan : 0.0 -0.0 1.5 +inf -inf nan              *)
(*   s_empty s_a s12 ("hello, world") s40 (40 decimal digits)              *)
(*   s_bad (invalid UTF-8)  s_fmt (a string full of format directives)     *)
(*   b_empty b_ab (bytes)   l_* lists  t_* tuples  d_* dicts  set_* sets   *)
(*   *_frozen  frozen collections;  l_self = [1, l_self];  d_self = {"a": d_self} *)
(*   l_nest  a list of pairs / nested lists                                *)
(*   r10 = range(10);  r_huge = range(2^62)                                *)
(*   lam = lambda *a, **k: None;  blt = the built-in len;  strct = struct(a=1, b=[2]) *)
(*   h_iter = a host iterable that yields 1, h_bad, 2 (consumers fail midway) *)
(*   h_iter1 = a host iterable of unknown length that yields one element    *)
(*   h_bad  = a host value whose Hash and comparison report errors, truth False *)
(*   tm / dur = a time.time and a time.duration value                      *)
(***************************************************************************)
Pool == << "none", "true", "false",
           "i0", "i1", "im1", "i2p31", "im2p31", "i2p62", "im2p62", "i2p63m1", "i2p63", "im2p63",
           "i2p64", "im2p64", "i2p200",
           "f0", "fm0", "f1p5", "finf", "fminf", "fnan",
           "s_empty", "s_a", "s12", "s40", "s_bad", "s_fmt", "b_empty", "b_ab",
           "l_empty", "l_123", "l_frozen", "l_self", "l_nest", "t_empty", "t_12",
           "d_empty", "d_ab", "d_frozen", "d_self", "set_empty", "set_12", "set_frozen",
           "r10", "r_huge", "lam", "blt", "strct", "h_iter", "h_iter1", "h_bad", "tm", "dur" >>
P == Len(Pool)
PoolIx == 1..P
Idx(code) == CHOOSE i \in PoolIx : Pool[i] = code

\* the 11-value sub-pool of the quick tier (arity 2) and of the keyword forms
SubPool == << "none", "i0", "im1", "i2p62", "s_a", "l_123", "l_self", "d_ab", "r_huge", "h_bad", "h_iter1" >>
SubIx == {Idx(SubPool[i]) : i \in 1..Len(SubPool)}

\* the 23-value pool of the arity-3 covering array of the thorough tier: one or two values per type
MidPool == << "none", "true", "i0", "im1", "i2p31", "i2p63", "im2p64", "f1p5", "fnan", "s_empty", "s12", "s_bad", "b_ab",
              "l_123", "l_self", "t_12", "d_ab", "d_self", "set_12", "r_huge", "lam", "h_iter", "h_bad" >>

\* Values whose complete iteration is not feasible.  A built-in that walks such a value to
\* its end without consulting the step budget "does not come back": the property is
\* violated (class "hang"); the driver reports all of them under one signature.
Unbounded == {"r_huge"}

\* receivers of the methods of each receiver type ("-" = the callable is not a method)
Receivers(g) ==
  CASE g = "string"   -> << "s_empty", "s_a", "s12", "s40", "s_bad", "s_fmt" >>
    [] g = "bytes"    -> << "b_empty", "b_ab" >>
    [] g = "list"     -> << "l_empty", "l_123", "l_frozen", "l_self" >>
    [] g = "dict"     -> << "d_empty", "d_ab", "d_frozen", "d_self" >>
    [] g = "set"      -> << "set_empty", "set_12", "set_frozen" >>
    [] g = "timeval"  -> << "tm" >>
    [] g = "duration" -> << "dur" >>
    [] OTHER          -> << "-" >>

\* further receivers of single methods: replacement-field numbers at and beyond the int64 boundary for str.format
\* (s_fmt63 = "{9223372036854775808}", s_fmt19 = "{9999999999999999999}", s_fmt20 = "{18446744073709551616}")
ExtraReceivers(g, n) == IF g = "string" /\ n = "format" THEN << "s_fmt63", "s_fmt19", "s_fmt20" >> ELSE << >>
RecvOf(g, n) == Receivers(g) \o ExtraReceivers(g, n)

\* keyword names: the parameter names doc/spec.md and the library documentation give to
\* built-ins, plus a name nobody accepts and the empty name
KwNames == << "x", "key", "reverse", "sep", "base", "default", "start", "step", "name", "iterable",
              "indent", "prefix", "year", "month", "day", "hour", "minute", "second", "nanosecond",
              "location", "format", "a", "" >>

(***************************************************************************)
(* 1b. Operators.  Indexing, slicing, the binary / unary / augmented       *)
(* operators, attribute access and the assignment forms are syntax, not    *)
(* built-in calls; they are explored as PSEUDO-CALLABLES over the same     *)
(* pool: a form is the text of an expression or statement over the         *)
(* variables x, y, z, w; the harness compiles `def f(x, y, z, w)` around   *)
(* it once and calls it with freshly materialised operands.                *)
(*                                                                         *)
(* Extra operand codes: small ints (i2 im2 i5 im5 i100 im100), receivers   *)
(* of length 3 and 0 for every sequence type (s_abc b_abc t_123 r3 r0),    *)
(* % format strings (s_pct "%s %d %r %x %c %%", s_pct1 "%d",               *)
(* s_pctmap "%(a)s %(b)r").  SYMBOLIC index codes are resolved against the *)
(* length n of the first operand (3 if it has none): ix_len = n,           *)
(* ix_lenm1 = n-1, ix_mlen = -n, ix_mlen1 = -n-1, ix_mlen2 = -n-2.         *)
(***************************************************************************)
OpsExtra == << "i2", "im2", "i5", "im5", "i100", "im100", "s_abc", "b_abc", "t_123", "r0", "r3",
               "s_pct", "s_pct1", "s_pctmap" >>
IxSym    == << "ix_len", "ix_lenm1", "ix_mlen", "ix_mlen1", "ix_mlen2" >>
Codes    == Pool \o OpsExtra \o IxSym                 \* every operand code; cases carry indices into it
CodeIx(c) == CHOOSE i \in 1..Len(Codes) : Codes[i] = c
OperandCodes == Pool \o OpsExtra                      \* what x, y, z may be (no symbolic index)

\* index codes: None, 0, +-1, +-2, len, len-1, -len, -len-1, -len-2, +-5, +-100, +-2^31, +-2^62, 2^64
IxCodes == << "none", "i0", "i1", "im1", "i2", "im2", "ix_len", "ix_lenm1", "ix_mlen", "ix_mlen1", "ix_mlen2",
              "i5", "im5", "i100", "im100", "i2p31", "im2p31", "i2p62", "im2p62", "i2p64" >>
\* operands that are no index at all
IxJunk == << "f1p5", "s_a", "true", "h_bad" >>
\* quick tier: receivers of length 0 and 3 of every sequence type, a dict and None
RecvSmall == << "s_empty", "s_abc", "b_empty", "b_abc", "l_empty", "l_123", "t_empty", "t_123", "r0", "r3", "d_ab", "none" >>
\* receivers of the assignment forms: mutable, frozen, self-containing, and values that reject assignment
RecvMut == << "l_empty", "l_123", "l_frozen", "l_self", "d_empty", "d_ab", "d_frozen", "d_self", "t_12", "s_a", "strct", "none" >>
FmtStrings == << "s_fmt", "s_pct", "s_pct1", "s_pctmap", "s_a", "b_ab" >>

BinOpToks == << "+", "-", "*", "/", "//", "%", "&", "|", "^", "<<", ">>", "==", "!=", "<", "<=", ">", ">=",
                "in", "not in", "and", "or" >>
AugOpToks == << "+=", "-=", "*=", "/=", "//=", "%=", "&=", "|=", "^=", "<<=", ">>=" >>
UnOpToks  == << "+", "-", "~", "not " >>
AttrToks  == << "append", "keys", "add", "a", "b", "f", "year", "hours", "elems", "missing" >>

\* a form: name, the text over x y z w, statement or expression, and the tag of its operand domain
OpForm(name, src, stmt, dom) == [name |-> name, src |-> src, stmt |-> stmt, dom |-> dom]
OpForms ==
  << OpForm("index", "x[y]", FALSE, "index"),
     OpForm("slice2", "x[y:z]", FALSE, "slice2"),
     OpForm("slice3", "x[y:z:w]", FALSE, "slice3"),
     OpForm("setindex", "x[y] = z", TRUE, "set3"),
     OpForm("augindex", "x[y] += z", TRUE, "set3"),
     OpForm("setfield", "x.a = y", TRUE, "setf"),
     OpForm("augfield", "x.a += y", TRUE, "setf"),
     OpForm("fmt", "x % y", FALSE, "fmt"),
     OpForm("call", "x(y)", FALSE, "pair"),
     OpForm("callstar", "len(*x)", FALSE, "one"),
     OpForm("callkw", "dict(**x)", FALSE, "one"),
     OpForm("unpack", "y, z = x", TRUE, "one"),
     OpForm("for", "for y in x: pass", TRUE, "one"),
     OpForm("comp", "[y for y in x]", FALSE, "one"),
     OpForm("cond", "y if x else z", FALSE, "one") >>
  \o [i \in 1..Len(BinOpToks) |-> OpForm("bin:" \o BinOpToks[i], "x " \o BinOpToks[i] \o " y", FALSE, "pair")]
  \o [i \in 1..Len(AugOpToks) |-> OpForm("aug:" \o AugOpToks[i], "x " \o AugOpToks[i] \o " y", TRUE, "pair")]
  \o [i \in 1..Len(UnOpToks)  |-> OpForm("un:" \o UnOpToks[i], UnOpToks[i] \o "x", FALSE, "one")]
  \o [i \in 1..Len(AttrToks)  |-> OpForm("attr:" \o AttrToks[i], "x." \o AttrToks[i], FALSE, "one")]

\* the kind of an operand code (used in the signatures of findings)
KindOf(c) ==
  CASE c \in {"none"} -> "None" [] c \in {"true", "false"} -> "bool"
    [] c \in {"i0", "i1", "im1", "i2", "im2", "i5", "im5", "i100", "im100", "i2p31", "im2p31", "i2p62", "im2p62", "i2p63m1",
              "i2p63", "im2p63", "i2p64", "im2p64", "i2p200"} -> "int"
    [] c \in {"f0", "fm0", "f1p5", "finf", "fminf", "fnan"} -> "float"
    [] c \in {"s_empty", "s_a", "s12", "s40", "s_bad", "s_fmt", "s_abc", "s_pct", "s_pct1", "s_pctmap"} -> "string"
    [] c \in {"b_empty", "b_ab", "b_abc"} -> "bytes"
    [] c \in {"l_empty", "l_123", "l_frozen", "l_self", "l_nest"} -> "list"
    [] c \in {"t_empty", "t_12", "t_123"} -> "tuple"
    [] c \in {"d_empty", "d_ab", "d_frozen", "d_self"} -> "dict"
    [] c \in {"set_empty", "set_12", "set_frozen"} -> "set"
    [] c \in {"r10", "r_huge", "r0", "r3"} -> "range"
    [] c \in {"lam", "blt"} -> "function" [] c = "strct" -> "struct"
    [] c \in {"h_iter", "h_iter1", "h_bad"} -> "host" [] c \in {"tm", "dur"} -> "time"
    [] OTHER -> "index"

(***************************************************************************)
(* 2. Value graphs: node kinds, how each kind gets its out-edges, and the  *)
(* operations applied to every node of every graph.                        *)
(*   list, dict, closure : created empty; edges are added LATER            *)
(*        (l.append(n), d["e"] = n, assignment to the captured variable),  *)
(*        so every cycle runs through at least one of them                 *)
(*   tuple, struct, default (a function with a parameter default),         *)
(*   bound (a bound method of a list or dict): ONE child fixed at creation *)
(* Edge kinds: list element, dict value, captured cell, tuple element,     *)
(* struct field, parameter default, bound-method receiver.                 *)
(***************************************************************************)
LateKinds  == {"list", "dict", "closure"}
FixedKinds == {"tuple", "struct", "default", "bound"}
FnKinds    == {"closure", "default", "bound"}
\* str/repr/print/==/</json.encode descend through these edges only (a function prints
\* as its name and compares by identity)
DataKinds  == {"list", "dict", "tuple", "struct"}

\* eq: v == w for the same node of two isomorphic heaps; eqself: v == v; in: v in [w];
\* inself: w in v; hash: Value.Hash of the Go API; dictkey: {v: 1}; freeze: Value.Freeze
\* eqx / ltx / sortedx: the node against EVERY node of the isomorphic heap, both ways round (operands of different
\* shapes: a comparison of two cyclic values need not meet the same pair of nodes at the same depth)
Ops == << "type", "bool", "len", "dir", "str", "repr", "print", "eq", "eqself", "lt", "sorted",
          "in", "inself", "hash", "dictkey", "json", "eqx", "ltx", "sortedx", "freeze" >>

(***************************************************************************)
(* 3. Sources.  Predeclared names every source may use: json, math, time,  *)
(* struct, x = [1, 2, 3], c = a list that contains itself, f = a host      *)
(* function that returns its first argument (itself when called without).  *)
(* load("m", "a") succeeds, every other module fails to load.              *)
(*                                                                         *)
(* FileOptions vectors are numbers 0..63: bit 0 Set, 1 While,              *)
(* 2 TopLevelControl, 3 GlobalReassign, 4 LoadBindsGlobally, 5 Recursion.  *)
(***************************************************************************)
MaxSrc == 65536
OptVectors == 0..63

(***************************************************************************)
(* 3a. The compact grammar (syntax/grammar.txt restricted to one or two    *)
(* forms per construct).  Symbols in capitals are nonterminals.  The first *)
(* production of each nonterminal is its cheapest completion (cost 0),     *)
(* every other production costs 1 unit of the derivation budget.           *)
(* Layout pseudo tokens: NL (end of line), IN / OUT (indentation level of  *)
(* the following lines +1 / -1), HALF (shift the following lines by one    *)
(* space: an indentation that matches no enclosing block).                 *)
(***************************************************************************)
NonTerminals == {"FILE", "STMT", "SUITE", "SIMPLE", "EXPR", "ATOM", "ARGS", "PARAMS"}

Prods(nt) ==
  CASE nt = "FILE" -> << <<"STMT">>, <<"STMT", "FILE">> >>
    [] nt = "STMT" -> << <<"SIMPLE", "NL">>,
                         <<"def", "g", "(", "PARAMS", ")", ":", "SUITE">>,
                         <<"if", "EXPR", ":", "SUITE">>,
                         <<"if", "EXPR", ":", "SUITE", "else", ":", "SUITE">>,
                         <<"if", "EXPR", ":", "SUITE", "elif", "EXPR", ":", "SUITE">>,
                         <<"for", "i", "in", "EXPR", ":", "SUITE">>,
                         <<"for", "i", ",", "y", "in", "EXPR", ":", "SUITE">>,
                         <<"while", "EXPR", ":", "SUITE">> >>
    [] nt = "SUITE" -> << <<"SIMPLE", "NL">>,
                          <<"NL", "IN", "STMT", "OUT">>,
                          <<"NL", "IN", "STMT", "STMT", "OUT">> >>
    [] nt = "SIMPLE" -> << <<"pass">>,
                           <<"EXPR">>,
                           <<"y", "=", "EXPR">>,
                           <<"y", "+=", "EXPR">>,
                           <<"y", ",", "i", "=", "EXPR">>,
                           <<"x", "[", "EXPR", "]", "=", "EXPR">>,
                           <<"y", ".", "a", "=", "EXPR">>,
                           <<"return", "EXPR">>,
                           <<"return">>,
                           <<"break">>,
                           <<"continue">>,
                           <<"pass", ";", "SIMPLE">>,
                           <<"load", "(", "\"m\"", ",", "\"a\"", ")">>,
                           <<"load", "(", "\"n\"", ",", "b", "=", "\"a\"", ")">> >>
    [] nt = "EXPR" -> << <<"ATOM">>,
                         <<"ATOM", "+", "EXPR">>,
                         <<"ATOM", "*", "EXPR">>,
                         <<"ATOM", "%", "EXPR">>,
                         <<"ATOM", "//", "EXPR">>,
                         <<"ATOM", "<<", "EXPR">>,
                         <<"ATOM", "|", "EXPR">>,
                         <<"ATOM", "==", "EXPR">>,
                         <<"ATOM", "<", "EXPR">>,
                         <<"ATOM", "in", "EXPR">>,
                         <<"ATOM", "not", "in", "EXPR">>,
                         <<"ATOM", "and", "EXPR">>,
                         <<"ATOM", "or", "EXPR">>,
                         <<"ATOM", "if", "EXPR", "else", "EXPR">>,
                         <<"not", "EXPR">>,
                         <<"-", "EXPR">>,
                         <<"~", "EXPR">>,
                         <<"lambda", ":", "EXPR">>,
                         <<"lambda", "a", ",", "*", "b", ":", "EXPR">> >>
    [] nt = "ATOM" -> << <<"x">>,
                         <<"y">>, <<"i">>, <<"1">>, <<"\"s\"">>, <<"None">>,
                         <<"(", "EXPR", ")">>,
                         <<"(", "EXPR", ",", ")">>,
                         <<"[", "]">>,
                         <<"[", "EXPR", ",", "EXPR", "]">>,
                         <<"{", "EXPR", ":", "EXPR", "}">>,
                         <<"[", "EXPR", "for", "i", "in", "EXPR", "]">>,
                         <<"[", "EXPR", "for", "i", "in", "EXPR", "if", "EXPR", "]">>,
                         <<"{", "EXPR", ":", "EXPR", "for", "i", "in", "EXPR", "}">>,
                         <<"f", "(", "ARGS", ")">>,
                         <<"g", "(", "ARGS", ")">>,
                         <<"len", "(", "ARGS", ")">>,
                         <<"x", "[", "EXPR", "]">>,
                         <<"x", "[", "EXPR", ":", "EXPR", "]">>,
                         <<"x", "[", ":", ":", "EXPR", "]">>,
                         <<"y", ".", "a">>,
                         <<"\"s\"", ".", "join", "(", "ARGS", ")">> >>
    [] nt = "ARGS" -> << <<>>,
                         <<"EXPR">>,
                         <<"EXPR", ",", "EXPR">>,
                         <<"a", "=", "EXPR">>,
                         <<"*", "EXPR">>,
                         <<"**", "EXPR">>,
                         <<"EXPR", ",", "a", "=", "EXPR", ",", "*", "EXPR", ",", "**", "EXPR">> >>
    [] nt = "PARAMS" -> << <<>>,
                           <<"a">>,
                           <<"a", ",", "b", "=", "EXPR">>,
                           <<"*", "a">>,
                           <<"**", "a">>,
                           <<"a", ",", "*", ",", "b">>,
                           <<"*", "a", ",", "**", "b">> >>

\* tokens inserted by the mutation step (unbalanced brackets and indentation)
InsertToks == << "(", ")", "[", "]", "{", "}", "IN", "OUT", "HALF" >>

(***************************************************************************)
(* 3b. Stress shapes: parametrised generators.  The harness renders        *)
(*   nest   : head open^d mid close^d tail                                 *)
(*   indent : head, then d lines  (i spaces) line  for i = 0..d-1, then    *)
(*            (d spaces) body, then tail      -- indentation depth d       *)
(*   count  : head item[0] sep item[1] ... item[d-1] tail  with            *)
(*            item[i] = item i suf  when num, else  item suf               *)
(*   text   : head (a complete program; used for deep run-time data)       *)
(* The texts below are data of the specification: the harness only         *)
(* concatenates.  NestLen / IndentLen give the exact length, so TLC can    *)
(* choose every depth 2^k and the largest depth that fits in 64 KiB.       *)
(***************************************************************************)
Shape(kind, name, head, open, mid, close, tail) ==
  [kind |-> kind, name |-> name, head |-> head, open |-> open, mid |-> mid, close |-> close, tail |-> tail,
   line |-> "", body |-> "", item |-> "", sep |-> "", suf |-> "", num |-> FALSE]
Nest(name, head, open, mid, close, tail) == Shape("nest", name, head, open, mid, close, tail)
Indent(name, head, line, body, tail) ==
  [Shape("indent", name, head, "", "", "", tail) EXCEPT !.line = line, !.body = body]
Count(name, head, item, suf, sep, num, tail) ==
  [Shape("count", name, head, "", "", "", tail) EXCEPT !.item = item, !.suf = suf, !.sep = sep, !.num = num]

NestShapes == {
  Nest("paren",      "z = ", "(", "1", ")", "\n"),
  Nest("list",       "z = ", "[", "", "]", "\n"),
  Nest("tuple",      "z = ", "(", "1", ",)", "\n"),
  Nest("dict",       "z = ", "{1:", "1", "}", "\n"),
  Nest("call",       "z = ", "f(", "1", ")", "\n"),
  Nest("callstar",   "z = ", "f(*[", "1", "])", "\n"),
  Nest("callkw",     "z = ", "f(a=", "1", ")", "\n"),
  Nest("index",      "z = ", "x[", "0", "]", "\n"),
  Nest("slice",      "z = ", "x[", "0", ":]", "\n"),
  Nest("lambda",     "z = ", "lambda:", "1", "", "\n"),
  Nest("lambdacall", "z = ", "(lambda:", "1", ")()", "\n"),
  Nest("cond",       "z = ", "1 if 1 else ", "1", "", "\n"),
  Nest("condmid",    "z = ", "1 if (", "1", ") else 1", "\n"),
  Nest("neg",        "z = ", "-", "1", "", "\n"),
  Nest("pos",        "z = ", "+", "1", "", "\n"),
  Nest("inv",        "z = ", "~", "1", "", "\n"),
  Nest("not",        "z = ", "not ", "1", "", "\n"),
  Nest("negparen",   "z = ", "-(", "1", ")", "\n"),
  Nest("comp",       "z = ", "[", "1", " for i in x]", "\n"),
  Nest("compfor",    "z = [1", " for i in x", "", "", "]\n"),
  Nest("compif",     "z = [1 for i in x", " if 1", "", "", "]\n"),
  Nest("dictcomp",   "z = ", "{1:", "1", " for i in x}", "\n"),
  Nest("lhs",        "", "[", "a", "]", " = c\n"),
  \* parenthesised assignment targets (every statement form that has a target)
  Nest("parenaug",    "a = 1\n", "(", "a", ")", " += 1\n"),
  Nest("parenaugidx", "b = [1]\n", "(", "b[0]", ")", " -= 1\n"),
  Nest("parenaugdot", "", "(", "x.f", ")", " |= 1\n"),
  Nest("parenassign", "", "(", "a", ")", " = 1\n"),
  Nest("parenunpack", "", "(", "a, b", ")", " = 1, 2\n"),
  Nest("parenfor",    "for ", "(", "i", ")", " in x:\n pass\n"),
  Nest("parencomp",   "z = [0 for ", "(", "i", ")", " in x]\n"),
  Nest("parenidxtgt", "b = [1]\n", "(", "b", ")", "[0] = 2\n"),
  Nest("plus",       "z = 1", "+1", "", "", "\n"),
  Nest("minus",      "z = 1", "-1", "", "", "\n"),
  Nest("mul",        "z = 1", "*1", "", "", "\n"),
  Nest("floordiv",   "z = 1", "//1", "", "", "\n"),
  Nest("mod",        "z = 1", "%7", "", "", "\n"),
  Nest("pipe",       "z = 1", "|1", "", "", "\n"),
  Nest("shift",      "z = 1", "<<1", "", "", "\n"),
  Nest("and",        "z = 1", " and 1", "", "", "\n"),
  Nest("or",         "z = 0", " or 0", "", "", "\n"),
  Nest("eqchain",    "z = 1", "==1", "", "", "\n"),
  Nest("inchain",    "z = 1", " in x", "", "", "\n"),
  Nest("strcat",     "z = 'a'", "+'a'", "", "", "\n"),
  Nest("strmod",     "z = '%s'", "%'%s'", "", "", "\n"),
  Nest("methchain",  "z = ''", ".strip()", "", "", "\n"),
  Nest("indexchain", "z = c", "[0]", "", "", "\n"),
  Nest("callchain",  "z = f", "()", "", "", "\n"),
  Nest("manyargs",   "z = f(", "1,", "", "", ")\n"),
  Nest("manyelems",  "z = [", "1,", "", "", "]\n"),
  Nest("manyentries","z = {", "1:1,", "", "", "}\n"),
  Nest("semis",      "pass", ";pass", "", "", "\n"),
  Nest("stmts",      "", "z=1\n", "", "", ""),
  Nest("defs",       "", "def g():pass\n", "", "", ""),
  Nest("loads",      "", "load('m','a')\n", "", "", ""),
  Nest("bigfunc",    "def g():\n", " y=1\n", "", "", "g()\n"),
  Nest("bigjump",    "def g():\n if x:\n", "  y=1\n", "", "", " return 1\ng()\n"),
  Nest("elifs",      "if 0:\n pass\n", "elif 0:\n pass\n", "", "", ""),
  Nest("blank",      "z=1", "\n", "", "", "\n"),
  Nest("comment",    "#", "a", "", "", "\n"),
  Nest("spaces",     "z=1", " ", "", "", "\n"),
  Nest("tabs",       "z=1", "\t", "", "", "\n"),
  Nest("backslash",  "z = 1", " \\\n", "", "", "+1\n"),
  Nest("ident",      "", "a", " = 1", "", "\n"),
  Nest("string",     "z = '", "a", "'", "", "\n"),
  Nest("stringesc",  "z = '", "\\x41", "'", "", "\n"),
  Nest("bytesesc",   "z = b'", "\\xff", "'", "", "\n"),
  Nest("triple",     "z = '''", "a\n", "'''", "", "\n"),
  Nest("int",        "z = ", "9", "", "", "\n"),
  Nest("hex",        "z = 0x", "f", "", "", "\n"),
  Nest("zeros",      "z = ", "0", "", "", "\n"),
  Nest("floatfrac",  "z = 1.", "0", "", "", "\n"),
  Nest("floatbig",   "z = 1", "0", ".0", "", "\n"),
  Nest("openparen",  "z = ", "(", "", "", "\n"),
  Nest("openbrack",  "z = ", "[", "", "", "\n"),
  Nest("openbrace",  "z = ", "{", "", "", "\n"),
  Nest("closeparen", "z = 1", ")", "", "", "\n"),
  Nest("dots",       "z = x", ".", "", "", "\n"),
  Nest("colons",     "z = x[", ":", "", "", "]\n"),
  Nest("stars",      "z = f(", "*", "", "", "x)\n") }

IndentShapes == {
  Indent("defnest",   "", "def g():", "pass", ""),
  Indent("ifnest",    "", "if 1:", "pass", ""),
  Indent("fornest",   "", "for i in x:", "pass", ""),
  Indent("whilenest", "", "while 1:", "break", ""),
  Indent("defifnest", "def g():\n", " if x:", " return 1", "z = g()\n") }

CountShapes == {
  Count("args",      "z = f(", "1", "", ",", FALSE, ")\n"),
  Count("kwargs",    "z = f(", "a", "=1", ",", TRUE, ")\n"),
  Count("samekw",    "z = f(", "a", "=1", ",", FALSE, ")\n"),
  Count("params",    "def g(", "a", "", ",", TRUE, "):pass\nz = g()\n"),
  Count("defaults",  "def g(", "a", "=0", ",", TRUE, "):pass\nz = g()\n"),
  Count("lambdapar", "z = lambda ", "a", "", ",", TRUE, ": 1\n"),
  \* repeated parameter names in every parameter position (statically invalid: must be rejected, never crash at the call)
  Count("dupparams", "def g(", "a", "", ",", FALSE, "):pass\nz = g(1)\n"),
  Count("dupkwonly", "def g(a, *, ", "a", "=1", ",", FALSE, "):pass\nz = g(1)\n"),
  Count("dupafterargs", "def g(*args, k, ", "k", "", ",", FALSE, "):pass\nz = g(k=1)\n"),
  Count("duplambda", "z = (lambda a, *, ", "a", "=2", ",", FALSE, ": a)(1)\n"),
  Count("starargs",  "z = f(", "*x", "", ",", FALSE, ")\n"),
  Count("targets",   "", "a", "", ",", TRUE, " = c\n"),
  Count("globals",   "", "a", "=1", "\n", TRUE, "\n"),
  Count("locals",    "def g():\n", " a", "=1", "\n", TRUE, "\nz = g()\n"),
  Count("consts",    "z = [", "'s", "'", ",", TRUE, "]\n"),
  Count("dictlit",   "z = {", "", ":1", ",", TRUE, "}\n"),
  Count("loadnames", "load('m',", "'a", "'", ",", TRUE, ")\n"),
  Count("freevars",  "def g():\n", " a", "=1", "\n", TRUE, "\n return lambda: a0\nz = g()()\n") }
Counts == {1, 254, 255, 256, 257, 1000, 4000}

NestLen(s, d)   == Len(s.head) + d * (Len(s.open) + Len(s.close)) + Len(s.mid) + Len(s.tail)
IndentLen(s, d) == Len(s.head) + d * (Len(s.line) + 1) + (d * (d - 1)) \div 2 + d + Len(s.body) + 1 + Len(s.tail)

Pow2(k) == 2 ^ k

NestMax(s)   == (MaxSrc - (Len(s.head) + Len(s.mid) + Len(s.tail))) \div (Len(s.open) + Len(s.close))
IndentMax(s) == CHOOSE d \in 1..400 : IndentLen(s, d) <= MaxSrc /\ IndentLen(s, d + 1) > MaxSrc

(***************************************************************************)
(* 3c. Deep run-time data: small programs that build a value nested n      *)
(* levels deep inside the step budget and apply one operation to it.       *)
(***************************************************************************)
DeepPrelude ==
  "def mkl(n):\n  v = []\n  for i in range(n): v = [v]\n  return v\n" \o
  "def mkt(n):\n  v = ()\n  for i in range(n): v = (v,)\n  return v\n" \o
  "def mkd(n):\n  v = {}\n  for i in range(n): v = {'k': v}\n  return v\n" \o
  "def mks(n):\n  v = struct()\n  for i in range(n): v = struct(f = v)\n  return v\n"
\* <<name, parts, e>>: the program is DeepPrelude followed by the parts joined by the depth n; depths up to 2^e.
\* e < 21 where the operation takes time quadratic in the depth (printing keeps a path / copies the text of
\* every level) or where a smaller depth already decides it: speed is outside the property
DeepOps == {
  <<"deep-str-list", <<"z = len(str(mkl(", ")))\n">>, 17>>,
  <<"deep-str-tuple", <<"z = len(repr(mkt(", ")))\n">>, 21>>,
  <<"deep-str-dict", <<"z = len(str(mkd(", ")))\n">>, 17>>,
  <<"deep-str-struct", <<"z = len(str(mks(", ")))\n">>, 14>>,
  <<"deep-json-encode", <<"z = len(json.encode(mkl(", ")))\n">>, 20>>,
  <<"deep-json-encdict", <<"z = len(json.encode(mkd(", ")))\n">>, 20>>,
  <<"deep-json-decode", <<"z = type(json.decode('[' * ", " + ']' * ", "))\n">>, 21>>,
  <<"deep-json-decdict", <<"z = type(json.decode('{\"k\":' * ", " + '1' + '}' * ", "))\n">>, 21>>,
  <<"deep-json-indent", <<"z = len(json.indent('[' * ", " + ']' * ", "))\n">>, 21>>,
  <<"deep-freeze-list", <<"g = mkl(", ")\n">>, 21>>,
  <<"deep-freeze-struct", <<"g = mks(", ")\n">>, 21>>,
  <<"deep-hash-tuple", <<"z = {mkt(", "): 1}\n">>, 21>>,
  <<"deep-hash-struct", <<"z = {mks(", "): 1}\n">>, 21>>,
  <<"deep-eq-list", <<"z = mkl(", ") == mkl(", ")\n">>, 21>>,
  <<"deep-lt-tuple", <<"z = mkt(", ") < mkt(", ")\n">>, 21>>,
  <<"deep-eq-struct", <<"z = mks(", ") == mks(", ")\n">>, 21>>,
  <<"deep-in-list", <<"z = mkl(", ") in [mkl(", ")]\n">>, 21>>,
  <<"deep-sorted", <<"z = sorted([mkt(", "), mkt(", ")])\n">>, 21>>,
  <<"deep-recursion", <<"def r(n):\n  if n == 0: return 0\n  return 1 + r(n - 1)\nz = r(", ")\n">>, 21>>,
  <<"deep-key-recursion", <<"def r(n):\n  if n == 0: return 0\n  return max([n], key = lambda v: r(n - 1))\nz = r(", ")\n">>, 21>>,
  <<"deep-call-args", <<"def r(n, *a):\n  if n == 0: return len(a)\n  return r(n - 1, *a)\nz = r(", ", 1, 2, 3)\n">>, 21>> }
RECURSIVE JoinN(_, _)
JoinN(parts, n) == IF Len(parts) = 1 THEN parts[1] ELSE parts[1] \o ToString(n) \o JoinN(Tail(parts), n)
DeepText(op, n) == DeepPrelude \o JoinN(op[2], n)
=============================================================================
