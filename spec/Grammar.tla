------------------------------- MODULE Grammar -------------------------------
(***************************************************************************)
(* The concrete syntax of Starlark as the language definition gives it     *)
(* (doc/spec.md "Lexical elements", "Expressions", "Statements" and        *)
(* syntax/grammar.txt), independent of the Go parser:                      *)
(*                                                                         *)
(*   1. the syntax-tree type (uniform nodes [k, a, c]),                    *)
(*   2. the precedence / associativity table and NeedsParens,              *)
(*   3. the renderer  tree -> token list  (minimal parentheses, with       *)
(*      pseudo tokens that mark where a node starts and where the grammar  *)
(*      leaves a free choice: redundant parentheses, trailing commas,      *)
(*      `;` versus newline, inline versus indented suites),                *)
(*   4. the grammar itself as data (one production set per nonterminal,    *)
(*      precedence encoded by stratification) and a nondeterministic       *)
(*      push-down recogniser for it (actions Expand / Match).              *)
(*                                                                         *)
(* Precedence, lowest to highest (spec.md "Binary operators", grammar.txt, *)
(* and the Python 3 grammar the language follows for the unary forms):     *)
(*    lambda < conditional < or < and < not < comparisons (non-assoc:      *)
(*    == != < > <= >= in, not in) < | < ^ < & < << >> < + - < * / // %     *)
(*    < unary + - ~ < primary with suffixes (call, index, slice, dot)      *)
(*    < operand (identifier, literal, display, comprehension, (...)).      *)
(* All binary operators other than comparisons associate to the left.      *)
(***************************************************************************)
EXTENDS Integers, Sequences, FiniteSets, TLC

(***************************************************************************)
(* 1. Trees.  Every node is a record [k |-> kind, a |-> attribute (a       *)
(* string: operator, name, literal text, ...), c |-> sequence of children  *)
(* in source order].                                                       *)
(*                                                                         *)
(* expressions                                                             *)
(*   id(a=name)  int float str bytes (a = literal text)                    *)
(*   un(a=op; x)         op in + - ~ not                                   *)
(*   bin(a=op; x, y)     op in BinOps ("not in" is one operator)           *)
(*   cond(t, c, f)       t if c else f                                     *)
(*   lambda(params..., body)                                               *)
(*   call(fn, args...)   arg = expression | named(a=name; x) | star(x) | kw(x) *)
(*   index(x, y)  slice(a = subset of "lhs" naming the parts present; x, parts...) *)
(*   dot(a=name; x)  list(xs...)  tuple(xs...)  dict(entries...) entry(k, v) *)
(*   comp(a = "[" | "{"; body, clauses...)  forc(vars, x)  ifc(cond)       *)
(* parameters   p(a=name)  pdef(a=name; default)  pstar(a=name)  pstar0  pkw(a=name) *)
(* statements                                                              *)
(*   exprstmt(x) assign(a=op; lhs, rhs) return([x]) branch(a=pass|break|continue) *)
(*   load(module literal, items...)  item(a=name loaded)  alias(a=local; item) *)
(*   def(a=name; params..., block)  if(a = "" | "elif"; cond, block[, block]) *)
(*   for(vars, x, block)  while(cond, block)  block(stmts...)  file(stmts...) *)
(***************************************************************************)
N(k, a, c) == [k |-> k, a |-> a, c |-> c]

UnOps  == {"+", "-", "~", "not"}
CmpOps == {"==", "!=", "<", ">", "<=", ">=", "in", "not in"}
BinOps == {"or", "and"} \cup CmpOps \cup {"|", "^", "&", "<<", ">>", "+", "-", "*", "/", "//", "%"}
AugOps == {"+=", "-=", "*=", "/=", "//=", "%=", "&=", "|=", "^=", "<<=", ">>="}
AssignOps == {"="} \cup AugOps

SimpleKinds   == {"exprstmt", "assign", "return", "branch", "load"}
CompoundKinds == {"def", "if", "for", "while"}
ParamKinds    == {"p", "pdef", "pstar", "pstar0", "pkw"}
\* nodes that exist only to group (no syntax-tree node of their own, no position)
NoPosKinds    == {"block", "file", "item", "alias"}

(***************************************************************************)
(* 2. Precedence.                                                          *)
(***************************************************************************)
LLambda == 0
LCond   == 1
LOr     == 2
LAnd    == 3
LNot    == 4
LCmp    == 5
LUnary  == 12
LPrimary == 13
LOperand == 14

BinLevel(op) ==
  CASE op = "or" -> LOr
    [] op = "and" -> LAnd
    [] op \in CmpOps -> LCmp
    [] op = "|" -> 6
    [] op = "^" -> 7
    [] op = "&" -> 8
    [] op \in {"<<", ">>"} -> 9
    [] op \in {"+", "-"} -> 10
    [] op \in {"*", "/", "//", "%"} -> 11

\* binding strength of the outermost construct of an expression.  An unparenthesised
\* tuple of two or more elements (Expression = Test {',' Test}) is weaker than any
\* Test (-1); a one-element tuple can only be written inside parentheses (-2).
Level(t) ==
  CASE t.k = "lambda" -> LLambda
    [] t.k = "cond" -> LCond
    [] t.k = "bin" -> BinLevel(t.a)
    [] t.k = "un" -> IF t.a = "not" THEN LNot ELSE LUnary
    [] t.k \in {"call", "index", "slice", "dot"} -> LPrimary
    [] t.k = "tuple" -> IF Len(t.c) = 0 THEN LOperand ELSE IF Len(t.c) = 1 THEN -2 ELSE -1
    [] OTHER -> LOperand

(***************************************************************************)
(* A context says what the grammar admits at a child position:             *)
(*   min  the weakest level admitted without parentheses                   *)
(*   nc   TRUE where a conditional expression is not admitted although a   *)
(*        lambda is (the `if` clause of a comprehension: Python 3's        *)
(*        test_nocond, which the language follows); inherited by the body  *)
(*        of such a lambda                                                 *)
(*   lv   TRUE for LoopVariables = PrimaryExpr {',' PrimaryExpr}: a bare   *)
(*        tuple of primaries is admitted                                   *)
(***************************************************************************)
Ctx(min, nc, lv) == [min |-> min, nc |-> nc, lv |-> lv]
CExpr   == Ctx(-1, FALSE, FALSE)          \* Expression (tuple without parentheses allowed)
CTest   == Ctx(LLambda, FALSE, FALSE)     \* Test
CNoCond == Ctx(LLambda, TRUE, FALSE)
COrTest == Ctx(LOr, FALSE, FALSE)         \* operands of a conditional; operand of a `for` clause
CMin(l) == Ctx(l, FALSE, FALSE)
CVars   == Ctx(LPrimary, FALSE, TRUE)

NeedsParens(t, ctx) ==
  IF ctx.lv /\ t.k = "tuple" /\ Len(t.c) >= 2 THEN FALSE
  ELSE Level(t) < ctx.min \/ (ctx.nc /\ t.k = "cond")

\* contexts of the two operands of a binary operator: left-associative operators admit
\* their own level on the left only; comparisons admit it on neither side.
LeftCtx(op)  == IF op \in CmpOps THEN CMin(LCmp + 1) ELSE CMin(BinLevel(op))
RightCtx(op) == CMin(BinLevel(op) + 1)

(***************************************************************************)
(* 3. Renderer.  Tokens are strings.  Pseudo tokens (never part of the     *)
(* text) start with "@":                                                   *)
(*   @n    the next node (in preorder, nodes of NoPosKinds excluded)       *)
(*         starts at the next token that is written                        *)
(*   @(! @)! a pair of parentheses that NeedsParens requires (always       *)
(*         written; marked so that near-miss texts can drop such a pair)   *)
(*   @( @) a pair of parentheses that may be written or not                *)
(*   @,    a trailing comma that may be written or not                     *)
(*   @:    the second colon of a slice without stride, may be written      *)
(*   @nl   end of a line of simple statements (an optional `;` may precede)*)
(*   @sep  between two simple statements: `;` or a line break              *)
(*   @ind @out    an indented suite (line break, deeper indentation)       *)
(*   @ind? @out?  a suite of simple statements only: may also be written   *)
(*                on the header's line (then every @sep inside is `;`)     *)
(*                                                                         *)
(* Where a node starts: at the first token of its production, parentheses  *)
(* that merely enclose it not counted -- so a binary expression, a         *)
(* conditional, a call / index / slice / dot expression, a dict entry, an  *)
(* assignment and an expression statement start where their first operand  *)
(* starts (which may be a parenthesis enclosing that operand); a tuple     *)
(* without own parentheses at its first element, the empty tuple at its    *)
(* `(`; unary forms, lambda, displays, comprehensions and their clauses,   *)
(* parameters `*x` / `**x`, arguments `*x` / `**x` / `name=x`, and the     *)
(* statements def / if / elif / for / while / return / pass / break /      *)
(* continue / load at their first token (keyword, bracket, `*`, name).     *)
(***************************************************************************)
MARK == "@n"

RECURSIVE JoinSeqs(_, _)
JoinSeqs(ss, sep) ==          \* concatenate the token lists ss, separated by sep
  IF ss = <<>> THEN <<>>
  ELSE IF Len(ss) = 1 THEN ss[1]
  ELSE ss[1] \o sep \o JoinSeqs(Tail(ss), sep)

OpToks(op) == IF op = "not in" THEN <<"not", "in">> ELSE <<op>>

IsSimple(s) == s.k \in SimpleKinds

\* the string literal token for a name loaded from a module (items carry the name itself)
Quoted(n) == "'" \o n \o "'"

RECURSIVE R(_, _), Own(_, _), RParam(_), RArg(_), RClause(_), RStmt(_, _), RBlock(_), RStmts(_)

\* an expression at a position with context ctx
R(t, ctx) ==
  IF NeedsParens(t, ctx)
  THEN <<"@(!", MARK>> \o Own(t, CExpr)
       \o (IF t.k = "tuple" /\ Len(t.c) >= 2 THEN <<"@,">> ELSE <<>>) \o <<"@)!">>
  ELSE <<"@(", MARK>> \o Own(t, ctx) \o <<"@)">>

\* the node's own tokens (its children rendered in their contexts)
Own(t, ctx) ==
  CASE t.k \in {"id", "int", "float", "str", "bytes"} -> <<t.a>>
    [] t.k = "un" -> <<t.a>> \o R(t.c[1], CMin(IF t.a = "not" THEN LNot ELSE LUnary))
    [] t.k = "bin" -> R(t.c[1], LeftCtx(t.a)) \o OpToks(t.a) \o R(t.c[2], RightCtx(t.a))
    [] t.k = "cond" -> R(t.c[1], COrTest) \o <<"if">> \o R(t.c[2], COrTest) \o <<"else">> \o R(t.c[3], CTest)
    [] t.k = "lambda" ->
         LET n == Len(t.c) IN
         <<"lambda">> \o JoinSeqs([i \in 1..(n - 1) |-> RParam(t.c[i])], <<",">>) \o <<":">>
         \o R(t.c[n], Ctx(LLambda, ctx.nc, FALSE))
    [] t.k = "call" ->
         LET n == Len(t.c) IN
         R(t.c[1], CMin(LPrimary)) \o <<"(">>
         \o JoinSeqs([i \in 1..(n - 1) |-> RArg(t.c[i + 1])], <<",">>)
         \o (IF n > 1 THEN <<"@,">> ELSE <<>>) \o <<")">>
    [] t.k = "index" -> R(t.c[1], CMin(LPrimary)) \o <<"[">> \o R(t.c[2], CExpr) \o <<"]">>
    [] t.k = "slice" ->
         LET hasL == t.a \in {"l", "lh", "ls", "lhs"}
             hasH == t.a \in {"h", "lh", "hs", "lhs"}
             hasS == t.a \in {"s", "ls", "hs", "lhs"}
             iL == 2
             iH == IF hasL THEN 3 ELSE 2
             iS == iH + (IF hasH THEN 1 ELSE 0)
         IN R(t.c[1], CMin(LPrimary)) \o <<"[">>
            \o (IF hasL THEN R(t.c[iL], CExpr) ELSE <<>>) \o <<":">>
            \o (IF hasH THEN R(t.c[iH], CTest) ELSE <<>>)
            \o (IF hasS THEN <<":">> \o R(t.c[iS], CTest) ELSE <<"@:">>)
            \o <<"]">>
    [] t.k = "dot" -> R(t.c[1], CMin(LPrimary)) \o <<".", t.a>>
    [] t.k = "list" ->
         <<"[">> \o JoinSeqs([i \in 1..Len(t.c) |-> R(t.c[i], CTest)], <<",">>)
         \o (IF Len(t.c) > 0 THEN <<"@,">> ELSE <<>>) \o <<"]">>
    [] t.k = "tuple" ->
         IF Len(t.c) = 0 THEN <<"(", ")">>
         ELSE IF Len(t.c) = 1 THEN R(t.c[1], CTest) \o <<",">>
         ELSE JoinSeqs([i \in 1..Len(t.c) |-> R(t.c[i], IF ctx.lv THEN CMin(LPrimary) ELSE CTest)], <<",">>)
    [] t.k = "dict" ->
         <<"{">> \o JoinSeqs([i \in 1..Len(t.c) |-> RArg(t.c[i])], <<",">>)
         \o (IF Len(t.c) > 0 THEN <<"@,">> ELSE <<>>) \o <<"}">>
    [] t.k = "comp" ->
         <<t.a>> \o RArg(t.c[1])
         \o JoinSeqs([i \in 1..(Len(t.c) - 1) |-> RClause(t.c[i + 1])], <<>>)
         \o <<IF t.a = "[" THEN "]" ELSE "}">>

RParam(p) ==
  CASE p.k = "p" -> <<MARK, p.a>>
    [] p.k = "pdef" -> <<MARK, p.a, "=">> \o R(p.c[1], CTest)
    [] p.k = "pstar" -> <<MARK, "*", p.a>>
    [] p.k = "pstar0" -> <<MARK, "*">>
    [] p.k = "pkw" -> <<MARK, "**", p.a>>

\* an argument of a call, an element of a dict display, or the body of a comprehension
RArg(x) ==
  CASE x.k = "named" -> <<MARK, x.a, "=">> \o R(x.c[1], CTest)
    [] x.k = "star" -> <<MARK, "*">> \o R(x.c[1], CTest)
    [] x.k = "kw" -> <<MARK, "**">> \o R(x.c[1], CTest)
    [] x.k = "entry" -> <<MARK>> \o R(x.c[1], CTest) \o <<":">> \o R(x.c[2], CTest)
    [] OTHER -> R(x, CTest)

RClause(cl) ==
  CASE cl.k = "forc" -> <<MARK, "for">> \o R(cl.c[1], CVars) \o <<"in">> \o R(cl.c[2], COrTest)
    [] cl.k = "ifc" -> <<MARK, "if">> \o R(cl.c[1], CNoCond)

\* a suite: the statements of a block after the ':' of a compound statement
RBlock(b) ==
  IF \A i \in 1..Len(b.c) : IsSimple(b.c[i])
  THEN <<"@ind?">> \o RStmts(b.c) \o <<"@out?">>
  ELSE <<"@ind">> \o RStmts(b.c) \o <<"@out">>

\* a statement sequence: simple statements that follow one another may share a line
RStmts(ss) ==
  JoinSeqs([i \in 1..Len(ss) |->
              RStmt(ss[i], "if")
              \o (IF ~IsSimple(ss[i]) THEN <<>>
                  ELSE IF i < Len(ss) /\ IsSimple(ss[i + 1]) THEN <<"@sep">> ELSE <<"@nl">>)],
           <<>>)

\* kw is "if" or "elif": the keyword that introduces an if statement
RStmt(s, kw) ==
  CASE s.k = "exprstmt" -> <<MARK>> \o R(s.c[1], CExpr)
    [] s.k = "assign" -> <<MARK>> \o R(s.c[1], CExpr) \o <<s.a>> \o R(s.c[2], CExpr)
    [] s.k = "return" -> <<MARK, "return">> \o (IF Len(s.c) = 1 THEN R(s.c[1], CExpr) ELSE <<>>)
    [] s.k = "branch" -> <<MARK, s.a>>
    [] s.k = "load" ->
         <<MARK, "load", "(", MARK, s.c[1].a>>
         \o JoinSeqs([i \in 1..(Len(s.c) - 1) |->
                        LET it == s.c[i + 1] IN
                        IF it.k = "alias" THEN <<",", it.a, "=", Quoted(it.c[1].a)>> ELSE <<",", Quoted(it.a)>>], <<>>)
         \o <<"@,", ")">>
    [] s.k = "def" ->
         LET n == Len(s.c) IN
         <<MARK, "def", s.a, "(">>
         \o JoinSeqs([i \in 1..(n - 1) |-> RParam(s.c[i])], <<",">>)
         \o (IF n > 1 THEN <<"@,">> ELSE <<>>) \o <<")", ":">> \o RBlock(s.c[n])
    [] s.k = "if" ->
         <<MARK, kw>> \o R(s.c[1], CTest) \o <<":">> \o RBlock(s.c[2])
         \o (IF Len(s.c) = 2 THEN <<>>
             ELSE IF s.a = "elif" THEN RStmt(s.c[3].c[1], "elif")
             ELSE <<"else", ":">> \o RBlock(s.c[3]))
    [] s.k = "for" ->
         <<MARK, "for">> \o R(s.c[1], CVars) \o <<"in">> \o R(s.c[2], CExpr) \o <<":">> \o RBlock(s.c[3])
    [] s.k = "while" -> <<MARK, "while">> \o R(s.c[1], CTest) \o <<":">> \o RBlock(s.c[2])

RenderExpr(t) == R(t, CExpr)            \* what ParseExpr accepts: an Expression
RenderFile(f) == RStmts(f.c)

\* the real tokens of a rendering with minimal parentheses and none of the optional items
Minimal(toks) ==
  LET kept == SelectSeq(toks, LAMBDA x : x \notin {"@n", "@(", "@)", "@,", "@:"})
  IN [j \in 1..Len(kept) |-> IF kept[j] = "@(!" THEN "(" ELSE IF kept[j] = "@)!" THEN ")" ELSE kept[j]]

\* well-formedness of trees that the renderer (and the generator) rely on
RECURSIVE WF(_)
WF(t) ==
  /\ \A i \in 1..Len(t.c) : WF(t.c[i])
  /\ CASE t.k = "un" -> t.a \in UnOps /\ Len(t.c) = 1
       [] t.k = "bin" -> t.a \in BinOps /\ Len(t.c) = 2
       [] t.k = "cond" -> Len(t.c) = 3
       [] t.k = "lambda" -> Len(t.c) >= 1 /\ \A i \in 1..(Len(t.c) - 1) : t.c[i].k \in ParamKinds
       [] t.k = "call" -> Len(t.c) >= 1
       [] t.k = "index" -> Len(t.c) = 2
       [] t.k = "slice" -> t.a \in {"", "l", "h", "s", "lh", "ls", "hs", "lhs"} /\ Len(t.c) = 1 + (IF t.a = "" THEN 0 ELSE IF t.a \in {"l", "h", "s"} THEN 1 ELSE IF t.a = "lhs" THEN 3 ELSE 2)
       [] t.k = "comp" -> Len(t.c) >= 2 /\ t.c[2].k = "forc" /\ (t.c[1].k = "entry" <=> t.a = "{")
       [] t.k = "if" -> Len(t.c) \in {2, 3} /\ (t.a = "elif" => Len(t.c) = 3 /\ Len(t.c[3].c) = 1 /\ t.c[3].c[1].k = "if")
       [] t.k \in {"block", "file"} -> Len(t.c) >= 1
       [] OTHER -> TRUE

(***************************************************************************)
(* 4. The grammar as data and its recogniser.                              *)
(*                                                                         *)
(* Terminals are token classes: "ident", "int", "float", "string",         *)
(* "bytes", "newline", "indent", "outdent", and every keyword and          *)
(* punctuation token stands for itself.  Nonterminals are the capitalised  *)
(* names.  grammar.txt is ambiguous ("ambiguity is resolved using operator *)
(* precedence"); here precedence and associativity are encoded in the      *)
(* usual stratified way, the legal order of parameters and of arguments    *)
(* (spec.md "Functions", "Function definitions": positional before named   *)
(* before *args before **kwargs; required before optional, at most one *   *)
(* and one **, ** last, bare * followed by a parameter) and "the first     *)
(* clause is a for" are part of the language.  Left recursion is replaced  *)
(* by right recursion (membership is unaffected).                          *)
(***************************************************************************)
Keywords == {"and", "break", "continue", "def", "elif", "else", "for", "if", "in", "lambda",
             "load", "not", "or", "pass", "return", "while"}
Punct == {"+", "-", "*", "/", "//", "%", "=", "+=", "-=", "*=", "/=", "//=", "%=", "==", "!=",
          "^", "<", ">", "<<", ">>", "&", "|", "^=", "<=", ">=", "<<=", ">>=", "&=", "|=",
          ".", ",", ";", ":", "~", "**", "(", ")", "[", "]", "{", "}"}
\* "may not be used as identifiers although they do not appear in the grammar" (spec.md; the
\* Go implementation documents `assert` as permitted, so it is not listed)
Reserved == {"as", "async", "await", "class", "del", "except", "finally", "from", "global", "import",
             "is", "nonlocal", "raise", "try", "with", "yield"}
Classes == {"ident", "int", "float", "string", "bytes", "newline", "indent", "outdent"}
Terminals == Keywords \cup Punct \cup Classes

Alt(lhs, rhss) == [x \in {lhs} |-> rhss]

\* The productions are left-factored (alternatives of a nonterminal that begin alike are
\* merged into a common prefix and a "...R" rest) so that one token of lookahead decides
\* almost every Expand; this changes the derivations, not the language.
Prods ==
     Alt("File", {<<>>, <<"Statement", "File">>, <<"newline", "File">>})
  @@ Alt("Statement", {<<"DefStmt">>, <<"IfStmt">>, <<"ForStmt">>, <<"WhileStmt">>, <<"SimpleStmt">>})
  @@ Alt("DefStmt", {<<"def", "ident", "(", "DefParams", ":", "Suite">>})
  @@ Alt("DefParams", {<<")">>, <<"Params", "DefParamsEnd">>})
  @@ Alt("DefParamsEnd", {<<")">>, <<",", ")">>})
  \* parameter lists in their legal order: required, optional, * or *args, keyword-only, **kwargs
  @@ Alt("Params", {<<"ident", "ParamsAfterId">>, <<"ParamsStar">>})
  @@ Alt("ParamsAfterId", {<<>>, <<",", "Params">>, <<"=", "Test", "ParamsOptR">>})
  @@ Alt("ParamsOptR", {<<>>, <<",", "ParamsOpt">>})
  @@ Alt("ParamsOpt", {<<"ident", "=", "Test", "ParamsOptR">>, <<"ParamsStar">>})
  @@ Alt("ParamsStar", {<<"*", "ParamsAfterStar">>, <<"**", "ident">>})
  @@ Alt("ParamsAfterStar", {<<"ident", "ParamsKwOnlyR">>,            \* *args [, kwonly...] [, **kw]
                             <<",", "KwOnly", "ParamsKwOnlyR">>})      \* a bare * needs a parameter after it
  @@ Alt("ParamsKwOnlyR", {<<>>, <<",", "ParamsKwOnlyNext">>})
  @@ Alt("ParamsKwOnlyNext", {<<"KwOnly", "ParamsKwOnlyR">>, <<"**", "ident">>})
  @@ Alt("KwOnly", {<<"ident", "KwOnlyDefault">>})
  @@ Alt("KwOnlyDefault", {<<>>, <<"=", "Test">>})
  @@ Alt("IfStmt", {<<"if", "Test", ":", "Suite", "ElifTail">>})
  @@ Alt("ElifTail", {<<>>, <<"elif", "Test", ":", "Suite", "ElifTail">>, <<"else", ":", "Suite">>})
  @@ Alt("ForStmt", {<<"for", "LoopVars", "in", "Expression", ":", "Suite">>})
  @@ Alt("WhileStmt", {<<"while", "Test", ":", "Suite">>})
  @@ Alt("Suite", {<<"newline", "indent", "Statement", "Stmts", "outdent">>, <<"SimpleStmt">>})
  @@ Alt("Stmts", {<<>>, <<"Statement", "Stmts">>})
  @@ Alt("SimpleStmt", {<<"SmallStmt", "SmallRest">>})
  @@ Alt("SmallRest", {<<"newline">>, <<";", "SmallRest2">>})
  @@ Alt("SmallRest2", {<<"newline">>, <<"SmallStmt", "SmallRest">>})
  @@ Alt("SmallStmt", {<<"return", "ReturnRest">>, <<"break">>, <<"continue">>, <<"pass">>,
                       <<"Expression", "AssignRest">>, <<"LoadStmt">>})
  @@ Alt("ReturnRest", {<<>>, <<"Expression">>})
  @@ Alt("AssignRest", {<<>>} \cup {<<o, "Expression">> : o \in AssignOps})
  \* "A load statement requires at least two arguments" (spec.md)
  @@ Alt("LoadStmt", {<<"load", "(", "string", ",", "LoadItem", "LoadRest">>})
  @@ Alt("LoadItem", {<<"string">>, <<"ident", "=", "string">>})
  @@ Alt("LoadRest", {<<")">>, <<",", "LoadRest2">>})
  @@ Alt("LoadRest2", {<<")">>, <<"LoadItem", "LoadRest">>})
  \* expressions
  @@ Alt("Expression", {<<"Test", "ExprRest">>})
  @@ Alt("ExprRest", {<<>>, <<",", "Test", "ExprRest">>})
  @@ Alt("Test", {<<"OrTest", "CondRest">>, <<"lambda", "LambdaParams", "Test">>})
  @@ Alt("CondRest", {<<>>, <<"if", "OrTest", "else", "Test">>})
  @@ Alt("TestNoCond", {<<"OrTest">>, <<"lambda", "LambdaParams", "TestNoCond">>})
  @@ Alt("LambdaParams", {<<":">>, <<"Params", ":">>})
  @@ Alt("OrTest", {<<"AndTest", "OrRest">>})
  @@ Alt("OrRest", {<<>>, <<"or", "AndTest", "OrRest">>})
  @@ Alt("AndTest", {<<"NotTest", "AndRest">>})
  @@ Alt("AndRest", {<<>>, <<"and", "NotTest", "AndRest">>})
  @@ Alt("NotTest", {<<"not", "NotTest">>, <<"Comparison">>})
  @@ Alt("Comparison", {<<"BitOr", "CmpRest">>})                            \* non-associative
  @@ Alt("CmpRest", {<<>>, <<"CmpOp", "BitOr">>})
  @@ Alt("CmpOp", {<<"==">>, <<"!=">>, <<"<">>, <<">">>, <<"<=">>, <<">=">>, <<"in">>, <<"not", "in">>})
  @@ Alt("BitOr", {<<"BitXor", "BitOrRest">>})
  @@ Alt("BitOrRest", {<<>>, <<"|", "BitXor", "BitOrRest">>})
  @@ Alt("BitXor", {<<"BitAnd", "BitXorRest">>})
  @@ Alt("BitXorRest", {<<>>, <<"^", "BitAnd", "BitXorRest">>})
  @@ Alt("BitAnd", {<<"Shift", "BitAndRest">>})
  @@ Alt("BitAndRest", {<<>>, <<"&", "Shift", "BitAndRest">>})
  @@ Alt("Shift", {<<"Arith", "ShiftRest">>})
  @@ Alt("ShiftRest", {<<>>, <<"<<", "Arith", "ShiftRest">>, <<">>", "Arith", "ShiftRest">>})
  @@ Alt("Arith", {<<"Term", "ArithRest">>})
  @@ Alt("ArithRest", {<<>>, <<"+", "Term", "ArithRest">>, <<"-", "Term", "ArithRest">>})
  @@ Alt("Term", {<<"Factor", "TermRest">>})
  @@ Alt("TermRest", {<<>>} \cup {<<o, "Factor", "TermRest">> : o \in {"*", "/", "//", "%"}})
  @@ Alt("Factor", {<<"+", "Factor">>, <<"-", "Factor">>, <<"~", "Factor">>, <<"Primary">>})
  @@ Alt("Primary", {<<"Operand", "Suffixes">>})
  @@ Alt("Suffixes", {<<>>, <<".", "ident", "Suffixes">>, <<"(", "CallRest", "Suffixes">>, <<"[", "SliceRest", "Suffixes">>})
  @@ Alt("CallRest", {<<")">>, <<"Args", "CallEnd">>})
  @@ Alt("CallEnd", {<<")">>, <<",", ")">>})
  \* arguments in their legal order: positional, named, *args, **kwargs
  @@ Alt("Args", {<<"Test", "ArgsR">>, <<"ArgsNamed">>})
  @@ Alt("ArgsR", {<<>>, <<",", "Args">>})
  @@ Alt("ArgsNamed", {<<"ident", "=", "Test", "ArgsNamedR">>, <<"*", "Test", "ArgsStarR">>, <<"**", "Test">>})
  @@ Alt("ArgsNamedR", {<<>>, <<",", "ArgsNamed">>})
  @@ Alt("ArgsStarR", {<<>>, <<",", "**", "Test">>})
  @@ Alt("SliceRest", {<<"Expression", "SliceAfterLo">>, <<":", "SliceHi", "SliceEnd">>})
  @@ Alt("SliceAfterLo", {<<"]">>, <<":", "SliceHi", "SliceEnd">>})
  @@ Alt("SliceEnd", {<<"]">>, <<":", "SliceHi", "]">>})
  @@ Alt("SliceHi", {<<>>, <<"Test">>})
  @@ Alt("Operand", {<<"ident">>, <<"int">>, <<"float">>, <<"string">>, <<"bytes">>,
                     <<"(", "ParenRest">>, <<"[", "ListRest">>, <<"{", "DictRest">>})
  @@ Alt("ParenRest", {<<")">>, <<"Expression", "CloseParen">>})
  @@ Alt("CloseParen", {<<")">>, <<",", ")">>})
  @@ Alt("ListRest", {<<"]">>, <<"Test", "ListAfterFirst">>})
  @@ Alt("ListAfterFirst", {<<"ExprRest", "CloseBrack">>, <<"ForClause", "Clauses", "]">>})
  @@ Alt("CloseBrack", {<<"]">>, <<",", "]">>})
  @@ Alt("DictRest", {<<"}">>, <<"Entry", "DictAfterFirst">>})
  @@ Alt("DictAfterFirst", {<<"EntriesR", "CloseBrace">>, <<"ForClause", "Clauses", "}">>})
  @@ Alt("CloseBrace", {<<"}">>, <<",", "}">>})
  @@ Alt("EntriesR", {<<>>, <<",", "Entry", "EntriesR">>})
  @@ Alt("Entry", {<<"Test", ":", "Test">>})
  @@ Alt("ForClause", {<<"for", "LoopVars", "in", "OrTest">>})
  @@ Alt("Clauses", {<<>>, <<"ForClause", "Clauses">>, <<"if", "TestNoCond", "Clauses">>})
  @@ Alt("LoopVars", {<<"Primary", "LoopVarsR">>})
  @@ Alt("LoopVarsR", {<<>>, <<",", "Primary", "LoopVarsR">>})

NonTerminals == DOMAIN Prods

\* the least number of terminals a symbol sequence derives is not needed exactly: a
\* lower bound (number of terminals literally present) suffices for pruning.
TermCount(st) == Len(SelectSeq(st, LAMBDA x : x \in Terminals))

(***************************************************************************)
(* Nullable nonterminals and FIRST sets, computed as least fixed points    *)
(* (used only to prune Expand; the recogniser is correct without them).    *)
(***************************************************************************)
RECURSIVE NullFix(_)
NullFix(S) ==
  LET S2 == {x \in NonTerminals : \E rhs \in Prods[x] : \A j \in 1..Len(rhs) : rhs[j] \in S}
  IN IF S2 = S THEN S ELSE NullFix(S2)
NullableSet == NullFix({})

\* FIRST of a symbol sequence under a table F of the nonterminals' FIRST sets
RECURSIVE FirstSeqF(_, _)
FirstSeqF(F, st) ==
  IF st = <<>> THEN {}
  ELSE IF st[1] \in Terminals THEN {st[1]}
  ELSE F[st[1]] \cup (IF st[1] \in NullableSet THEN FirstSeqF(F, Tail(st)) ELSE {})
RECURSIVE FirstFix(_)
FirstFix(F) ==
  LET F2 == [x \in NonTerminals |-> UNION {FirstSeqF(F, rhs) : rhs \in Prods[x]}]
  IN IF F2 = F THEN F ELSE FirstFix(F2)
FirstTab == FirstFix([x \in NonTerminals |-> {}])

NullSeqT(st) == \A j \in 1..Len(st) : st[j] \in NullableSet
FirstSeqT(st) == FirstSeqF(FirstTab, st)

(***************************************************************************)
(* The recogniser: configurations (pos, stack) over an input string of     *)
(* terminals.  Expand replaces the nonterminal on top of the stack by one  *)
(* of its right-hand sides; Match consumes an input terminal equal to the  *)
(* top of the stack.  The string is in the language iff the configuration  *)
(* (Len(input) + 1, <<>>) is reachable from (1, <<start>>).                *)
(* Pruning: terminals on the stack <= tokens left; one token of lookahead  *)
(* against what the whole stack can begin with.                            *)
(***************************************************************************)
RecInit(start) == [pos |-> 1, stack |-> <<start>>]
RecAccepting(input, cfg) == cfg.pos = Len(input) + 1 /\ cfg.stack = <<>>

RecNext(input, cfg) ==      \* the set of successor configurations
  IF cfg.stack = <<>> THEN {}
  ELSE LET top  == Head(cfg.stack)
           rest == Tail(cfg.stack)
           left == Len(input) - cfg.pos + 1
       IN IF top \in Terminals
          THEN IF left > 0 /\ input[cfg.pos] = top THEN {[pos |-> cfg.pos + 1, stack |-> rest]} ELSE {}
          ELSE { [pos |-> cfg.pos, stack |-> rhs \o rest] :
                   rhs \in { r \in Prods[top] :
                               /\ TermCount(r) + TermCount(rest) <= left
                               /\ IF left = 0 THEN NullSeqT(r \o rest)
                                  ELSE input[cfg.pos] \in FirstSeqT(r \o rest) } }

\* membership decided by exhaustive search (used by the design check on short strings; the
\* checks explore RecNext as a TLC state graph instead)
RECURSIVE Reach(_, _, _)
Reach(input, frontier, seen) ==
  IF \E c \in frontier : RecAccepting(input, c) THEN TRUE
  ELSE LET nxt == (UNION {RecNext(input, c) : c \in frontier}) \ seen
       IN IF nxt = {} THEN FALSE ELSE Reach(input, nxt, seen \cup nxt)
Recognise(input, start) == LET c0 == RecInit(start) IN Reach(input, {c0}, {c0})

(***************************************************************************)
(* Token classes of the concrete tokens used in generated texts.  TLC      *)
(* cannot look inside a string, so the literal tokens the generators use   *)
(* are drawn from these pools (their values are checked by the literal     *)
(* part of the check); every other non-keyword token is an identifier.     *)
(***************************************************************************)
IntPool   == {"0", "1", "7", "42", "0x1F", "0o17", "0b101", "12345678901234567890123"}
FloatPool == {"2.5", "1.", ".5", "1e3", "1E-2", "0.0"}
StrPool   == {"'s'", "\"d\"", "r's'", "'''t'''", "'m'", "'d'"}
BytesPool == {"b's'", "rb's'"}
TokClass(tok) ==
  CASE tok \in Keywords \cup Punct -> tok
    [] tok \in Reserved -> "reserved"          \* a token that occurs in no production
    [] tok = "<stray>" -> "stray"              \* a character that can begin no token (likewise)
    [] tok \in IntPool -> "int"
    [] tok \in FloatPool -> "float"
    [] tok \in StrPool -> "string"
    [] tok \in BytesPool -> "bytes"
    [] tok \in {"@nl", "@sep"} -> "newline"
    [] tok \in {"@ind", "@ind?"} -> "indent"
    [] tok \in {"@out", "@out?"} -> "outdent"
    [] OTHER -> "ident"
\* the terminal string of a rendering in its canonical layout: no optional item written,
\* every @sep a line break, every suite indented (each then starts with a newline)
RECURSIVE Classify(_)
Classify(toks) ==
  IF toks = <<>> THEN <<>>
  ELSE LET x == Head(toks) IN
       IF x \in {"@n", "@(", "@)", "@,", "@:"} THEN Classify(Tail(toks))
       ELSE IF x = "@(!" THEN <<"(">> \o Classify(Tail(toks))
       ELSE IF x = "@)!" THEN <<")">> \o Classify(Tail(toks))
       ELSE IF x \in {"@ind", "@ind?"} THEN <<"newline", "indent">> \o Classify(Tail(toks))
       ELSE <<TokClass(x)>> \o Classify(Tail(toks))
=============================================================================
