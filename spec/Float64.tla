------------------------------ MODULE Float64 ------------------------------
(***************************************************************************)
(* IEEE 754 binary64 for TLC, exact (no floating point is ever computed).  *)
(*                                                                         *)
(* A float is a record with the fields the harness writes (enc.go:         *)
(* encFloat; a tag field t may be present and is ignored):                 *)
(*    s : 0 | 1           sign bit                                         *)
(*    e : 0..2047         biased exponent field                            *)
(*    m : <<l1,l2,l3,l4>> the 52-bit fraction field, four limbs base 2^15, *)
(*                        least significant first (l4 < 2^7)               *)
(* Its value is  (-1)^s * Sig * 2^Exp2  with                               *)
(*    e = 0        : Sig = fraction,          Exp2 = -1074  (zero/subnormal)*)
(*    0 < e < 2047 : Sig = 2^52 + fraction,   Exp2 = e - 1075   (normal)   *)
(*    e = 2047     : infinity (fraction 0) or NaN (fraction # 0)           *)
(*                                                                         *)
(* Everything is expressed with BitInt magnitudes (limb sequences) and     *)
(* TLC-native exponents (|exponent| < 2^31).  A "dyadic" is a record       *)
(* [n |-> BitInt, x |-> Int] denoting n * 2^x.                             *)
(*                                                                         *)
(* Contents                                                                *)
(*   classification     IsNaN IsInf IsFinite IsFZero IsSubnormal IsNormal  *)
(*                      Class WellFormed                                   *)
(*   constants          PosZero NegZero PosInf NegInf QNaN MaxFinite MinSub*)
(*   exact value        FVal (dyadic), DCmp, DEqInt                        *)
(*   comparison         CmpIntFloat, FCmp (total order used by Starlark:   *)
(*                      NaN = NaN, NaN greater than everything, -0 = +0),  *)
(*                      Ordered + IEEE variants FLtIEEE FEqIEEE            *)
(*                      IntEqFloat                                          *)
(*   rounding           NearestMag / IsNearest / IsNearestSigned /         *)
(*                      IsNearestDec: "f is the binary64 nearest to N/D,   *)
(*                      ties to even", RoundsToInf, FloatOfInt (constructive)*)
(*   to integer         FTrunc FFloor FCeil FRoundHalfAway FRoundHalfEven  *)
(*                      FIsInt                                             *)
(*   neighbours         FSuccMag FPredMag (next float away from / towards 0)*)
(*   constructors       FromDyadicExact, MkFloat                           *)
(***************************************************************************)
EXTENDS BitInt

One == FromInt(1)

(***************************************************************************)
(* Magnitude helpers (limb sequences, little endian, trimmed).             *)
(***************************************************************************)
Zeros(k) == [i \in 1..k |-> 0]
\* m * 2^k
MShl(m, k) ==
  IF m = <<>> THEN <<>>
  ELSE LET q == k \div 15
           r == k % 15
           t == IF r = 0 THEN m ELSE MMulLimb(m, 2 ^ r)
       IN IF q = 0 THEN t ELSE Zeros(q) \o t
\* floor(m / 2^k)
MShr(m, k) ==
  LET q == k \div 15
      r == k % 15
  IN IF q >= Len(m) THEN <<>>
     ELSE LET t == SubSeq(m, q + 1, Len(m))
          IN IF r = 0 THEN t ELSE MDivSmall(t, 2 ^ r)[1]
\* the k low bits of m are all zero
MLowZero(m, k) == MShl(MShr(m, k), k) = m
MIsOdd(m) == m # <<>> /\ m[1] % 2 = 1

RECURSIVE SmallBitLen(_)
SmallBitLen(v) == IF v = 0 THEN 0 ELSE 1 + SmallBitLen(v \div 2)
\* number of bits of a magnitude (0 for zero); same as BitInt!BitLen but O(limbs)
MBitLen(m) == IF m = <<>> THEN 0 ELSE 15 * (Len(m) - 1) + SmallBitLen(m[Len(m)])

\* 10^k as a magnitude
RECURSIVE MPow10(_)
MPow10(k) == IF k = 0 THEN <<1>>
             ELSE IF k >= 4 THEN MMulLimb(MPow10(k - 4), 10000)
             ELSE MMulLimb(MPow10(k - 1), 10)

(***************************************************************************)
(* Classification.                                                         *)
(***************************************************************************)
FracIsZero(f) == \A k \in 1..Len(f.m) : f.m[k] = 0
IsNaN(f)       == f.e = 2047 /\ ~FracIsZero(f)
IsInf(f)       == f.e = 2047 /\ FracIsZero(f)
IsFinite(f)    == f.e < 2047
IsFZero(f)     == f.e = 0 /\ FracIsZero(f)
IsSubnormal(f) == f.e = 0 /\ ~FracIsZero(f)
IsNormal(f)    == f.e > 0 /\ f.e < 2047
Class(f) == IF f.e = 2047 THEN (IF FracIsZero(f) THEN "inf" ELSE "nan")
            ELSE IF f.e = 0 THEN (IF FracIsZero(f) THEN "zero" ELSE "subnormal")
            ELSE "normal"
WellFormed(f) ==
  /\ f.s \in {0, 1} /\ f.e \in 0..2047 /\ Len(f.m) = 4
  /\ \A k \in 1..3 : f.m[k] \in 0..(B - 1)
  /\ f.m[4] \in 0..127

Pad4(m) == [i \in 1..4 |-> Limb(m, i)]
MkFloat(s, e, fracMag) == [s |-> s, e |-> e, m |-> Pad4(fracMag)]
AllOnes == <<B - 1, B - 1, B - 1, 127>>
PosZero   == [s |-> 0, e |-> 0, m |-> <<0, 0, 0, 0>>]
NegZero   == [s |-> 1, e |-> 0, m |-> <<0, 0, 0, 0>>]
PosInf    == [s |-> 0, e |-> 2047, m |-> <<0, 0, 0, 0>>]
NegInf    == [s |-> 1, e |-> 2047, m |-> <<0, 0, 0, 0>>]
QNaN      == [s |-> 0, e |-> 2047, m |-> <<0, 0, 0, 64>>]
MaxFinite == [s |-> 0, e |-> 2046, m |-> AllOnes]
MinSub    == [s |-> 0, e |-> 0, m |-> <<1, 0, 0, 0>>]
MinNormal == [s |-> 0, e |-> 1, m |-> <<0, 0, 0, 0>>]
FNeg(f)   == [s |-> 1 - f.s, e |-> f.e, m |-> f.m]
FAbs(f)   == [s |-> 0, e |-> f.e, m |-> f.m]
\* bit-for-bit equality (distinguishes -0 from +0 and NaN payloads); ignores a tag field
FSame(f, g) == f.s = g.s /\ f.e = g.e /\ f.m = g.m

(***************************************************************************)
(* Exact value.  For an infinity SigMag/Exp2 denote 2^1024, the value the  *)
(* format would have with an unbounded exponent (used by rounding).        *)
(***************************************************************************)
SigMag(f) == IF f.e = 0 THEN Trim(f.m) ELSE <<f.m[1], f.m[2], f.m[3], f.m[4] + 128>>
Exp2(f)   == IF f.e = 0 THEN -1074 ELSE f.e - 1075
FVal(f)   == [n |-> Mk(f.s = 1, SigMag(f)), x |-> Exp2(f)]      \* f finite (or +-2^1024 for inf)
DyInt(i)  == [n |-> i, x |-> 0]

\* compare ma * 2^xa with mb * 2^xb (magnitudes): -1, 0, 1
DMagCmp(ma, xa, mb, xb) ==
  IF ma = <<>> \/ mb = <<>> THEN (IF ma = mb THEN 0 ELSE IF ma = <<>> THEN -1 ELSE 1)
  ELSE LET ta == MBitLen(ma) + xa       \* 2^(t-1) <= value < 2^t
           tb == MBitLen(mb) + xb
       IN IF ta < tb THEN -1 ELSE IF ta > tb THEN 1
          ELSE LET mn == IF xa < xb THEN xa ELSE xb
               IN MCmp(MShl(ma, xa - mn), MShl(mb, xb - mn))
\* compare two dyadics: -1, 0, 1
DCmp(a, b) ==
  LET sa == ISign(a.n)
      sb == ISign(b.n)
  IN IF sa # sb THEN (IF sa < sb THEN -1 ELSE 1)
     ELSE IF sa = 0 THEN 0
     ELSE sa * DMagCmp(a.n.m, a.x, b.n.m, b.x)

(***************************************************************************)
(* Comparison.  Total order of Starlark values of type float (value.go     *)
(* documents "totally ordered with NaN > +Inf"; property C11: NaN equals   *)
(* itself): -inf < finite < +inf < NaN, NaN = NaN, -0 = +0.                *)
(* doc/spec.md describes the IEEE relation instead (every comparison with  *)
(* NaN is false); the IEEE variants are given as well.                     *)
(***************************************************************************)
\* integer i against float f: -1 (i < f), 0, 1
CmpIntFloat(i, f) ==
  IF IsNaN(f) THEN -1
  ELSE IF IsInf(f) THEN (IF f.s = 1 THEN 1 ELSE -1)
  ELSE DCmp(DyInt(i), FVal(f))
CmpFloatInt(f, i) == -CmpIntFloat(i, f)
FCmp(f, g) ==
  IF IsNaN(f) THEN (IF IsNaN(g) THEN 0 ELSE 1)
  ELSE IF IsNaN(g) THEN -1
  ELSE DCmp(FVal(f), FVal(g))          \* infinities compare as +-2^1024: beyond every finite value
IntEqFloat(i, f) == IsFinite(f) /\ DCmp(DyInt(i), FVal(f)) = 0
Ordered(f, g) == ~IsNaN(f) /\ ~IsNaN(g)
FLtIEEE(f, g) == Ordered(f, g) /\ FCmp(f, g) < 0
FLeIEEE(f, g) == Ordered(f, g) /\ FCmp(f, g) <= 0
FEqIEEE(f, g) == Ordered(f, g) /\ FCmp(f, g) = 0
\* the six operators from a three-way result c
CmpOp(op, c) == CASE op = "==" -> c = 0 [] op = "!=" -> c # 0 [] op = "<" -> c < 0
                  [] op = "<=" -> c <= 0 [] op = ">" -> c > 0 [] op = ">=" -> c >= 0

(***************************************************************************)
(* Neighbours in magnitude (sign kept).  The bit pattern e*2^52+fraction   *)
(* is monotone in |value|, so the next float away from zero is "pattern+1".*)
(* FSuccMag(MaxFinite) = PosInf; FPredMag requires a non-zero argument.    *)
(***************************************************************************)
FSuccMag(f) ==
  IF f.m = AllOnes THEN [s |-> f.s, e |-> f.e + 1, m |-> <<0, 0, 0, 0>>]
  ELSE [s |-> f.s, e |-> f.e, m |-> Pad4(MAdd(Trim(f.m), <<1>>))]
FPredMag(f) ==
  IF FracIsZero(f) THEN [s |-> f.s, e |-> f.e - 1, m |-> AllOnes]
  ELSE [s |-> f.s, e |-> f.e, m |-> Pad4(MSub(Trim(f.m), <<1>>))]

(***************************************************************************)
(* Rounding: f is the result of rounding the rational N/D to nearest,      *)
(* ties to even (IEEE 754 roundTiesToEven, overflow to infinity when       *)
(* |N/D| >= 2^1024 - 2^970).  Stated as a law about f and its two          *)
(* neighbours, not computed:                                               *)
(*     pred(f) + f  <=  2 N/D  <=  f + succ(f)                             *)
(* with equality allowed only if the fraction of f is even.                *)
(* N, D are magnitudes (D # <<>>).  f must not be NaN.                     *)
(***************************************************************************)
\* compare N/D with m * 2^x (all magnitudes): -1, 0, 1
RatDyCmp(N, D, m, x) ==
  IF N = <<>> \/ m = <<>> THEN (IF N = m THEN 0 ELSE IF N = <<>> THEN -1 ELSE 1)
  ELSE LET lo == MBitLen(N) - MBitLen(D) - 1     \* 2^lo < N/D < 2^(lo+2)
           t  == MBitLen(m) + x                  \* 2^(t-1) <= m*2^x < 2^t
       IN IF lo + 2 <= t - 1 THEN -1
          ELSE IF lo >= t THEN 1
          ELSE IF x >= 0 THEN MCmp(N, MMul(MShl(m, x), D))
          ELSE MCmp(MShl(N, -x), MMul(m, D))
\* sum of two dyadic magnitudes as [m, x]
DMagAdd(ma, xa, mb, xb) ==
  LET mn == IF xa < xb THEN xa ELSE xb
  IN [m |-> MAdd(MShl(ma, xa - mn), MShl(mb, xb - mn)), x |-> mn]
NearestMag(f, N, D) ==
  LET even == f.m[1] % 2 = 0
      N2   == MShl(N, 1)
      lowOK ==
        IF IsFZero(f) THEN TRUE
        ELSE LET p == FPredMag(f)
                 s == DMagAdd(SigMag(p), Exp2(p), SigMag(f), Exp2(f))
                 c == RatDyCmp(N2, D, s.m, s.x)
             IN c > 0 \/ (c = 0 /\ even)
      highOK ==
        IF IsInf(f) THEN TRUE
        ELSE LET q == FSuccMag(f)
                 s == DMagAdd(SigMag(q), Exp2(q), SigMag(f), Exp2(f))
                 c == RatDyCmp(N2, D, s.m, s.x)
             IN c < 0 \/ (c = 0 /\ even)
  IN lowOK /\ highOK
\* sign given explicitly (so that "-0" and negative values rounding to zero give -0)
IsNearestSigned(f, neg, N, D) ==
  ~IsNaN(f) /\ f.s = (IF neg THEN 1 ELSE 0) /\ NearestMag(f, N, D)
\* n, d BitInt, d > 0: f = round(n/d); n = 0 gives +0
IsNearest(f, n, d) == IsNearestSigned(f, n.neg, n.m, d.m)
\* |N/D| is so large that it rounds to an infinity
RoundsToInf(N, D) == NearestMag(PosInf, N, D)
\* float(i) for an integer: IsFloatOfInt(f, i), or IntTooLarge(i) when no finite float is nearest
IsFloatOfInt(f, i) == IsFinite(f) /\ IsNearest(f, i, One)
IntTooLarge(i) == MBitLen(i.m) > 1024 \/ RoundsToInf(i.m, <<1>>)

\* decimal text: f = round((-1)^neg * digits * 10^e10); digits = sequence of digit values
\* 0..9, most significant first (may be empty or have leading zeros).
RECURSIVE StripZeros(_)
StripZeros(ds) == IF ds # <<>> /\ Head(ds) = 0 THEN StripZeros(Tail(ds)) ELSE ds
IsNearestDec(f, neg, digits, e10) ==
  LET ds == StripZeros(digits)
      L  == Len(ds)
      sg == IF neg THEN 1 ELSE 0
  IN /\ ~IsNaN(f) /\ f.s = sg
     /\ IF L = 0 THEN IsFZero(f)
        ELSE IF L - 1 + e10 >= 310 THEN IsInf(f)            \* >= 10^310 > 2^1024
        ELSE IF L + e10 <= -330 THEN IsFZero(f)             \* < 10^-330 < 2^-1075
        ELSE LET N == MFromDigits(ds, 10, <<>>)
             IN IF e10 >= 0 THEN NearestMag(f, MMul(N, MPow10(e10)), <<1>>)
                ELSE NearestMag(f, N, MPow10(-e10))

(***************************************************************************)
(* Constructors.                                                           *)
(***************************************************************************)
\* the float that is exactly (-1)^neg * m * 2^x; requires m # 0 with at most 53 bits and
\* the value representable (checked by the caller / the design check)
FromDyadicExact(neg, m, x) ==
  LET L == MBitLen(m)
      E == L - 1 + x                      \* unbiased exponent of the leading bit
      s == IF neg THEN 1 ELSE 0
  IN IF E >= -1022
     THEN LET sig == MShl(m, 53 - L)      \* leading bit at position 52
          IN MkFloat(s, E + 1023, MSub(sig, MShl(<<1>>, 52)))
     ELSE MkFloat(s, 0, MShl(m, x + 1074))
\* constructive float(i): round to nearest even, infinity beyond the range
FloatOfInt(i) ==
  LET n == i.m
      L == MBitLen(n)
      s == IF i.neg THEN 1 ELSE 0
  IN IF L = 0 THEN PosZero
     ELSE IF L <= 53 THEN FromDyadicExact(i.neg, n, 0)
     ELSE LET sh   == L - 53
              q    == MShr(n, sh)
              rem  == MSub(n, MShl(q, sh))
              half == MShl(<<1>>, sh - 1)
              c    == MCmp(rem, half)
              up   == c > 0 \/ (c = 0 /\ MIsOdd(q))
              q2   == IF up THEN MAdd(q, <<1>>) ELSE q
              ovf  == MBitLen(q2) = 54              \* rounded up to 2^53
              sig  == IF ovf THEN MShl(<<1>>, 52) ELSE q2
              E    == IF ovf THEN L ELSE L - 1
          IN IF E + 1023 >= 2047 THEN [s |-> s, e |-> 2047, m |-> <<0, 0, 0, 0>>]
             ELSE MkFloat(s, E + 1023, MSub(sig, MShl(<<1>>, 52)))

(***************************************************************************)
(* Float -> integer (f finite).                                            *)
(***************************************************************************)
FIsInt(f) == IsFinite(f) /\ (Exp2(f) >= 0 \/ MLowZero(SigMag(f), -Exp2(f)))
TruncMag(f) == IF Exp2(f) >= 0 THEN MShl(SigMag(f), Exp2(f)) ELSE MShr(SigMag(f), -Exp2(f))
\* int(f): truncation towards zero
FTrunc(f) == Mk(f.s = 1, TruncMag(f))
FFloor(f) == IF f.s = 1 /\ ~FIsInt(f) THEN ISub(FTrunc(f), One) ELSE FTrunc(f)
FCeil(f)  == IF f.s = 0 /\ ~FIsInt(f) THEN IAdd(FTrunc(f), One) ELSE FTrunc(f)
\* the fractional part is >= 1/2 ; = 1/2
FracGeHalf(f) == Exp2(f) < 0 /\ MIsOdd(MShr(SigMag(f), -Exp2(f) - 1))
FracIsHalf(f) == Exp2(f) < 0 /\ MIsOdd(MShr(SigMag(f), -Exp2(f) - 1)) /\ MLowZero(SigMag(f), -Exp2(f) - 1)
\* nearest integer, halves away from zero (Go math.Round, Starlark math.round)
FRoundHalfAway(f) ==
  Mk(f.s = 1, IF FracGeHalf(f) THEN MAdd(TruncMag(f), <<1>>) ELSE TruncMag(f))
\* nearest integer, halves to even (Python round)
FRoundHalfEven(f) ==
  LET t  == TruncMag(f)
      up == FracGeHalf(f) /\ (~FracIsHalf(f) \/ MIsOdd(t))
  IN Mk(f.s = 1, IF up THEN MAdd(t, <<1>>) ELSE t)
\* float g is exactly the integer i (g integral, used for results such as math.round)
FloatIsInt(g, i) == IsFinite(g) /\ DCmp(FVal(g), DyInt(i)) = 0
=============================================================================
