INIT Init
NEXT Next
INVARIANT Facts
