------------------------------- MODULE C19MC -------------------------------
(***************************************************************************)
(* Design-level check of TimeSpec (P-E): the oracle's own properties on    *)
(* small constants, independent of any implementation.                     *)
(*  * calendar: DaysFromCivil is the day count of the proleptic Gregorian  *)
(*    calendar: consecutive dates differ by one day over 1600..2400, the   *)
(*    known anchors hold, CivilOK determines the wall clock uniquely;      *)
(*  * operator table: size of the declared domain and of its accepted part;*)
(*  * Judge: accepts the exact outcome of every documented entry and       *)
(*    rejects the outcome of the reversed operation, an off-by-one result, *)
(*    a result of another kind and a spurious error; accepts only an error *)
(*    for every undocumented ordered pair;                                 *)
(*  * laws in exact arithmetic: (t+d)-d = t, (t2-t1)+t1 = t2, comparisons  *)
(*    form a total order consistent with ==, independent of the zone label;*)
(*  * duration texts: DurEval on examples of the grammar.                  *)
(* States are enumerated by Next from one trivial initial state (deep      *)
(* RECURSIVE evaluation must stay out of initial states).                  *)
(***************************************************************************)
EXTENDS TimeSpec, TLC, FiniteSets

VARIABLES mode, y, L, R, op

NsVals == {I(-3), I(-1), Zero, I(1), I(2), I(7), MaxI64, MinI64, ISub(MaxI64, I(1))}
Operand(k, n, z) == [k |-> k, n |-> n, p |-> 1, q |-> 2, z |-> z]
Operands == {Operand(k, n, 0) : k \in {"time", "duration", "int"}, n \in NsVals}
             \cup {Operand("float", Zero, 0), Operand("other", Zero, 0)}
None0 == Operand("other", Zero, 0)

Init == mode = "start" /\ y = 0 /\ L = None0 /\ R = None0 /\ op = "+"
Next == /\ mode = "start"
        /\ \/ (mode' = "year" /\ y' \in 1600..2400 /\ UNCHANGED <<L, R, op>>)
           \/ (mode' = "pair" /\ L' \in Operands /\ R' \in Operands /\ op' \in Ops /\ y' = 0)
           \/ (mode' = "misc" /\ UNCHANGED <<y, L, R, op>>)

(* ---------------------------------------------------------------- calendar *)
NextDate(yy, m, d) == IF d < DaysInMonth(yy, m) THEN <<yy, m, d + 1>>
                      ELSE IF m < 12 THEN <<yy, m + 1, 1>> ELSE <<yy + 1, 1, 1>>
YearOK ==
  /\ \A m \in 1..12 : \A d \in 1..DaysInMonth(y, m) :
        LET n == NextDate(y, m, d) IN DaysFromCivil(n[1], n[2], n[3]) = DaysFromCivil(y, m, d) + 1
  /\ DaysFromCivil(y + 1, 1, 1) - DaysFromCivil(y, 1, 1) = (IF IsLeap(y) THEN 366 ELSE 365)
Anchors ==
  /\ DaysFromCivil(1970, 1, 1) = 0
  /\ DaysFromCivil(2000, 3, 1) = 11017
  /\ DaysFromCivil(1677, 9, 21) = -106752
  /\ DaysFromCivil(2262, 4, 11) = 106751
  /\ DaysFromCivil(2020, 2, 3) = 18295
  /\ IsLeap(2000) /\ ~IsLeap(1900) /\ IsLeap(2024) /\ ~IsLeap(2023)
  \* 2020-02-03T04:05:06.000000007Z is 1580702706 s + 7 ns; the same wall clock 5 h east is 5 h earlier
  /\ IEq(CivilInstant(<<2020, 2, 3, 4, 5, 6, 7>>, 0), Instant(I(1580702706), I(7)))
  /\ IEq(CivilInstant(<<2020, 2, 3, 9, 5, 6, 7>>, 18000), Instant(I(1580702706), I(7)))
  /\ CivilOK(MinI64, 0, <<1677, 9, 21, 0, 12, 43, 145224192>>)
  /\ CivilOK(MaxI64, 0, <<2262, 4, 11, 23, 47, 16, 854775807>>)
  /\ ~CivilOK(MaxI64, 0, <<2262, 4, 11, 23, 47, 16, 854775806>>)
  /\ ~CivilOK(Zero, 0, <<1969, 12, 31, 24, 0, 0, 0>>)
  /\ ~ValidCivil(<<2023, 2, 29, 0, 0, 0, 0>>) /\ ~ValidCivil(<<2023, 4, 31, 0, 0, 0, 0>>)

(* ------------------------------------------------------------------- table *)
TableOK ==
  /\ Cardinality(Declared) = 192
  /\ Cardinality(Accepted) = 52
  /\ Cardinality({e \in Accepted : e[2] \in ArithOps}) = 12
  /\ Table("duration", "-", "time") = "reject" /\ Table("float", "/", "duration") = "reject"
  /\ Table("int", "/", "duration") = "reject" /\ Table("int", "-", "duration") = "reject"
  /\ \A e \in Declared : e[2] = "%" => Table(e[1], e[2], e[3]) = "reject"

(* ------------------------------------------------------------------- Judge *)
Val(k, n) == [k |-> k, n |-> n]
Rej == [k |-> "reject"]
Bad(v) == v = "bad"
Fine(v) == v # "bad"
JudgeOK ==
  LET want == Table(L.k, op, R.k) IN
  IF <<L.k, op, R.k>> \notin Declared THEN TRUE
  ELSE IF want = "reject" THEN
       /\ Judge(L, op, R, Rej) = "ok"
       /\ Bad(Judge(L, op, R, Val("time", L.n))) /\ Bad(Judge(L, op, R, Val("duration", R.n)))
       /\ Bad(Judge(L, op, R, [k |-> "bool", b |-> TRUE])) /\ Bad(Judge(L, op, R, [k |-> "other"]))
  ELSE IF want = "bool" THEN
       /\ Judge(L, op, R, [k |-> "bool", b |-> CmpVal(L, op, R)]) = "ok"
       /\ Bad(Judge(L, op, R, [k |-> "bool", b |-> ~CmpVal(L, op, R)]))
       /\ Bad(Judge(L, op, R, Rej))
       \* the zone label never matters
       /\ CmpVal([L EXCEPT !.z = 5], op, R) = CmpVal(L, op, [R EXCEPT !.z = 7])
  ELSE IF op \in {"+", "-", "*"} THEN
       LET ex == Exact(L, op, R)
           rev == Exact(R, op, L)
       IN /\ Judge(L, op, R, Val(want, ex)) = "ok"
          /\ InI64(ex) => Bad(Judge(L, op, R, Val(want, IAdd(ex, I(1)))))
          /\ Bad(Judge(L, op, R, [k |-> "other"]))
          /\ Bad(Judge(L, op, R, Val(IF want = "time" THEN "duration" ELSE "time", ex)))
          /\ InI64(ex) => Bad(Judge(L, op, R, Rej))
          /\ (InI64(ex) /\ ~IEq(ex, rev)) => Bad(Judge(L, op, R, Val(want, rev)))
          /\ (InI64(ex) /\ ~IEq(ex, L.n)) => Bad(Judge(L, op, R, Val(want, L.n)))      \* operand returned unchanged
          /\ ~InI64(ex) => Fine(Judge(L, op, R, Rej))
  ELSE IF op = "//" \/ R.k = "int" THEN
       IF IsZero(R.n) THEN Judge(L, op, R, Rej) = "ok" /\ Bad(Judge(L, op, R, Val(want, Zero)))
       ELSE \* small operands: the native quotient; large ones are covered by the law itself
            (FitsInt(L.n) /\ FitsInt(R.n)) =>
              LET a == ToInt(L.n)  b == ToInt(R.n)
                  fl == IF b > 0 THEN a \div b ELSE (-a) \div (-b)             \* floored quotient
                  tr == IF (a % (IF b > 0 THEN b ELSE -b)) = 0 THEN fl ELSE IF (a < 0) # (b < 0) THEN fl + 1 ELSE fl
              IN /\ Judge(L, op, R, Val(want, I(fl))) = "ok"
                 /\ Fine(Judge(L, op, R, Val(want, I(tr))))
                 /\ Bad(Judge(L, op, R, Val(want, I(fl + 2)))) /\ Bad(Judge(L, op, R, Val(want, I(fl - 1))))
                 /\ Bad(Judge(L, op, R, Rej))
  ELSE IF R.k = "float" THEN            \* duration / (1/2) = 2d
       /\ (~IEq(L.n, MaxI64) /\ ~IEq(L.n, MinI64) /\ ~IEq(L.n, ISub(MaxI64, I(1)))) =>
            /\ Judge(L, op, R, Val("duration", IMul(L.n, I(2)))) = "ok"
            /\ ~IsZero(L.n) => Bad(Judge(L, op, R, Val("duration", INeg(IMul(L.n, I(2))))))
            /\ Bad(Judge(L, op, R, Rej))
            /\ Bad(Judge(L, op, R, Val("duration", IAdd(IMul(L.n, I(2)), I(2)))))
       /\ Judge(L, op, [R EXCEPT !.p = 0], Rej) = "ok"
       /\ Bad(Judge(L, op, [R EXCEPT !.p = 0], Val("duration", Zero)))
  ELSE  \* duration / duration -> float
       LET f(neg, zero) == [k |-> "float", neg |-> neg, zero |-> zero, fin |-> TRUE] IN
       IF IsZero(R.n) THEN Judge(L, op, R, Rej) = "ok" /\ Bad(Judge(L, op, R, f(FALSE, TRUE)))
       ELSE /\ Judge(L, op, R, f(L.n.neg # R.n.neg, IsZero(L.n))) = "ok"
            /\ ~IsZero(L.n) => Bad(Judge(L, op, R, f(L.n.neg = R.n.neg, FALSE)))
            /\ Bad(Judge(L, op, R, f(L.n.neg # R.n.neg, ~IsZero(L.n))))
            /\ Bad(Judge(L, op, R, Rej)) /\ Bad(Judge(L, op, R, Val("duration", L.n)))

(* -------------------------------------------------------------------- laws *)
LawsOK ==
  /\ (L.k = "time" /\ R.k = "duration") =>
        /\ IEq(ISub(IAdd(L.n, R.n), R.n), L.n)                     \* (t + d) - d = t
        /\ IEq(Exact(L, "+", R), Exact(R, "+", L))                 \* t + d = d + t
  /\ (L.k = "time" /\ R.k = "time") => IEq(IAdd(ISub(R.n, L.n), L.n), R.n)   \* (t2 - t1) + t1 = t2
  /\ (L.k = R.k /\ L.k \in TD) =>
        /\ Cardinality({o \in {"<", "==", ">"} : CmpVal(L, o, R)}) = 1        \* trichotomy
        /\ CmpVal(L, "<=", R) = ~CmpVal(L, ">", R) /\ CmpVal(L, ">=", R) = ~CmpVal(L, "<", R)
        /\ CmpVal(L, "!=", R) = ~CmpVal(L, "==", R)
        /\ CmpVal(L, "<", R) = CmpVal(R, ">", L)
        /\ \A M \in {o \in Operands : o.k = L.k} :
              (CmpVal(L, "<=", M) /\ CmpVal(M, "<=", R)) => CmpVal(L, "<=", R)     \* transitivity
  /\ (L.k # R.k) => (~CmpVal(L, "==", R) /\ CmpVal(L, "!=", R))
  \* Exact is the written operation in the written order (anchored to TLC's native integers on small values)
  /\ (FitsInt(L.n) /\ FitsInt(R.n)) =>
        /\ ToInt(Exact(L, "+", R)) = ToInt(L.n) + ToInt(R.n)
        /\ ToInt(Exact(L, "-", R)) = ToInt(L.n) - ToInt(R.n)
        /\ ToInt(Exact(L, "*", R)) = ToInt(L.n) * ToInt(R.n)
  /\ IEq(IAdd(Exact(L, "-", R), R.n), L.n)

(* ---------------------------------------------------------- duration texts *)
H == IMul(I(3600), E9)
DurOK ==
  LET ev(s) == DurEval(s)
      is(s, n) == ev(s).ok /\ ev(s).exact /\ IEq(ev(s).n, n)
  IN /\ is(<<49, 104>>, H)                                            \* "1h"
     /\ is(<<49, 104, 51, 48, 109>>, IAdd(H, IMul(I(1800), E9)))      \* "1h30m"
     /\ is(<<45, 49, 46, 53, 104>>, INeg(IAdd(H, IMul(I(1800), E9)))) \* "-1.5h"
     /\ is(<<46, 53, 115>>, I(500000000))                             \* ".5s"
     /\ is(<<53, 46, 115>>, IMul(I(5), E9))                           \* "5.s"
     /\ is(<<43, 51, 109, 115>>, I(3000000))                          \* "+3ms"
     /\ is(<<49, 194, 181, 115>>, I(1000))                            \* "1µs"
     /\ is(<<49, 46, 53, 194, 181, 115>>, I(1500))                    \* "1.5µs"
     /\ is(<<48, 115>>, Zero)                                         \* "0s"
     /\ is(<<49, 110, 115, 49, 117, 115>>, I(1001))                   \* "1ns1us"
     /\ ev(<<48, 46, 53, 110, 115>>).ok /\ ~ev(<<48, 46, 53, 110, 115>>).exact     \* "0.5ns"
     /\ ~ev(<<>>).ok /\ ~ev(<<49>>).ok /\ ~ev(<<104>>).ok /\ ~ev(<<46, 115>>).ok   \* "" "1" "h" ".s"
     /\ ~ev(<<49, 104, 45, 51, 109>>).ok                              \* "1h-3m"
     /\ ~ev(<<51, 32, 109, 115>>).ok /\ ~ev(<<45>>).ok /\ ~ev(<<49, 120>>).ok      \* "3 ms" "-" "1x"
     /\ ~ev(<<49, 46, 53, 46, 53, 115>>).ok                           \* "1.5.5s"

Inv == CASE mode = "year" -> YearOK
         [] mode = "pair" -> JudgeOK /\ LawsOK
         [] mode = "misc" -> Anchors /\ TableOK /\ DurOK
         [] OTHER -> TRUE
=============================================================================
