------------------------------ MODULE C20Hist ------------------------------
(***************************************************************************)
(* C20 spec -> code (P-B): every transition of ProtoSpec (ideal freezing)  *)
(* within the bounds is printed once, with the history that leads to it   *)
(* (shortest path to the source state + the new operation) and the content *)
(* of every handle predicted after the step.  The history variable is      *)
(* hidden from the state fingerprint by VIEW; its length is kept, so that  *)
(* the enumeration is exactly "every (state, depth) pair within the bound  *)
(* with all its transitions" whatever the order in which TLC's workers     *)
(* reach the states.  In -simulate mode every successor of every state on  *)
(* a random walk is printed.                                               *)
(***************************************************************************)
EXTENDS ProtoSpec, Json
HView == <<core, Len(hist)>>
Emit == PrintT(<<"EDGE", ToJson([h |-> hist', p |-> Proj'])>>)
=============================================================================
