----------------------------- MODULE C02MCGraph -----------------------------
(***************************************************************************)
(* C02, domain 2: value graphs x operations.                               *)
(*                                                                         *)
(* The machine BUILDS a heap with the construction actions a program has   *)
(* (every action is one line of the function the harness executes):        *)
(*   NewLate(k)      n = [0] | {"a": 0} | def n(): return c_n   (closure)  *)
(*   NewFixed(k, c)  n = (c, 1) | struct(f = c) | def n(p = c): ... |      *)
(*                   c.append / c.get  (bound method of list / dict c);    *)
(*                   c = 0 is a leaf (the integer 0)                       *)
(*   AddEdge(a, b)   a.append(b) | a["e"] = b | c_a = b  (captured cell)   *)
(* so all graphs with <= MaxNodes nodes and <= MaxEdges later edges are    *)
(* reached, including every cycle through lists, dicts and closure cells   *)
(* and every way such a cycle passes through tuples, structs, parameter    *)
(* defaults and bound methods.  Every finished construction is emitted     *)
(* once, together with the predicted result class of every operation of    *)
(* CrashDomain!Ops on every node (see Pred below).                         *)
(***************************************************************************)
EXTENDS CrashDomain, Json

CONSTANTS MaxNodes, MaxEdges,
          KindFilter    \* the node kinds of this run (a sub-domain may be explored with more edges)

VARIABLES kind,    \* sequence of node kinds
          child,   \* child[n]: the node fixed at creation (0 = leaf / none)
          late,    \* set of <<a, b>>: edges added after creation
          nlate,   \* number of AddEdge actions so far
          last,    \* code of the last edge added (edges are added in increasing order)
          phase,   \* "nodes" | "edges" | "done"
          hist     \* construction actions in order
vars == <<kind, child, late, nlate, last, phase, hist>>

N == Len(kind)
Nodes == 1..N

Init == /\ kind = <<>> /\ child = <<>> /\ late = {} /\ nlate = 0 /\ last = 0 /\ phase = "nodes" /\ hist = <<>>

NewLate(k) ==
  /\ phase = "nodes" /\ N < MaxNodes /\ k \in LateKinds \cap KindFilter
  /\ kind' = Append(kind, k) /\ child' = Append(child, 0)
  /\ hist' = Append(hist, <<"new", k, 0>>)
  /\ UNCHANGED <<late, nlate, last, phase>>

NewFixed(k, c) ==
  /\ phase = "nodes" /\ N < MaxNodes /\ k \in FixedKinds \cap KindFilter /\ c \in 0..N
  /\ (k = "bound" => c # 0 /\ kind[c] \in {"list", "dict"})
  /\ kind' = Append(kind, k) /\ child' = Append(child, c)
  /\ hist' = Append(hist, <<"new", k, c>>)
  /\ UNCHANGED <<late, nlate, last, phase>>

NodesDone == /\ phase = "nodes" /\ N >= 1 /\ phase' = "edges"
             /\ UNCHANGED <<kind, child, late, nlate, last, hist>>

Code(a, b) == a * 10 + b
AddEdge(a, b) ==
  /\ phase = "edges" /\ a \in Nodes /\ b \in Nodes /\ kind[a] \in LateKinds
  /\ nlate < MaxEdges /\ Code(a, b) > last
  /\ (kind[a] = "closure" => \A e \in late : e[1] # a)      \* one captured variable per closure
  /\ late' = late \cup {<<a, b>>} /\ nlate' = nlate + 1 /\ last' = Code(a, b)
  /\ hist' = Append(hist, <<"edge", a, b>>)
  /\ UNCHANGED <<kind, child, phase>>

Done == /\ phase = "edges" /\ phase' = "done" /\ UNCHANGED <<kind, child, late, nlate, last, hist>>

Next == \/ \E k \in LateKinds : NewLate(k)
        \/ \E k \in FixedKinds, c \in 0..N : NewFixed(k, c)
        \/ NodesDone
        \/ \E a \in Nodes, b \in Nodes : AddEdge(a, b)
        \/ Done

(***************************************************************************)
(* Graph notions                                                           *)
(***************************************************************************)
\* all out-edges
Succ(n) == (IF child[n] # 0 THEN {child[n]} ELSE {}) \cup {e[2] : e \in {e \in late : e[1] = n}}
\* out-edges that printing, comparison and encoding follow
DataSucc(n) == IF kind[n] \in DataKinds THEN Succ(n) ELSE {}

RECURSIVE Closure(_, _, _)
Closure(S, seen, data) ==
  LET nxt == (UNION {IF data THEN DataSucc(n) ELSE Succ(n) : n \in S}) \ (seen \cup S)
  IN IF nxt = {} THEN seen \cup S ELSE Closure(nxt, seen \cup S, data)
DataReach(r) == Closure({r}, {}, TRUE)                  \* includes r
OnDataCycle(n) == n \in Closure(DataSucc(n), {}, TRUE)
Cyclic(r)  == \E n \in DataReach(r) : OnDataCycle(n)    \* a data cycle is reachable from r
HasFn(r)   == \E n \in DataReach(r) : kind[n] \in FnKinds
HasStruct(r) == \E n \in DataReach(r) : kind[n] = "struct"
AnyCycle == \E n \in Nodes : n \in Closure(Succ(n), {}, FALSE)

\* hashable: lists and dicts are not; a tuple or struct is iff its elements are; functions are
\* (by identity).  Well-founded: a fixed child is an OLDER node.
RECURSIVE Hashable(_)
Hashable(n) == IF n = 0 THEN TRUE
               ELSE CASE kind[n] \in {"list", "dict"} -> FALSE
                      [] kind[n] \in {"tuple", "struct"} -> Hashable(child[n])
                      [] OTHER -> TRUE

(***************************************************************************)
(* Predicted result classes (doc/spec.md):                                 *)
(*   "o" a value   "m" a value whose text marks the cycle with "..."       *)
(*   "e" an error  "E" the error "... maximum recursion depth ..."         *)
(*   "*" the language definition does not fix the class                    *)
(* Every operation must TERMINATE with one of them whatever the class.     *)
(***************************************************************************)
Ordered(r) == kind[r] \in {"list", "tuple"}
Pred(r, op) ==
  CASE op \in {"type", "bool", "dir", "freeze"} -> "o"
    [] op = "len" -> IF kind[r] \in {"list", "dict", "tuple"} THEN "o" ELSE "e"
    [] op \in {"str", "repr", "print"} ->
         IF ~Cyclic(r) THEN "o" ELSE IF HasStruct(r) THEN "*" ELSE "m"
    [] op \in {"eq", "in"} ->          \* isomorphic heaps: equal until a function (identity) or the depth limit decides
         IF HasFn(r) THEN "*" ELSE IF Cyclic(r) THEN "E" ELSE "o"
    [] op \in {"eqx", "ltx", "sortedx"} -> "*"     \* several comparisons: each must terminate, the classes are not fixed
    [] op = "eqself" -> IF Cyclic(r) THEN "*" ELSE "o"
    [] op \in {"lt", "sorted"} ->
         IF ~Ordered(r) THEN "e" ELSE IF HasFn(r) THEN "*" ELSE IF Cyclic(r) THEN "E" ELSE "o"
    [] op = "inself" -> IF kind[r] \in {"list", "tuple", "dict"} THEN "*" ELSE "e"   \* membership of an unhashable key: not fixed
    [] op \in {"hash", "dictkey"} ->
         IF kind[r] = "bound" THEN "*" ELSE IF Hashable(r) THEN "o" ELSE "e"
    [] op = "json" -> IF HasFn(r) \/ Cyclic(r) THEN "e" ELSE "o"

RECURSIVE Concat(_)
Concat(ss) == IF ss = <<>> THEN "" ELSE Head(ss) \o Concat(Tail(ss))
PredRow(r) == Concat([i \in 1..Len(Ops) |-> Pred(r, Ops[i])])

TypeOK == /\ Len(child) = N /\ N <= MaxNodes /\ nlate <= MaxEdges
          /\ \A n \in Nodes : child[n] \in 0..(n - 1)
          /\ \A e \in late : kind[e[1]] \in LateKinds
\* every cycle runs through a node whose edges are added late
CyclesNeedLate == \A n \in Nodes : n \in Closure(Succ(n), {}, FALSE) =>
                     \E m \in Closure(Succ(n), {}, FALSE) : kind[m] \in LateKinds

Emit == phase = "done" =>
        PrintT("G" \o ToJson([kinds |-> kind, hist |-> hist, ops |-> Ops, pred |-> [r \in Nodes |-> PredRow(r)],
                              cyc |-> IF AnyCycle THEN 1 ELSE 0]))
Post == PrintT("META" \o ToJson([distinct |-> TLCGet("stats").distinct, ops |-> Ops]))
=============================================================================
