------------------------------- MODULE C11MC -------------------------------
(***************************************************************************)
(* Design-level check of spec/Values.tla (pattern P-E): on a small universe *)
(* of values the oracle itself must satisfy the laws property C11 states -   *)
(* Eq is an equivalence, Ord is a strict weak order whose equivalence is Eq, *)
(* unordered pairs are symmetric, equal values are equally hashable - and    *)
(* StableSortPerm is the ONLY permutation satisfying IsStableSorted, for all *)
(* key sequences up to length 4.  One law per state (kept out of the         *)
(* initial state).                                                          *)
(***************************************************************************)
EXTENDS Values, TLC
VARIABLE step

VI(n)  == [t |-> "int", v |-> n]
VBig(neg, m) == [t |-> "big", neg |-> neg, m |-> m]
VFl(s, e, m) == [t |-> "float", s |-> s, e |-> e, m |-> m]
Z4 == <<0, 0, 0, 0>>
VS(b)  == [t |-> "str", v |-> b]
VB(b)  == [t |-> "bytes", v |-> b]
VT(s)  == [t |-> "tuple", v |-> s]
VL(s)  == [t |-> "list", v |-> s]

P53 == Pow2(53)
Nums == { VI(-1), VI(0), VI(1), VI(2),
          VBig(FALSE, P53.m), VBig(FALSE, IAdd(P53, One).m), VBig(TRUE, P53.m),
          VFl(0, 0, Z4), VFl(1, 0, Z4),                 \* 0.0 -0.0
          VFl(0, 1023, Z4), VFl(1, 1023, Z4),           \* 1.0 -1.0
          VFl(0, 1022, Z4), VFl(0, 0, <<1, 0, 0, 0>>),  \* 0.5, 5e-324
          VFl(0, 1076, Z4), VFl(1, 1076, Z4),           \* 2^53, -2^53
          VFl(0, 2047, Z4), VFl(1, 2047, Z4),           \* inf -inf
          VFl(0, 2047, <<0, 0, 0, 64>>), VFl(1, 2047, <<1, 0, 0, 64>>) }   \* two NaNs
Strs == { VS(<<>>), VS(<<97>>), VS(<<97, 98>>), VS(<<98>>), VS(<<200, 128>>) }
Byts == { VB(<<>>), VB(<<97>>), VB(<<255>>) }
Others == { [t |-> "none"], [t |-> "bool", v |-> TRUE], [t |-> "bool", v |-> FALSE],
            [t |-> "fn", id |-> 1], [t |-> "fn", id |-> 2], [t |-> "builtin", id |-> 1],
            [t |-> "range", start |-> 0, step |-> 2, len |-> 3], [t |-> "range", start |-> 0, step |-> 1, len |-> 0],
            [t |-> "range", start |-> 5, step |-> 7, len |-> 0],
            [t |-> "time", sec |-> Zero, ns |-> 0], [t |-> "time", sec |-> Zero, ns |-> 1], [t |-> "time", sec |-> One, ns |-> 0],
            [t |-> "duration", ns |-> One], [t |-> "duration", ns |-> INeg(One)],
            [t |-> "set", v |-> <<VI(1), VI(2)>>], [t |-> "set", v |-> <<VI(2), VFl(0, 1023, Z4)>>], [t |-> "set", v |-> <<VI(1)>>],
            [t |-> "dict", v |-> << <<VI(1), VI(2)>> >>], [t |-> "dict", v |-> << <<VFl(0, 1023, Z4), VI(2)>> >>],
            [t |-> "struct", v |-> << <<"a", VI(1)>>, <<"b", VI(2)>> >>], [t |-> "struct", v |-> << <<"b", VI(2)>>, <<"a", VFl(0, 1023, Z4)>> >>] }
Small == { VI(0), VI(1), VFl(0, 1023, Z4), VFl(0, 2047, <<0, 0, 0, 64>>), VS(<<97>>) }
Seqs1 == { <<>> } \cup { <<x>> : x \in Small } \cup { <<x, y>> : x \in Small, y \in {VI(1), VI(2), VS(<<97>>)} }
Nest == { VT(<<VT(<<x>>)>>) : x \in {VI(1), VFl(0, 1023, Z4), VI(2)} } \cup { VL(<<VL(<<x>>), VI(0)>>) : x \in {VI(1), VFl(0, 1023, Z4)} }
U == Nums \cup Strs \cup Byts \cup Others \cup { VT(s) : s \in Seqs1 } \cup { VL(s) : s \in Seqs1 } \cup Nest

EqEquiv ==
  /\ \A x \in U : Eq(x, x)
  /\ \A x, y \in U : Eq(x, y) = Eq(y, x)
  /\ \A x, y \in U : Eq(x, y) => \A z \in U : Eq(y, z) => Eq(x, z)
OrdOrder ==
  /\ \A x, y \in U : LET c == Ord(x, y) d == Ord(y, x) IN
        /\ c \in {-1, 0, 1, Unord}
        /\ (c = Unord) = (d = Unord)
        /\ c # Unord => (c = -d /\ ((c = 0) = Eq(x, y)))
        /\ (c = Unord /\ Eq(x, y)) => KindOf(x) \notin {"int", "float", "bool", "str", "bytes", "time", "duration"}
  /\ \A x, y \in U : Ord(x, y) \in {-1, 0} =>
        \A z \in U : Ord(y, z) \in {-1, 0} =>
           /\ Ord(x, z) \in {-1, 0}
           /\ (Ord(x, y) = -1 \/ Ord(y, z) = -1) => Ord(x, z) = -1
OpTable ==
  \A x, y \in U :
     /\ OpExp("ne", x, y) = 1 - OpExp("eq", x, y)
     /\ \A op \in {"lt", "le", "gt", "ge"} : OpExp(op, x, y) \in {0, 1, 2}
     /\ OpExp("gt", x, y) = OpExp("lt", y, x) /\ OpExp("ge", x, y) = OpExp("le", y, x)
     /\ OpExp("lt", x, y) # 2 => OpExp("le", x, y) = (IF OpExp("lt", x, y) = 1 \/ Eq(x, y) THEN 1 ELSE 0)
HashLaw == \A x, y \in U : Eq(x, y) => Hashable(x) = Hashable(y)
SameLaw == \A x, y \in U : Same(x, y) => Eq(x, y)
DepthLaw == \A x, y \in U : PairDepth(x, y) \in 1..4 /\ PairDepth(x, y) = PairDepth(y, x)

Keys == { VI(1), VFl(0, 1023, Z4), VI(2), VFl(0, 2047, <<0, 0, 0, 64>>) }
Perms(n) == { p \in [1..n -> 1..n] : \A a, b \in 1..n : a # b => p[a] # p[b] }
SortLaw ==
  \A n \in 0..4 : \A keys \in [1..n -> Keys] : \A rev \in BOOLEAN :
     LET perm == StableSortPerm(keys, rev) IN
     /\ IsStableSorted(keys, rev, perm)
     /\ \A p \in Perms(n) : IsStableSorted(keys, rev, p) => p = perm
     /\ n > 0 => /\ perm[IF rev THEN n ELSE 1] \in MinIdx(keys)
                 /\ perm[IF rev THEN 1 ELSE n] \in MaxIdx(keys)
HashVectors ==
  /\ JavaStringHash(<<>>) = <<0, 0>>
  /\ JavaStringHash(<<104, 101, 108, 108, 111>>) = <<1513, 6354>>          \* "hello".hashCode() = 99162322
  /\ JavaStringHash(<<240, 159, 152, 128>>) = <<27, 3427>>                 \* U+1F600: 0xD83D*31 + 0xDE00 = 1772899
  /\ JavaStringHash(<<195, 169>>) = <<0, 233>>                             \* U+00E9
NumVectors ==
  /\ NumCmp(VBig(FALSE, IAdd(P53, One).m), VFl(0, 1076, Z4)) = 1          \* 2^53+1 > 2^53 as float
  /\ NumCmp(VBig(FALSE, P53.m), VFl(0, 1076, Z4)) = 0
  /\ NumCmp(VFl(0, 2047, <<0, 0, 0, 64>>), VFl(0, 2047, Z4)) = 1           \* NaN > +inf
  /\ NumCmp(VFl(1, 0, Z4), VI(0)) = 0                                      \* -0.0 = 0
  /\ LexCmp(<<97>>, <<200, 128>>) = -1 /\ LexCmp(<<97>>, <<97, 0>>) = -1

Laws == <<EqEquiv, OrdOrder, OpTable, HashLaw, SameLaw, DepthLaw, SortLaw, HashVectors, NumVectors>>
NLaws == 9
Init == step = 0
Next == step < NLaws /\ step' = step + 1
LawHolds == step = 0 \/ Laws[step]
=============================================================================
