package main

// C05  Frozen values and compiled programs are safe to share between threads.
//
// This file holds what the two bindings of spec/Threads.tla share:
//   * the module that builds one value of every kind (and nested combinations) and is
//     published by finishing (ExecFile freezes its globals),
//   * the shared compiled programs (a succeeding one, a failing one, and one that stores
//     a predeclared value in its globals),
//   * the concrete rendering of every operation of Threads!ReadOps for every value kind
//     (c05Do), each returning a transcript: the text of everything the operation observed,
//   * vh c05-trace: run every operation on every published value on ONE thread with the
//     verif hooks on and record iterator / freeze events for spec/C05Trace.tla
//     (write-after-publish), optionally followed by the repository's own test programs.
// The race runs are in c05race.go.

import (
	"flag"
	"fmt"
	"os"
	"path/filepath"
	"sort"
	"strings"

	sjson "go.starlark.net/lib/json"
	smath "go.starlark.net/lib/math"
	stime "go.starlark.net/lib/time"
	"go.starlark.net/starlark"
	"go.starlark.net/starlarkstruct"
	"go.starlark.net/starlarktest"
	"go.starlark.net/syntax"
)

const c05ModuleSrc = `
L = [1, 2, 3]
D = {"a": L, "b": 2, "c": (4, 5)}
S = set([1, 2, 3, "s"])
T = (L, D, "x", 4.5)
R = struct(f = L, g = 7, h = "s")

def mk():
    c = [10, 20, 30]
    st = {"n": 0}
    def F(i = 0, *args, **kw):
        t = 0
        for e in c:
            t += e
        return (c[i], t, len(L), sorted(st.keys()), [x * 2 for x in c], args, kw)
    def G(v):              # would mutate its captured list
        c.append(v)
        return c
    def G2(v):             # would mutate its captured dict
        st["n"] += v
        return st
    def H(i):              # fails in a nested call: the backtrace needs positions of three functions
        def inner(j):
            return c[j + 100]
        return [inner(k) for k in [i]]
    return F, G, G2, H

F, G, G2, H = mk()
M = L.append
MI = L.index
MD = D.get
MC = D.clear

# empty literals, never inserted into (their hash tables are allocated lazily)
EL = []
ED = {}
ES = set()
ED2 = dict()

# mutable state reachable only through a dict key / set element (closures, bound methods and tuples of them are hashable)
def mkkeys():
    hidden = [1]
    hidden2 = [1]
    def push(v):
        hidden.append(v)
        return len(hidden)
    return {push: "closure", (hidden2.append,): "tuple of bound method"}, set([push, (hidden2.append,)])
KD, KS = mkkeys()

# nested combinations
NL = [L, (D, S), R, [T]]
ND = {"l": NL, "r": R, "t": (T, T), "k": {"deep": [D]}}
NS = set([(1, 2), "a", (("x",), 3)])
NT = (1, (2, "a"), (NS,), NL)
NR = struct(a = R, t = T, d = ND)
HT = (1, (2, "a"), "z")
HR = struct(a = 1, b = (2, 3))

def mk2():
    box = [NL]
    def F2(d = [1, 2]):    # the default value belongs to the frozen closure
        return (box[0][0], d, [y for y in box[0][0]], len(ND))
    def G3(d = [1, 2]):    # would mutate its default value
        d.append(3)
        return d
    def H2():
        return box[0][0][7]
    return F2, G3, H2

F2, G3, H2 = mk2()
`

// helper functions (one shared frozen module, called by every thread)
const c05HelperSrc = `
def index(x):
    t = type(x)
    if t == "list":
        return [x[0], x[-1], x[0:2], x[::-1], len(x), 2 in x, x + x, x * 2, x.index(x[1]), bool(x)]
    if t == "tuple":
        return [x[0], x[-1], x[0:2], x[::-1], len(x), 2 in x, x + x, x * 2, bool(x)]
    if t == "dict":
        k = x.keys()[0]
        return [x[k], x.get(k), x.get("zz", 5), k in x, "zz" in x, len(x), x.keys(), x.values(), x.items(), bool(x)]
    if t == "set":
        return [1 in x, "a" in x, len(x), x.union([9]), x.issubset(x), x.intersection(x), x | x, x & x, x - x, x ^ x, bool(x)]
    if t == "struct":
        return [dir(x), [getattr(x, n) for n in dir(x)], hasattr(x, "zz"), getattr(x, "zz", 3)]
    return fail("index: " + t)

def va(*a):
    return a

# every thread may derive its own values from a shared frozen one and change them: nobody else may notice
def derive(x):
    t = type(x)
    if t == "list":
        ys = [x[:], x[0:2], x[1:], x[::1], list(x), x + [], [] + x, x * 1, reversed(x), [e for e in x]]
        for y in ys:
            if len(y) > 0:
                y[0] = "own"
                y.pop()
            y.append("own")
            y.insert(0, "own")
        return [len(y) for y in ys]
    if t == "tuple":
        ys = [list(x), list(x[:]), list(x[1:]), [e for e in x]]
        for y in ys:
            if len(y) > 0:
                y[0] = "own"
            y.append("own")
        return [len(y) for y in ys]
    if t == "dict":
        ys = [dict(x), x | {}, {} | x, {k: v for k, v in x.items()}, dict(x.items())]
        for y in ys:
            for k in y.keys():
                y[k] = "own"
            y["own"] = 1
            y.popitem()
        ls = [x.keys(), x.values(), x.items()]
        for l in ls:
            if len(l) > 0:
                l[0] = "own"
            l.append("own")
        return [len(y) for y in ys] + [len(l) for l in ls]
    if t == "set":
        ys = [set(x), x | set(), x.union([]), x & x, x - set(), x ^ set()]
        for y in ys:
            y.add("own")
            y.pop()
        return [len(y) for y in ys]
    return []

def iterate(x):
    out = []
    for e in x:
        out.append(e)
    n = 0
    for a in x:
        for b in x:
            n += 1
    m = []
    m.extend(x)
    return [out, [e for e in x], list(x), tuple(x), list(enumerate(x)), list(zip(x, x)), any(x), all(x),
            len(x), n, reversed(x), sorted(x, key = str), min(x, key = str), max(x, key = str), va(*x), m,
            {str(e): e for e in x}]

def compare(x, y):
    return [x == y, x != y, x == x, x != x, x in (y,), [y, x].index(x), {"k": x} == {"k": y}, (x, 1) == (y, 1)]

def order(x, y):
    return [x < y, x <= y, x > y, x >= y]

def hashit(x):
    d = {x: 1}
    return [d[x], x in d, len(set([x, x])), {(x, x): 2}[(x, x)]]

def show(x):
    print(x)
    return [str(x), repr(x), "%s|%r" % (x, x), "{}|{!r}".format(x, x), str([x]), str({"k": (x,)})]

def enc(x):
    return [json.encode(x), json.encode_indent(x, prefix = "", indent = " "), json.decode(json.encode(x))]

def store(x):
    return [[x], {"k": x}, (x, x), struct(v = x)]

def m_append(x): x.append(9)
def m_clear(x): x.clear()
def m_extend(x): x.extend([9])
def m_insert(x): x.insert(0, 9)
def m_pop(x): x.pop()
def m_remove_first(x): x.remove(x[0])
def m_setidx(x): x[0] = 9
def m_iadd(x):
    x += [9]
def m_dpop(x): x.pop(x.keys()[0])
def m_popitem(x): x.popitem()
def m_setdefault(x): x.setdefault("zz", 1)
def m_update(x): x.update([("zz", 1)])
def m_setkey(x): x["zz"] = 1
def m_setkey_existing(x): x[x.keys()[0]] = 1
def m_ior_d(x):
    x |= {"zz": 1}
def e_read(x, y):
    return [len(x), 9 in x, bool(x), list(x), [e for e in x], str(x), x == y, x != y, sorted(x), any(x), json.encode(list(x))]
def e_dget(x): return [x.get(9), x.get("a", 1), x.keys(), x.items(), x | {}]
def m_add(x): x.add(99)
def m_discard(x): x.discard(list(x)[0])
def m_sremove(x): x.remove(list(x)[0])
def m_supdate(x): x.update([99])
`

var c05Mutators = map[string][]string{
	"list": {"m_append", "m_clear", "m_extend", "m_insert", "m_pop", "m_remove_first", "m_setidx", "m_iadd"},
	"dict": {"m_clear", "m_dpop", "m_popitem", "m_setdefault", "m_update", "m_setkey", "m_setkey_existing", "m_ior_d"},
	"set":  {"m_add", "m_clear", "m_discard", "m_pop", "m_sremove", "m_supdate"},
}

// the shared programs
const c05ProgGood = `
consts = [1, 2.5, "s", b"b", 1 << 70]
table = {str(i): [i, i * i] for i in range(8)}
def f(n):
    return [table[str(i)][1] for i in range(n)]
def failing(n):
    def deeper(m):
        return table[str(m)][5]
    return deeper(n)
r = f(5)
`
const c05ProgBad = `
xs = [1, 2, 3]
def a(i):
    return len(b(i)) + 1
def b(i):
    return [c(j) for j in range(i)]
def c(j):
    return xs[j + 2]
ys = a(1)
zs = a(3)
`
const c05ProgStore = `
g = [x, {"k": x}, (x, x)]
def get():
    return x
h = get()
`

var c05Opts = &syntax.FileOptions{Set: true, While: true, TopLevelControl: true, GlobalReassign: true, Recursion: false} // (the recursion check consults per-function state: keep it on)

var c05Kinds = []string{"list", "dict", "set", "tuple", "struct", "closure", "bound", "prog"}

// one published module + the shared programs
type c05Inst struct {
	g       starlark.StringDict
	progs   map[string]*starlark.Program
	pre     starlark.StringDict
	helpers starlark.StringDict
}

var c05Pre = starlark.StringDict{
	"struct": starlark.NewBuiltin("struct", starlarkstruct.Make),
	"json":   sjson.Module,
}

func c05Compile(name, src string, isPre func(string) bool) *starlark.Program {
	_, prog, err := starlark.SourceProgramOptions(c05Opts, name, src, isPre)
	if err != nil {
		panic(fmt.Sprintf("c05: %s does not compile: %v", name, err))
	}
	return prog
}

// c05NewInst executes the module on a fresh thread; its completion is the publication.
func c05NewInst(helpers starlark.StringDict) *c05Inst {
	th := &starlark.Thread{Name: "module"}
	g, err := starlark.ExecFileOptions(c05Opts, th, "module.star", c05ModuleSrc, c05Pre)
	if err != nil {
		panic("c05: module failed: " + err.Error())
	}
	in := &c05Inst{g: g, pre: c05Pre, helpers: helpers, progs: map[string]*starlark.Program{}}
	in.progs["good"] = c05Compile("good.star", c05ProgGood, c05Pre.Has)
	in.progs["bad"] = c05Compile("bad.star", c05ProgBad, c05Pre.Has)
	in.progs["store"] = c05Compile("store.star", c05ProgStore, func(n string) bool { return n == "x" || c05Pre.Has(n) })
	return in
}

func c05Helpers() starlark.StringDict {
	th := &starlark.Thread{Name: "helpers"}
	h, err := starlark.ExecFileOptions(c05Opts, th, "helpers.star", c05HelperSrc, c05Pre)
	if err != nil {
		panic("c05: helpers failed: " + err.Error())
	}
	return h
}

// the value of a kind: variant 0 is the plain value, variant 1 the nested combination
func (in *c05Inst) val(kind string, variant int) starlark.Value {
	names := map[string][2]string{"list": {"L", "NL"}, "dict": {"D", "ND"}, "set": {"S", "NS"}, "tuple": {"T", "NT"},
		"struct": {"R", "NR"}, "closure": {"F", "F2"}, "bound": {"MI", "MD"}}
	return in.g[names[kind][variant%2]]
}

// per-thread environment
type c05Env struct {
	th  *starlark.Thread
	out strings.Builder // what print() wrote
	// a successful mutation of a published value (must never happen)
	mutated []string
}

func c05NewEnv(name string) *c05Env {
	e := &c05Env{}
	e.th = &starlark.Thread{Name: name, Print: func(_ *starlark.Thread, msg string) { e.out.WriteString(msg); e.out.WriteByte('\n') }}
	return e
}

func c05ErrText(err error) string {
	if ee, ok := err.(*starlark.EvalError); ok {
		return "error: " + ee.Msg + " @ " + strings.ReplaceAll(ee.Backtrace(), "\n", " | ")
	}
	return "error: " + err.Error()
}

func (e *c05Env) call(sb *strings.Builder, label string, fn starlark.Value, args ...starlark.Value) (starlark.Value, error) {
	v, err := starlark.Call(e.th, fn, starlark.Tuple(args), nil)
	sb.WriteString(label)
	sb.WriteByte('=')
	if err != nil {
		sb.WriteString(c05ErrText(err))
	} else {
		sb.WriteString(v.String())
	}
	sb.WriteByte(';')
	return v, err
}

func c05W(sb *strings.Builder, label string, v any, err error) {
	if err != nil {
		fmt.Fprintf(sb, "%s=error: %v;", label, err)
	} else {
		fmt.Fprintf(sb, "%s=%v;", label, v)
	}
}

// mutation attempt through the Go API or a method: must be rejected
func (e *c05Env) rejected(sb *strings.Builder, label string, err error) {
	if err == nil {
		e.mutated = append(e.mutated, label)
		sb.WriteString(label + "=MUTATED;")
	} else {
		sb.WriteString(label + "=" + c05ErrText(err) + ";")
	}
}

// c05Do performs one operation of Threads!ReadOps on the value of a kind and returns the transcript.
// twin is a structurally equal value of another published module (for comparisons).
func c05Do(e *c05Env, in *c05Inst, twin *c05Inst, op, kind string, variant int) string {
	var sb strings.Builder
	h := in.helpers
	e.out.Reset()
	if kind == "prog" {
		switch op {
		case "init", "initfail":
			name := "good"
			if op == "initfail" {
				name = "bad"
			}
			g, err := in.progs[name].Init(e.th, in.pre)
			c05W(&sb, "init", "", err)
			if err != nil {
				sb.WriteString(c05ErrText(err) + ";")
			}
			keys := g.Keys()
			sort.Strings(keys)
			for _, k := range keys {
				fmt.Fprintf(&sb, "%s=%v;", k, g[k])
			}
			if op == "init" {
				// run functions of the shared program: one succeeds, one fails (position decoding)
				e.call(&sb, "f", g["f"], starlark.MakeInt(4))
				e.call(&sb, "failing", g["failing"], starlark.MakeInt(3))
				if variant%2 == 1 {
					g.Freeze()
					e.call(&sb, "f-frozen", g["f"], starlark.MakeInt(2))
				}
			}
		default:
			panic("c05: no operation " + op + " on prog")
		}
		return sb.String()
	}
	x := in.val(kind, variant)
	if x == nil {
		panic("c05: no value for kind " + kind)
	}
	y := twin.val(kind, variant)
	if variant%2 == 0 {
		c05DoEmpty(e, &sb, in, twin, op, kind)
	}
	switch op {
	case "index":
		e.call(&sb, "index", h["index"], x)
		e.call(&sb, "derive", h["derive"], x)
		switch x := x.(type) {
		case *starlark.List:
			c05W(&sb, "Index", x.Index(0), nil)
			c05W(&sb, "Len", x.Len(), nil)
		case *starlark.Dict:
			v, found, err := x.Get(starlark.String("a"))
			c05W(&sb, "Get", fmt.Sprint(v, found), err)
			c05W(&sb, "Keys", fmt.Sprint(x.Keys()), nil)
			c05W(&sb, "Items", fmt.Sprint(x.Items()), nil)
		case *starlark.Set:
			found, err := x.Has(starlark.MakeInt(1))
			c05W(&sb, "Has", found, err)
			c05W(&sb, "Len", x.Len(), nil)
		case starlark.Tuple:
			c05W(&sb, "Index", x.Index(0), nil)
		case *starlarkstruct.Struct:
			v, err := x.Attr(x.AttrNames()[0])
			c05W(&sb, "Attr", v, err)
		}
	case "iterate":
		e.call(&sb, "iterate", h["iterate"], x)
		it := starlark.Iterate(x)
		var el starlark.Value
		for it.Next(&el) {
			it2 := starlark.Iterate(x) // a second iterator over the same object
			var el2 starlark.Value
			for it2.Next(&el2) {
			}
			it2.Done()
			sb.WriteString(el.String() + ",")
		}
		it.Done()
		for el := range starlark.Elements(x.(starlark.Iterable)) {
			sb.WriteString(el.String() + ",")
		}
		if d, ok := x.(*starlark.Dict); ok {
			for k, v := range d.Entries() {
				sb.WriteString(k.String() + ":" + v.String() + ",")
			}
		}
	case "compare":
		e.call(&sb, "compare", h["compare"], x, y)
		e.call(&sb, "order", h["order"], x, y)
		eq, err := starlark.Equal(x, y)
		c05W(&sb, "Equal", eq, err)
		lt, err := starlark.Compare(syntax.LT, x, y)
		c05W(&sb, "Less", lt, err)
	case "hash":
		hv, err := x.Hash()
		c05W(&sb, "Hash", hv, err)
		e.call(&sb, "hashit", h["hashit"], x)
		if kind == "tuple" || kind == "struct" {
			hx := in.g[map[string]string{"tuple": "HT", "struct": "HR"}[kind]]
			hv, err := hx.Hash()
			c05W(&sb, "Hash2", hv, err)
			e.call(&sb, "hashit2", h["hashit"], hx)
		}
	case "print":
		sb.WriteString(x.String() + ";")
		e.call(&sb, "show", h["show"], x)
		sb.WriteString(e.out.String())
	case "encode":
		e.call(&sb, "enc", h["enc"], x)
	case "call":
		switch kind {
		case "closure":
			e.call(&sb, "call", x, starlark.MakeInt(1))
			e.call(&sb, "call0", x)
			e.call(&sb, "callF", in.g["F"], starlark.MakeInt(2), starlark.String("extra"))
		case "bound":
			if variant%2 == 0 {
				e.call(&sb, "L.index", x, starlark.MakeInt(2))
			} else {
				e.call(&sb, "D.get", x, starlark.String("a"))
			}
		}
	case "callfail":
		if variant%2 == 0 {
			e.call(&sb, "H", in.g["H"], starlark.MakeInt(0))
			e.call(&sb, "F(100)", in.g["F"], starlark.MakeInt(100))
		} else {
			e.call(&sb, "H2", in.g["H2"])
			e.call(&sb, "H", in.g["H"], starlark.MakeInt(1))
		}
		fn := in.g["H"].(*starlark.Function)
		fmt.Fprintf(&sb, "pos=%v;", fn.Position())
	case "store":
		// a new container that refers to the published value, then frozen: re-freezes the value
		l := starlark.NewList([]starlark.Value{x})
		l.Freeze()
		d := starlark.NewDict(1)
		d.SetKey(starlark.String("k"), x)
		d.Freeze()
		starlark.Tuple{x, x}.Freeze()
		x.Freeze()
		sb.WriteString(l.String() + d.String() + ";")
		if v, err := e.call(&sb, "store", h["store"], x); err == nil {
			v.Freeze()
		}
		// a module that keeps the value in its globals (shared program; ExecFile freezes the globals)
		pre := starlark.StringDict{"x": x, "struct": in.pre["struct"], "json": in.pre["json"]}
		g, err := in.progs["store"].Init(e.th, pre)
		g.Freeze()
		c05W(&sb, "module", g.String(), err)
	case "mutate":
		switch x := x.(type) {
		case *starlark.List:
			e.rejected(&sb, "Append", x.Append(starlark.None))
			e.rejected(&sb, "SetIndex", x.SetIndex(0, starlark.None))
			e.rejected(&sb, "Clear", x.Clear())
		case *starlark.Dict:
			e.rejected(&sb, "SetKey", x.SetKey(starlark.String("zz"), starlark.None))
			_, _, err := x.Delete(starlark.String("a"))
			e.rejected(&sb, "Delete", err)
			e.rejected(&sb, "Clear", x.Clear())
		case *starlark.Set:
			e.rejected(&sb, "Insert", x.Insert(starlark.MakeInt(99)))
			_, err := x.Delete(starlark.MakeInt(1))
			e.rejected(&sb, "Delete", err)
			e.rejected(&sb, "Clear", x.Clear())
		}
		for _, m := range c05Mutators[kind] {
			_, err := starlark.Call(e.th, h[m], starlark.Tuple{x}, nil)
			e.rejected(&sb, m, err)
		}
		switch kind {
		case "closure":
			if variant%2 == 0 {
				_, err := starlark.Call(e.th, in.g["G"], starlark.Tuple{starlark.MakeInt(1)}, nil)
				e.rejected(&sb, "G", err)
				_, err = starlark.Call(e.th, in.g["G2"], starlark.Tuple{starlark.MakeInt(1)}, nil)
				e.rejected(&sb, "G2", err)
			} else {
				_, err := starlark.Call(e.th, in.g["G3"], nil, nil)
				e.rejected(&sb, "G3", err)
			}
		case "bound":
			if variant%2 == 0 {
				_, err := starlark.Call(e.th, in.g["M"], starlark.Tuple{starlark.MakeInt(4)}, nil)
				e.rejected(&sb, "L.append", err)
			} else {
				_, err := starlark.Call(e.th, in.g["MC"], nil, nil)
				e.rejected(&sb, "D.clear", err)
			}
		}
	default:
		panic("c05: unknown operation " + op)
	}
	return sb.String()
}

// the applicability table of the harness; it must equal Threads!Applies (checked against TLC's emission)
func c05Applies(op, kind string) bool {
	in := func(k string, ks ...string) bool {
		for _, x := range ks {
			if x == k {
				return true
			}
		}
		return false
	}
	switch op {
	case "index":
		return in(kind, "list", "dict", "set", "tuple", "struct")
	case "iterate":
		return in(kind, "list", "dict", "set", "tuple")
	case "compare", "hash", "print", "encode", "store":
		return kind != "prog"
	case "call":
		return in(kind, "closure", "bound")
	case "callfail":
		return kind == "closure"
	case "mutate":
		return in(kind, "list", "dict", "set", "closure", "bound")
	case "init", "initfail":
		return kind == "prog"
	}
	return false
}

var c05OpNames = []string{"index", "iterate", "compare", "hash", "print", "encode", "call", "callfail", "store", "mutate", "init", "initfail"}

type c05Combo struct {
	Op string `json:"op"`
	K  string `json:"k"`
}

func c05AllCombos() []c05Combo {
	var out []c05Combo
	for _, op := range c05OpNames {
		for _, k := range c05Kinds {
			if c05Applies(op, k) {
				out = append(out, c05Combo{op, k})
			}
		}
	}
	return out
}

// ---------------------------------------------------------------- hook tracer (single thread only)

type c05Tracer struct {
	w    *ndWriter
	n    int
	ids  map[any]int
	objs []any
	on   bool
}

func (t *c05Tracer) id(o any) int {
	if id, ok := t.ids[o]; ok {
		return id
	}
	id := len(t.ids) + 1
	t.ids[o] = id
	t.objs = append(t.objs, o)
	return id
}

func (t *c05Tracer) emit(o obj) {
	if !t.on {
		return
	}
	t.n++
	o["n"] = t.n
	for _, k := range []string{"o", "c", "fz"} {
		if _, ok := o[k]; !ok {
			o[k] = 0
		}
	}
	if _, ok := o["tag"]; !ok {
		o["tag"] = ""
	}
	t.w.write(o)
}

func c05ObjType(o any) string {
	if _, ok := o.(*starlark.List); ok {
		return "list"
	}
	return "table"
}

func (t *c05Tracer) reset(run string) {
	t.ids = map[any]int{}
	t.objs = nil
	t.emit(obj{"ev": "reset", "tag": run})
}

func (t *c05Tracer) install() {
	starlark.VerifIter = func(delta int, o any) {
		if !t.on {
			return
		}
		ev := "begin"
		if delta < 0 {
			ev = "done"
		}
		t.emit(obj{"ev": ev, "o": t.id(o), "c": starlark.VerifCountOf(o), "ot": c05ObjType(o)})
	}
	starlark.VerifFreeze = func(o any) {
		if t.on {
			t.emit(obj{"ev": "freeze", "o": t.id(o), "ot": c05ObjType(o)})
		}
	}
}

// publish: the module has finished; named are the containers the harness knows to be reachable
// from the globals (the trace spec requires the hooks to have seen the freeze of each)
func (t *c05Tracer) publish(named []starlark.Value) {
	ids := []int{}
	for _, v := range named {
		if o := starlark.VerifTable(v); o != nil {
			ids = append(ids, t.id(o))
		}
	}
	t.emit(obj{"ev": "publish", "objs": ids})
}

// final: the state of every object the hooks have seen, and of the named containers
func (t *c05Tracer) final(named []starlark.Value) {
	seen := map[int]bool{}
	for _, v := range named {
		if o := starlark.VerifTable(v); o != nil {
			c, fz, _ := starlark.VerifIterCount(v)
			f := 0
			if fz {
				f = 1
			}
			id := t.id(o)
			seen[id] = true
			t.emit(obj{"ev": "final", "o": id, "c": int(c), "fz": f})
		}
	}
	for _, o := range append([]any{}, t.objs...) {
		if id := t.id(o); !seen[id] {
			t.emit(obj{"ev": "final", "o": id, "c": starlark.VerifCountOf(o), "fz": -1})
		}
	}
}

// containers reachable from a value through the public API (lists, dicts, sets, tuples, struct fields)
func c05Containers(v starlark.Value, seen map[any]bool, out *[]starlark.Value, depth int) {
	if depth > 6 {
		return
	}
	switch x := v.(type) {
	case *starlark.List:
		if seen[x] {
			return
		}
		seen[x] = true
		*out = append(*out, x)
		for i := 0; i < x.Len(); i++ {
			c05Containers(x.Index(i), seen, out, depth+1)
		}
	case *starlark.Dict:
		if seen[x] {
			return
		}
		seen[x] = true
		*out = append(*out, x)
		for _, kv := range x.Items() {
			c05Containers(kv[0], seen, out, depth+1)
			c05Containers(kv[1], seen, out, depth+1)
		}
	case *starlark.Set:
		if seen[x] {
			return
		}
		seen[x] = true
		*out = append(*out, x)
	case starlark.Tuple:
		for _, y := range x {
			c05Containers(y, seen, out, depth+1)
		}
	case *starlarkstruct.Struct:
		for _, n := range x.AttrNames() {
			if y, err := x.Attr(n); err == nil {
				c05Containers(y, seen, out, depth+1)
			}
		}
	}
}

func c05Named(g starlark.StringDict) []starlark.Value {
	keys := g.Keys()
	sort.Strings(keys)
	seen := map[any]bool{}
	var out []starlark.Value
	for _, k := range keys {
		c05Containers(g[k], seen, &out, 0)
	}
	return out
}

// generic read-only operations on an arbitrary published value (used for the repository's test programs)
func c05Generic(e *c05Env, helpers starlark.StringDict, tr *c05Tracer, run, name string, v starlark.Value) {
	mark := func(op string) { tr.emit(obj{"ev": "op", "tag": run + "/" + op + "/" + v.Type()}) }
	guard := func(f func()) {
		defer func() { recover() }()
		f()
	}
	e.th.Uncancel()
	e.th.SetMaxExecutionSteps(e.th.ExecutionSteps() + 200000)
	// helper functions that materialise the value are only applied to small built-in containers
	small := false
	switch x := v.(type) {
	case *starlark.List, *starlark.Dict, *starlark.Set, starlark.Tuple:
		small = starlark.Len(x) <= 200
	case *starlarkstruct.Struct:
		small = true
	}
	mark("print")
	guard(func() { _ = v.String() })
	mark("hash")
	guard(func() { v.Hash() })
	mark("compare")
	guard(func() { starlark.Equal(v, v) })
	mark("store")
	guard(func() {
		l := starlark.NewList([]starlark.Value{v})
		l.Freeze()
		v.Freeze()
	})
	if it, ok := v.(starlark.Iterable); ok {
		mark("iterate")
		guard(func() {
			i := it.Iterate()
			defer i.Done()
			var x starlark.Value
			for n := 0; n < 1000 && i.Next(&x); n++ {
				j := it.Iterate()
				var y starlark.Value
				j.Next(&y)
				j.Done()
			}
		})
		guard(func() {
			n := 0
			for range starlark.Elements(it) {
				if n++; n > 1000 {
					break
				}
			}
		})
		if small {
			guard(func() { starlark.Call(e.th, helpers["iterate"], starlark.Tuple{v}, nil) })
		}
	}
	if ix, ok := v.(starlark.Indexable); ok && ix.Len() > 0 {
		mark("index")
		guard(func() { ix.Index(0) })
	}
	if ha, ok := v.(starlark.HasAttrs); ok {
		mark("index")
		guard(func() {
			for _, n := range ha.AttrNames() {
				ha.Attr(n)
			}
		})
	}
	if small {
		mark("encode")
		guard(func() { starlark.Call(e.th, helpers["enc"], starlark.Tuple{v}, nil) })
	}
	mark("mutate")
	switch x := v.(type) {
	case *starlark.List:
		e.rejectedQuiet(run+"/"+name+"/Append", x.Append(starlark.None))
		e.rejectedQuiet(run+"/"+name+"/Clear", x.Clear())
		for _, m := range c05Mutators["list"] {
			if x.Len() == 0 && m != "m_append" && m != "m_extend" && m != "m_insert" && m != "m_iadd" {
				continue
			}
			_, err := starlark.Call(e.th, helpers[m], starlark.Tuple{v}, nil)
			e.rejectedQuiet(run+"/"+name+"/"+m, err)
		}
	case *starlark.Dict:
		e.rejectedQuiet(run+"/"+name+"/SetKey", x.SetKey(starlark.String("zz"), starlark.None))
		e.rejectedQuiet(run+"/"+name+"/Clear", x.Clear())
	case *starlark.Set:
		e.rejectedQuiet(run+"/"+name+"/Insert", x.Insert(starlark.String("zz")))
		e.rejectedQuiet(run+"/"+name+"/Clear", x.Clear())
	}
	if fn, ok := v.(*starlark.Function); ok && fn.NumParams() == 0 {
		mark("call")
		guard(func() { starlark.Call(e.th, fn, nil, nil) })
	}
}

// c05DoEmpty repeats the operation on the published EMPTY literal of the kind (a dict / set whose table was
// never allocated: a rejected insertion must not allocate it either, readers run concurrently).
func c05DoEmpty(e *c05Env, sb *strings.Builder, in *c05Inst, twin *c05Inst, op, kind string) {
	names := map[string][]string{"list": {"EL"}, "dict": {"ED", "ED2"}, "set": {"ES"}}
	h := in.helpers
	if op == "mutate" && (kind == "dict" || kind == "set") {
		// keys / elements that reach mutable state: calling them must be rejected (they were frozen with the table)
		name := map[string]string{"dict": "KD", "set": "KS"}[kind]
		it := starlark.Iterate(in.g[name])
		var k starlark.Value
		for it.Next(&k) {
			fn := k
			if t, ok := k.(starlark.Tuple); ok {
				fn = t[0]
			}
			_, err := starlark.Call(e.th, fn, starlark.Tuple{starlark.MakeInt(7)}, nil)
			e.rejected(sb, name+".key()", err)
		}
		it.Done()
	}
	for _, name := range names[kind] {
		x, y := in.g[name], twin.g[name]
		switch op {
		case "index", "iterate", "compare", "print", "encode", "hash":
			e.call(sb, "empty-read:"+name, h["e_read"], x, y)
			if d, ok := x.(*starlark.Dict); ok {
				e.call(sb, "empty-get:"+name, h["e_dget"], x)
				_, found, err := d.Get(starlark.String("a"))
				c05W(sb, "Get", found, err)
			}
			if st, ok := x.(*starlark.Set); ok {
				found, err := st.Has(starlark.MakeInt(1))
				c05W(sb, "Has", found, err)
			}
		case "store":
			l := starlark.NewList([]starlark.Value{x})
			l.Freeze()
			sb.WriteString(l.String() + ";")
		case "mutate":
			// on an empty value some mutators are no-ops that succeed (clear, discard ...): the outcome goes into the
			// transcript, and a mutation is one that leaves the value non-empty
			unchanged := func(label string, err error) {
				c05W(sb, label, "ok", err)
				if starlark.Len(x) != 0 {
					e.mutated = append(e.mutated, label)
					sb.WriteString(label + "=MUTATED;")
				}
			}
			switch x := x.(type) {
			case *starlark.List:
				unchanged(name+".Append", x.Append(starlark.None))
			case *starlark.Dict:
				unchanged(name+".SetKey", x.SetKey(starlark.String("zz"), starlark.None))
			case *starlark.Set:
				unchanged(name+".Insert", x.Insert(starlark.MakeInt(99)))
			}
			for _, m := range c05Mutators[kind] {
				_, err := starlark.Call(e.th, h[m], starlark.Tuple{x}, nil)
				unchanged(name+"."+m, err)
			}
		}
	}
}

func (e *c05Env) rejectedQuiet(label string, err error) {
	if err == nil {
		e.mutated = append(e.mutated, label)
	}
}

func init() {
	register("c05-combos", func(args []string) error {
		// the harness' own applicability table, for comparison with the one of spec/Threads.tla
		w := newNDWriter(os.Stdout)
		defer w.flush()
		for _, c := range c05AllCombos() {
			w.write(c)
		}
		return nil
	})

	register("c05-trace", func(args []string) error {
		fs := flag.NewFlagSet("c05-trace", flag.ExitOnError)
		trace := fs.String("trace", "", "hook trace output (ndjson)")
		out := fs.String("out", "-", "summary (json)")
		only := fs.String("only", "", "restrict to one op/kind")
		repo := fs.String("repo", "", "also run the test programs of this repository root")
		onlyRun := fs.String("onlyrun", "", "restrict the test programs to one run name (file#chunk)")
		fs.Parse(args)
		tf, err := os.Create(*trace)
		if err != nil {
			return err
		}
		defer tf.Close()
		tr := &c05Tracer{ids: map[any]int{}, w: newNDWriter(tf)}
		defer tr.w.flush()
		helpers := c05Helpers() // built before the hooks are on
		twin := c05NewInst(helpers)
		tr.install()
		e := c05NewEnv("solo")
		nops := 0
		transcripts := map[string]string{}
		if *onlyRun == "" {
			tr.on = true
			tr.reset("module")
			in := c05NewInst(helpers) // hooks see the construction and the freeze of the globals
			named := c05Named(in.g)
			tr.publish(named)
			for _, c := range c05AllCombos() {
				if *only != "" && *only != c.Op+"/"+c.K {
					continue
				}
				for variant := 0; variant < 2; variant++ {
					tag := fmt.Sprintf("%s/%s/%d", c.Op, c.K, variant)
					tr.emit(obj{"ev": "op", "tag": tag})
					transcripts[tag] = c05Do(e, in, twin, c.Op, c.K, variant)
					// a second time: lazily initialised state is now initialised
					tr.emit(obj{"ev": "op", "tag": tag})
					if again := c05Do(e, in, twin, c.Op, c.K, variant); again != transcripts[tag] {
						transcripts[tag+"/second-differs"] = again
					}
					nops += 2
				}
			}
			tr.final(named)
			tr.on = false
		}
		nchunks, nvals := 0, 0
		if *repo != "" && *only == "" {
			starlarktest.DataFile = func(pkgdir, filename string) string { return filepath.Join(*repo, pkgdir, filename) }
			files, _ := filepath.Glob(filepath.Join(*repo, "starlark", "testdata", "*.star"))
			more, _ := filepath.Glob(filepath.Join(*repo, "starlarkstruct", "testdata", "*.star"))
			files = append(files, more...)
			sort.Strings(files)
			for _, f := range files {
				data, err := os.ReadFile(f)
				if err != nil {
					return err
				}
				for ci, chunk := range strings.Split("\n"+string(data), "\n---\n") {
					run := fmt.Sprintf("%s#%d", filepath.Base(f), ci)
					if *onlyRun != "" && *onlyRun != run {
						continue
					}
					pre := starlark.StringDict{"struct": c05Pre["struct"], "json": sjson.Module, "math": smath.Module, "time": stime.Module}
					th := &starlark.Thread{Name: "td", Print: func(*starlark.Thread, string) {}}
					th.SetMaxExecutionSteps(50_000_000)
					th.Load = func(t *starlark.Thread, module string) (starlark.StringDict, error) {
						if module == "assert.star" {
							return starlarktest.LoadAssertModule()
						}
						return nil, fmt.Errorf("no module %s", module)
					}
					starlarktest.SetReporter(th, nopReporter{})
					tr.on = true
					tr.reset(run)
					var g starlark.StringDict
					func() {
						defer func() { recover() }()
						g, _ = starlark.ExecFileOptions(c05Opts, th, filepath.Base(f), chunk, pre)
					}()
					nchunks++
					if g == nil {
						tr.on = false
						continue
					}
					named := c05Named(g)
					tr.publish(named)
					ge := c05NewEnv("td-reader")
					starlarktest.SetReporter(ge.th, nopReporter{})
					keys := g.Keys()
					sort.Strings(keys)
					for _, k := range keys {
						nvals++
						c05Generic(ge, helpers, tr, run, k, g[k])
					}
					e.mutated = append(e.mutated, ge.mutated...)
					tr.final(named)
					tr.on = false
				}
			}
		}
		w, err := openOut(*out)
		if err != nil {
			return err
		}
		defer w.Close()
		nw := newNDWriter(w)
		defer nw.flush()
		nw.write(obj{"summary": true, "ops": nops, "events": tr.n, "chunks": nchunks, "values": nvals,
			"mutated": append([]string{}, e.mutated...), "transcripts": transcripts})
		return nil
	})
}
