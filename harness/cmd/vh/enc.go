package main

// JSON encoding of Starlark values for TLC (DESIGN 1.3): TLC integers are 32-bit
// and strings cannot be indexed, so big integers travel as limbs base 2^15,
// floats as (sign, biased exponent, mantissa limbs), text and bytes as arrays
// of byte values. JSON null is never used.

import (
	"fmt"
	"math"
	"math/big"
	"sort"

	"go.starlark.net/starlark"
	"go.starlark.net/starlarkstruct"
)

type obj = map[string]any

const limbBits = 15

func limbsOf(x *big.Int) []int {
	a := new(big.Int).Abs(x)
	out := []int{}
	mask := big.NewInt(1<<limbBits - 1)
	t := new(big.Int)
	for a.Sign() != 0 {
		out = append(out, int(t.And(a, mask).Int64()))
		a.Rsh(a, limbBits)
	}
	return out
}

func encBig(x *big.Int) obj {
	return obj{"neg": x.Sign() < 0, "m": limbsOf(x)}
}

func bigFromLimbs(neg bool, m []int) *big.Int {
	x := new(big.Int)
	for i := len(m) - 1; i >= 0; i-- {
		x.Lsh(x, limbBits)
		x.Or(x, big.NewInt(int64(m[i])))
	}
	if neg {
		x.Neg(x)
	}
	return x
}

func encFloat(f float64) obj {
	b := math.Float64bits(f)
	mant := new(big.Int).SetUint64(b & (1<<52 - 1))
	m := limbsOf(mant)
	for len(m) < 4 {
		m = append(m, 0)
	}
	return obj{"t": "float", "s": int(b >> 63), "e": int((b >> 52) & 0x7ff), "m": m}
}

func byteArr(s string) []int {
	out := make([]int, len(s))
	for i := 0; i < len(s); i++ {
		out[i] = int(s[i])
	}
	return out
}

type encoder struct {
	ids   bool // emit object identities and back references
	seen  map[any]int
	depth int
}

func encValue(v starlark.Value) obj { return (&encoder{}).enc(v) }

func (e *encoder) ref(key any) (obj, int) {
	if e.seen == nil {
		e.seen = map[any]int{}
	}
	if id, ok := e.seen[key]; ok {
		return obj{"t": "ref", "id": id}, id
	}
	id := len(e.seen) + 1
	e.seen[key] = id
	return nil, id
}

func (e *encoder) enc(v starlark.Value) obj {
	e.depth++
	defer func() { e.depth-- }()
	if e.depth > 200 {
		return obj{"t": "deep"}
	}
	switch v := v.(type) {
	case nil:
		return obj{"t": "nil"}
	case starlark.NoneType:
		return obj{"t": "none"}
	case starlark.Bool:
		return obj{"t": "bool", "v": bool(v)}
	case starlark.Int:
		b := v.BigInt()
		if b.IsInt64() && b.Int64() > -(1<<30) && b.Int64() < (1<<30) {
			return obj{"t": "int", "v": int(b.Int64())}
		}
		return obj{"t": "big", "neg": b.Sign() < 0, "m": limbsOf(b)}
	case starlark.Float:
		return encFloat(float64(v))
	case starlark.String:
		return obj{"t": "str", "v": byteArr(string(v))}
	case starlark.Bytes:
		return obj{"t": "bytes", "v": byteArr(string(v))}
	case *starlark.List:
		var id int
		if e.ids {
			var r obj
			if r, id = e.ref(v); r != nil {
				return r
			}
		} else if r, _ := e.cyc(v); r != nil {
			return r
		} else {
			defer e.uncyc(v)
		}
		xs := []obj{}
		for i := 0; i < v.Len(); i++ {
			xs = append(xs, e.enc(v.Index(i)))
		}
		o := obj{"t": "list", "v": xs}
		if e.ids {
			o["id"] = id
		}
		return o
	case starlark.Tuple:
		xs := []obj{}
		for _, x := range v {
			xs = append(xs, e.enc(x))
		}
		return obj{"t": "tuple", "v": xs}
	case *starlark.Dict:
		var id int
		if e.ids {
			var r obj
			if r, id = e.ref(v); r != nil {
				return r
			}
		} else if r, _ := e.cyc(v); r != nil {
			return r
		} else {
			defer e.uncyc(v)
		}
		xs := [][]obj{}
		for _, it := range v.Items() {
			xs = append(xs, []obj{e.enc(it[0]), e.enc(it[1])})
		}
		o := obj{"t": "dict", "v": xs}
		if e.ids {
			o["id"] = id
		}
		return o
	case *starlark.Set:
		var id int
		if e.ids {
			var r obj
			if r, id = e.ref(v); r != nil {
				return r
			}
		}
		xs := []obj{}
		it := v.Iterate()
		var x starlark.Value
		for it.Next(&x) {
			xs = append(xs, e.enc(x))
		}
		it.Done()
		o := obj{"t": "set", "v": xs}
		if e.ids {
			o["id"] = id
		}
		return o
	case *starlarkstruct.Struct:
		if r, _ := e.cyc(v); r != nil {
			return r
		}
		defer e.uncyc(v)
		names := v.AttrNames()
		sort.Strings(names)
		xs := [][]any{}
		for _, n := range names {
			a, _ := v.Attr(n)
			xs = append(xs, []any{n, e.enc(a)})
		}
		return obj{"t": "struct", "v": xs}
	case *hostObj:
		if r, _ := e.cyc(v); r != nil {
			return r
		}
		defer e.uncyc(v)
		xs := [][]any{}
		for i, n := range v.names {
			xs = append(xs, []any{n, e.enc(v.vals[i])})
		}
		return obj{"t": "obj", "v": xs}
	default:
		if v.Type() == "range" {
			if seq, ok := v.(starlark.Indexable); ok {
				// a range prints as range(a, b[, c]); keep the text and the length
				return obj{"t": "range", "s": v.String(), "len": seq.Len()}
			}
		}
		return obj{"t": "other", "type": v.Type(), "s": safeString(v)}
	}
}

// cycle guard for the id-less mode
func (e *encoder) cyc(key any) (obj, bool) {
	if e.seen == nil {
		e.seen = map[any]int{}
	}
	if _, ok := e.seen[key]; ok {
		return obj{"t": "cycle"}, true
	}
	e.seen[key] = 1
	return nil, false
}
func (e *encoder) uncyc(key any) { delete(e.seen, key) }

func safeString(v starlark.Value) (s string) {
	defer func() {
		if r := recover(); r != nil {
			s = fmt.Sprintf("<panic in String: %v>", r)
		}
	}()
	s = v.String()
	if len(s) > 200 {
		s = s[:200]
	}
	return s
}
