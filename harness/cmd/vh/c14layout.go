package main

// vh c14-layout: replay the indentation skeletons enumerated by spec/LayoutMC.tla on the
// real scanner and parser: the text is a program iff Layout!Nest says so, and the nesting
// of the statements equals the one the specification derives from the indentation.

import (
	"encoding/json"
	"flag"
	"strings"

	"go.starlark.net/syntax"
)

type c14Line struct {
	Col  int    `json:"col"`
	Kind string `json:"kind"`
}

type c14Skel struct {
	Lines []c14Line `json:"lines"`
	OK    bool      `json:"ok"`
	Nest  []struct {
		Kind  string `json:"kind"`
		Depth int    `json:"depth"`
	} `json:"nest"`
}

func c14Indent(col int, tabs bool) string {
	if tabs && col >= 8 {
		return "\t" + strings.Repeat(" ", col-8) // a tab advances to column 8
	}
	return strings.Repeat(" ", col)
}

func c14Render(s *c14Skel, tabs bool, crlf bool) string {
	var b strings.Builder
	for _, l := range s.Lines {
		b.WriteString(c14Indent(l.Col, tabs))
		switch l.Kind {
		case "open":
			b.WriteString("if x:")
		case "stmt":
			b.WriteString("pass")
		case "comment":
			b.WriteString("# c")
		}
		if crlf {
			b.WriteString("\r\n")
		} else {
			b.WriteString("\n")
		}
	}
	return b.String()
}

func c14Walk(stmts []syntax.Stmt, depth int, out *[][2]any) {
	for _, st := range stmts {
		if ifs, ok := st.(*syntax.IfStmt); ok {
			*out = append(*out, [2]any{"open", depth})
			c14Walk(ifs.True, depth+1, out)
			continue
		}
		*out = append(*out, [2]any{"stmt", depth})
	}
}

func init() {
	register("c14-layout", func(args []string) error {
		fs := flag.NewFlagSet("c14-layout", flag.ExitOnError)
		in := fs.String("in", "-", "")
		out := fs.String("out", "-", "")
		fs.Parse(args)
		r, err := openIn(*in)
		if err != nil {
			return err
		}
		defer r.Close()
		w, err := openOut(*out)
		if err != nil {
			return err
		}
		defer w.Close()
		nw := newNDWriter(w)
		defer nw.flush()
		opts := &syntax.FileOptions{TopLevelControl: true}
		n, texts, nprob, nok := 0, 0, 0, 0
		err = readCases(r, func(raw json.RawMessage) error {
			var s c14Skel
			if err := json.Unmarshal(raw, &s); err != nil {
				return err
			}
			n++
			if s.OK {
				nok++
			}
			for _, variant := range [][2]bool{{false, false}, {true, false}, {true, true}} {
				text := c14Render(&s, variant[0], variant[1])
				texts++
				var what string
				func() {
					defer func() {
						if p := recover(); p != nil {
							what = "parser panic"
						}
					}()
					f, perr := opts.Parse("skel.star", text, 0)
					if perr != nil {
						if s.OK {
							what = "rejected (" + perr.Error() + ") although the specification nests it"
						}
						return
					}
					if !s.OK {
						what = "accepted although the indentation is not that of a program"
						return
					}
					var got [][2]any
					c14Walk(f.Stmts, 0, &got)
					if len(got) != len(s.Nest) {
						what = "different number of statements"
						return
					}
					for i, g := range got {
						if g[0] != s.Nest[i].Kind || g[1] != s.Nest[i].Depth {
							what = "different nesting"
							return
						}
					}
				}()
				if what != "" {
					nprob++
					nw.write(obj{"skel": raw, "tabs": variant[0], "crlf": variant[1], "text": text, "what": what})
					break
				}
			}
			return nil
		})
		nw.write(obj{"summary": true, "skeletons": n, "texts": texts, "nested": nok, "problems": nprob})
		return err
	})
}
