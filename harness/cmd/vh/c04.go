package main

// vh c04-run: render the construction histories emitted by spec/C04MC.tla as
// modules, execute them with the real pipeline (success or failure of module
// initialisation), then probe every node: a mutable node that the model says is
// reachable from the globals must reject every would-change operation (Go API,
// Starlark methods, index/augmented assignment, functions of the module that
// mutate captured values, bound methods) and must not change; an unreachable one
// must still be mutable.  The predeclared environment and the universe must be
// unchanged.

import (
	"encoding/json"
	"flag"
	"fmt"
	"sort"
	"strings"

	"go.starlark.net/starlark"
	"go.starlark.net/starlarkstruct"
	"go.starlark.net/syntax"
)

type c04Graph struct {
	Hist   [][]any  `json:"hist"`
	Frozen []int    `json:"frozen"`
	Kinds  []string `json:"kinds"`
}

// a closure frozen by the host while its defining function is still running, whose captured
// variable is rebound afterwards: the new value must still be frozen when the module finishes
const c04Prelude = `def mkreb(b):
    x = [1]
    def get():
        return x
    hostfreeze(get)
    x = b
    return get
def fz(x):
    hostfreeze(x)
    return x
def mkboxreb(b):
    x = [1]
    def get():
        return x
    box = (get,)
    keepbox = [box]
    hostfreeze(keepbox)
    x = b
    return keepbox
`

func c04Source(g *c04Graph) string {
	var b strings.Builder
	b.WriteString(c04Prelude)
	n := 0
	for _, h := range g.Hist {
		op := h[0].(string)
		switch op {
		case "new":
			n++
			k := h[1].(string)
			c := int(h[2].(float64))
			var e string
			switch k {
			case "list":
				e = "[0]"
			case "dict":
				e = `{"a": 0}`
			case "set":
				e = "set([0])"
			case "tuple":
				e = fmt.Sprintf("(node(%d), 1)", c)
			case "struct":
				e = fmt.Sprintf("struct(f = node(%d))", c)
			case "structsum":
				e = fmt.Sprintf("fz(struct(a = 1)) + struct(f = node(%d))", c)
			case "default":
				e = fmt.Sprintf("lambda x = node(%d): x", c)
			case "closure":
				e = fmt.Sprintf("(lambda v: lambda: v)(node(%d))", c)
			case "mutclosure":
				e = fmt.Sprintf("(lambda v: lambda: mut(v))(node(%d))", c)
			case "rebclosure":
				e = fmt.Sprintf("mkreb(node(%d))", c)
			case "boxreb":
				e = fmt.Sprintf("mkboxreb(node(%d))", c)
			case "bound":
				m := map[string]string{"list": "append", "dict": "setdefault", "set": "add"}[g.Kinds[c-1]]
				e = fmt.Sprintf("node(%d).%s", c, m)
			}
			fmt.Fprintf(&b, "keep(%d, %s)\n", n, e)
		case "edge":
			a, c := int(h[1].(float64)), int(h[2].(float64))
			if g.Kinds[a-1] == "list" {
				fmt.Fprintf(&b, "node(%d).append(node(%d))\n", a, c)
			} else {
				fmt.Fprintf(&b, "node(%d)[\"e%d\"] = node(%d)\n", a, c, c)
			}
		case "kedge":
			a, c := int(h[1].(float64)), int(h[2].(float64))
			if g.Kinds[a-1] == "dict" {
				fmt.Fprintf(&b, "node(%d)[node(%d)] = 0\n", a, c)
			} else {
				fmt.Fprintf(&b, "node(%d).add(node(%d))\n", a, c)
			}
		case "global":
			i := int(h[1].(float64))
			fmt.Fprintf(&b, "g%d = node(%d)\n", i, i)
		case "finish":
			if h[1].(string) == "fail" {
				b.WriteString("boom()\n")
			}
		}
	}
	return b.String()
}

// identity-aware serialisation of the heap below a value (terminates on every cycle)
func c04Ser(v starlark.Value, seen map[any]int, sb *strings.Builder) {
	key := any(nil)
	switch x := v.(type) {
	case *starlark.List:
		key = x
	case *starlark.Dict:
		key = x
	case *starlark.Set:
		key = x
	case *starlarkstruct.Struct:
		key = x
	case *starlark.Function:
		key = x
	}
	if key != nil {
		if id, ok := seen[key]; ok {
			fmt.Fprintf(sb, "#%d", id)
			return
		}
		seen[key] = len(seen) + 1
	}
	switch x := v.(type) {
	case *starlark.List:
		sb.WriteString("[")
		for i := 0; i < x.Len(); i++ {
			c04Ser(x.Index(i), seen, sb)
			sb.WriteString(",")
		}
		sb.WriteString("]")
	case *starlark.Dict:
		sb.WriteString("{")
		for _, kv := range x.Items() {
			c04Ser(kv[0], seen, sb)
			sb.WriteString(":")
			c04Ser(kv[1], seen, sb)
			sb.WriteString(",")
		}
		sb.WriteString("}")
	case *starlark.Set:
		sb.WriteString("set(" + x.String() + ")")
	case starlark.Tuple:
		sb.WriteString("(")
		for _, e := range x {
			c04Ser(e, seen, sb)
			sb.WriteString(",")
		}
		sb.WriteString(")")
	case *starlarkstruct.Struct:
		sb.WriteString("struct(")
		names := x.AttrNames()
		sort.Strings(names)
		for _, n := range names {
			a, _ := x.Attr(n)
			sb.WriteString(n + "=")
			c04Ser(a, seen, sb)
			sb.WriteString(",")
		}
		sb.WriteString(")")
	case *starlark.Function:
		sb.WriteString("fn(")
		for i := 0; i < x.NumParams(); i++ {
			if d := x.ParamDefault(i); d != nil {
				c04Ser(d, seen, sb)
			}
		}
		sb.WriteString(")")
	case *starlark.Builtin:
		sb.WriteString("builtin:" + x.Name() + "(")
		if r := x.Receiver(); r != nil {
			c04Ser(r, seen, sb)
		}
		sb.WriteString(")")
	default:
		sb.WriteString(v.String())
	}
}

func c04Snap(v starlark.Value) string {
	var sb strings.Builder
	c04Ser(v, map[any]int{}, &sb)
	return sb.String()
}

type c04Mut struct {
	name string
	f    func(th *starlark.Thread, h starlark.StringDict, v starlark.Value) error
}

func c04Method(th *starlark.Thread, v starlark.Value, name string, args ...starlark.Value) error {
	m, err := v.(starlark.HasAttrs).Attr(name)
	if err != nil || m == nil {
		return fmt.Errorf("no method %s", name)
	}
	_, err = starlark.Call(th, m, starlark.Tuple(args), nil)
	return err
}

const c04Helpers = `
def setidx(x): x[0] = 5
def iadd(x):
    x += [1]
def iadd_tuple(x):
    x += (1,)
def iadd_range(x):
    x += range(2)
def iadd_dict(x):
    x += {"k": 1}
def iadd_set(x):
    x += set([1])
def iadd_elem(x):
    o = [x]
    o[0] += (1,)
# values DERIVED from a frozen value are fresh and mutable; changing them must not show through the frozen value
def derive_list(x):
    ys = [x[:], x[0:len(x)], x[1:], x[:-1], x[::1], x[::-1], list(x), x + [], [] + x, x * 1, reversed(x), [e for e in x]]
    for y in ys:
        if len(y) > 0:
            y[0] = "patched"
            y[-1] = "patched"
            y.pop(0)
        y.insert(0, "new")
        if len(y) > 1:
            y.pop(1)
        y.clear()
    return len(ys)
def derive_dict(x):
    ys = [dict(x), x | {}, {} | x, {k: v for k, v in x.items()}, dict(x.items()), dict(**{k: v for k, v in x.items() if type(k) == "string"})]
    for y in ys:
        for k in y.keys():
            y[k] = "patched"
        y["zz"] = 1
        if len(y) > 1:
            y.popitem()
        y.clear()
    for l in [x.keys(), x.values(), x.items()]:
        if len(l) > 0:
            l[0] = "patched"
            l.pop()
        l.clear()
    return len(ys)
def derive_set(x):
    ys = [set(x), x | set(), set() | x, x.union([]), x & x, x - set(), x.intersection(x), x.difference([]), x ^ set()]
    for y in ys:
        y.add("zz")
        if len(y) > 1:
            y.pop()
        y.clear()
    return len(ys)
def ior9(d):
    d |= {"big%d" % i: 9 for i in range(9)}
def setkey(d): d["zz"] = 1
def setkey2(d): d["a"] = 5
def ior(d):
    d |= {"zz": 1}
`

var nine = starlark.MakeInt(9)

func c04Mutators(kind string) []c04Mut {
	call := func(name string) func(*starlark.Thread, starlark.StringDict, starlark.Value) error {
		return func(th *starlark.Thread, h starlark.StringDict, v starlark.Value) error {
			_, err := starlark.Call(th, h[name], starlark.Tuple{v}, nil)
			return err
		}
	}
	switch kind {
	case "list":
		return []c04Mut{
			{"go:Append", func(_ *starlark.Thread, _ starlark.StringDict, v starlark.Value) error { return v.(*starlark.List).Append(nine) }},
			{"go:SetIndex", func(_ *starlark.Thread, _ starlark.StringDict, v starlark.Value) error { return v.(*starlark.List).SetIndex(0, nine) }},
			{"go:Clear", func(_ *starlark.Thread, _ starlark.StringDict, v starlark.Value) error { return v.(*starlark.List).Clear() }},
			{"append", func(th *starlark.Thread, _ starlark.StringDict, v starlark.Value) error { return c04Method(th, v, "append", nine) }},
			{"clear", func(th *starlark.Thread, _ starlark.StringDict, v starlark.Value) error { return c04Method(th, v, "clear") }},
			{"extend", func(th *starlark.Thread, _ starlark.StringDict, v starlark.Value) error { return c04Method(th, v, "extend", starlark.Tuple{nine}) }},
			{"insert", func(th *starlark.Thread, _ starlark.StringDict, v starlark.Value) error { return c04Method(th, v, "insert", starlark.MakeInt(0), nine) }},
			{"pop", func(th *starlark.Thread, _ starlark.StringDict, v starlark.Value) error { return c04Method(th, v, "pop") }},
			{"remove", func(th *starlark.Thread, _ starlark.StringDict, v starlark.Value) error { return c04Method(th, v, "remove", starlark.MakeInt(0)) }},
			{"x[i]=", call("setidx")},
			{"x+=", call("iadd")},
			{"x+=tuple", call("iadd_tuple")},
			{"x+=range", call("iadd_range")},
			{"x+=dict", call("iadd_dict")},
			{"x+=set", call("iadd_set")},
			{"o[0]+=tuple", call("iadd_elem")},
			{"extend(list)", func(th *starlark.Thread, _ starlark.StringDict, v starlark.Value) error {
				return c04Method(th, v, "extend", starlark.NewList([]starlark.Value{nine}))
			}},
			{"insert(-1)", func(th *starlark.Thread, _ starlark.StringDict, v starlark.Value) error { return c04Method(th, v, "insert", starlark.MakeInt(-1), nine) }},
		}
	case "dict":
		return []c04Mut{
			{"go:SetKey", func(_ *starlark.Thread, _ starlark.StringDict, v starlark.Value) error { return v.(*starlark.Dict).SetKey(starlark.String("zz"), nine) }},
			{"go:SetKey-existing", func(_ *starlark.Thread, _ starlark.StringDict, v starlark.Value) error { return v.(*starlark.Dict).SetKey(starlark.String("a"), nine) }},
			{"go:Delete", func(_ *starlark.Thread, _ starlark.StringDict, v starlark.Value) error { _, _, err := v.(*starlark.Dict).Delete(starlark.String("a")); return err }},
			{"go:Clear", func(_ *starlark.Thread, _ starlark.StringDict, v starlark.Value) error { return v.(*starlark.Dict).Clear() }},
			{"clear", func(th *starlark.Thread, _ starlark.StringDict, v starlark.Value) error { return c04Method(th, v, "clear") }},
			{"pop", func(th *starlark.Thread, _ starlark.StringDict, v starlark.Value) error { return c04Method(th, v, "pop", starlark.String("a")) }},
			{"popitem", func(th *starlark.Thread, _ starlark.StringDict, v starlark.Value) error { return c04Method(th, v, "popitem") }},
			{"setdefault", func(th *starlark.Thread, _ starlark.StringDict, v starlark.Value) error { return c04Method(th, v, "setdefault", starlark.String("zz")) }},
			{"update", func(th *starlark.Thread, _ starlark.StringDict, v starlark.Value) error {
				return c04Method(th, v, "update", starlark.NewList([]starlark.Value{starlark.Tuple{starlark.String("zz"), nine}}))
			}},
			{"update(dict)", func(th *starlark.Thread, _ starlark.StringDict, v starlark.Value) error {
				d := starlark.NewDict(1)
				d.SetKey(starlark.String("zz"), nine)
				return c04Method(th, v, "update", d)
			}},
			{"setdefault(k, v)", func(th *starlark.Thread, _ starlark.StringDict, v starlark.Value) error { return c04Method(th, v, "setdefault", starlark.String("zz"), nine) }},
			{"update(dict of 9)", func(th *starlark.Thread, _ starlark.StringDict, v starlark.Value) error {
				// enough entries to make the table grow (a bulk insertion may size the table before it inserts)
				d := starlark.NewDict(9)
				for i := 0; i < 9; i++ {
					d.SetKey(starlark.String(fmt.Sprintf("big%d", i)), nine)
				}
				return c04Method(th, v, "update", d)
			}},
			{"update(9 pairs)", func(th *starlark.Thread, _ starlark.StringDict, v starlark.Value) error {
				var ps []starlark.Value
				for i := 0; i < 9; i++ {
					ps = append(ps, starlark.Tuple{starlark.String(fmt.Sprintf("big%d", i)), nine})
				}
				return c04Method(th, v, "update", starlark.NewList(ps))
			}},
			{"d|=dict of 9", call("ior9")},
			{"d[k]=", call("setkey")},
			{"d[k]=existing", call("setkey2")},
			{"d|=", call("ior")},
		}
	case "set":
		return []c04Mut{
			{"go:Insert", func(_ *starlark.Thread, _ starlark.StringDict, v starlark.Value) error { return v.(*starlark.Set).Insert(nine) }},
			{"go:Delete", func(_ *starlark.Thread, _ starlark.StringDict, v starlark.Value) error { _, err := v.(*starlark.Set).Delete(starlark.MakeInt(0)); return err }},
			{"go:Clear", func(_ *starlark.Thread, _ starlark.StringDict, v starlark.Value) error { return v.(*starlark.Set).Clear() }},
			{"add", func(th *starlark.Thread, _ starlark.StringDict, v starlark.Value) error { return c04Method(th, v, "add", nine) }},
			{"clear", func(th *starlark.Thread, _ starlark.StringDict, v starlark.Value) error { return c04Method(th, v, "clear") }},
			{"discard", func(th *starlark.Thread, _ starlark.StringDict, v starlark.Value) error { return c04Method(th, v, "discard", starlark.MakeInt(0)) }},
			{"pop", func(th *starlark.Thread, _ starlark.StringDict, v starlark.Value) error { return c04Method(th, v, "pop") }},
			{"remove", func(th *starlark.Thread, _ starlark.StringDict, v starlark.Value) error { return c04Method(th, v, "remove", starlark.MakeInt(0)) }},
			{"update", func(th *starlark.Thread, _ starlark.StringDict, v starlark.Value) error { return c04Method(th, v, "update", starlark.Tuple{nine}) }},
			{"update(list of 9)", func(th *starlark.Thread, _ starlark.StringDict, v starlark.Value) error {
				var xs []starlark.Value
				for i := 0; i < 9; i++ {
					xs = append(xs, starlark.MakeInt(100+i))
				}
				return c04Method(th, v, "update", starlark.NewList(xs))
			}},
			{"update(list, set)", func(th *starlark.Thread, _ starlark.StringDict, v starlark.Value) error {
				s2 := starlark.NewSet(1)
				s2.Insert(starlark.MakeInt(8))
				return c04Method(th, v, "update", starlark.NewList([]starlark.Value{nine}), s2)
			}},
		}
	}
	return nil
}

// benign mutation that is undone (for nodes that must still be mutable)
func c04Benign(th *starlark.Thread, v starlark.Value) error {
	switch v := v.(type) {
	case *starlark.List:
		if err := v.Append(nine); err != nil {
			return err
		}
		return c04Method(th, v, "pop")
	case *starlark.Dict:
		if err := v.SetKey(starlark.String("tmp"), nine); err != nil {
			return err
		}
		_, _, err := v.Delete(starlark.String("tmp"))
		return err
	case *starlark.Set:
		if err := v.Insert(nine); err != nil {
			return err
		}
		_, err := v.Delete(nine)
		return err
	}
	return nil
}

func c04EnvSnap(d starlark.StringDict) string {
	keys := d.Keys()
	sort.Strings(keys)
	var sb strings.Builder
	for _, k := range keys {
		fmt.Fprintf(&sb, "%s=%p/%T;", k, d[k], d[k])
	}
	return sb.String()
}

func c04Run(g *c04Graph, helpers starlark.StringDict) (problems []string, nprobes int) {
	defer func() {
		if r := recover(); r != nil {
			problems = append(problems, fmt.Sprintf("panic: %v", r))
		}
	}()
	nodes := map[int]starlark.Value{}
	th := &starlark.Thread{Name: "c04"}
	th.SetMaxExecutionSteps(1_000_000)
	pre := starlark.StringDict{
		"struct": starlark.NewBuiltin("struct", starlarkstruct.Make),
		"keep": starlark.NewBuiltin("keep", func(_ *starlark.Thread, _ *starlark.Builtin, args starlark.Tuple, _ []starlark.Tuple) (starlark.Value, error) {
			i, _ := starlark.AsInt32(args[0])
			nodes[i] = args[1]
			return starlark.None, nil
		}),
		"node": starlark.NewBuiltin("node", func(_ *starlark.Thread, _ *starlark.Builtin, args starlark.Tuple, _ []starlark.Tuple) (starlark.Value, error) {
			i, _ := starlark.AsInt32(args[0])
			return nodes[i], nil
		}),
		"mut": starlark.NewBuiltin("mut", func(th *starlark.Thread, _ *starlark.Builtin, args starlark.Tuple, _ []starlark.Tuple) (starlark.Value, error) {
			return starlark.None, c04Benign(th, args[0])
		}),
		"hostfreeze": starlark.NewBuiltin("hostfreeze", func(_ *starlark.Thread, _ *starlark.Builtin, args starlark.Tuple, _ []starlark.Tuple) (starlark.Value, error) {
			args[0].Freeze()
			return starlark.None, nil
		}),
		"boom": starlark.NewBuiltin("boom", func(*starlark.Thread, *starlark.Builtin, starlark.Tuple, []starlark.Tuple) (starlark.Value, error) {
			return nil, fmt.Errorf("boom")
		}),
	}
	preSnap, uniSnap := c04EnvSnap(pre), c04EnvSnap(starlark.Universe)
	opts := &syntax.FileOptions{Set: true}
	src := c04Source(g)
	globals, err := starlark.ExecFileOptions(opts, th, "m.star", src, pre)
	wantFail := g.Hist[len(g.Hist)-1][1].(string) == "fail"
	if (err != nil) != wantFail {
		return []string{fmt.Sprintf("machinery: module outcome %v, want fail=%v\n%s", err, wantFail, src)}, 0
	}
	_ = globals
	if c04EnvSnap(pre) != preSnap {
		problems = append(problems, "the predeclared environment changed")
	}
	if c04EnvSnap(starlark.Universe) != uniSnap {
		problems = append(problems, "the universe changed")
	}
	th2 := &starlark.Thread{Name: "probe"}
	for i := 1; i <= len(g.Kinds); i++ {
		v := nodes[i]
		kind := g.Kinds[i-1]
		frozen := g.Frozen[i-1] == 1
		switch kind {
		case "list", "dict", "set":
			if frozen {
				for _, m := range c04Mutators(kind) {
					before := c04Snap(v)
					err := m.f(th2, helpers, v)
					nprobes++
					if err == nil {
						problems = append(problems, fmt.Sprintf("node %d (%s) is reachable from the globals but %s succeeded", i, kind, m.name))
					}
					if after := c04Snap(v); after != before {
						problems = append(problems, fmt.Sprintf("node %d (%s) is reachable from the globals but %s changed it: %s -> %s", i, kind, m.name, before, after))
					}
				}
				// derived values
				before := c04Snap(v)
				_, err := starlark.Call(th2, helpers["derive_"+kind], starlark.Tuple{v}, nil)
				nprobes++
				if err != nil {
					problems = append(problems, fmt.Sprintf("node %d (%s): a value derived from it cannot be mutated: %v", i, kind, err))
				}
				if after := c04Snap(v); after != before {
					problems = append(problems, fmt.Sprintf("node %d (%s) is reachable from the globals but changing a value derived from it changed it: %s -> %s", i, kind, before, after))
				}
			} else {
				nprobes++
				if err := c04Benign(th2, v); err != nil {
					problems = append(problems, fmt.Sprintf("node %d (%s) is not reachable from the globals but cannot be mutated: %v", i, kind, err))
				}
			}
		case "mutclosure", "bound":
			// the child is the first edge out of this node in the construction history
			child := 0
			cnt := 0
			for _, h := range g.Hist {
				if h[0].(string) == "new" {
					cnt++
					if cnt == i {
						child = int(h[2].(float64))
					}
				}
			}
			childFrozen := g.Frozen[child-1] == 1
			before := c04Snap(nodes[child])
			var err error
			if kind == "mutclosure" {
				_, err = starlark.Call(th2, v, nil, nil)
			} else {
				arg := starlark.Value(starlark.MakeInt(77))
				if g.Kinds[child-1] == "dict" {
					arg = starlark.String("k77")
				}
				_, err = starlark.Call(th2, v, starlark.Tuple{arg}, nil)
			}
			nprobes++
			after := c04Snap(nodes[child])
			if childFrozen && err == nil {
				problems = append(problems, fmt.Sprintf("calling node %d (%s) mutated frozen node %d without error", i, kind, child))
			}
			if childFrozen && after != before {
				problems = append(problems, fmt.Sprintf("calling node %d (%s) changed frozen node %d: %s -> %s", i, kind, child, before, after))
			}
			if !childFrozen && err != nil {
				problems = append(problems, fmt.Sprintf("calling node %d (%s) on unfrozen node %d failed: %v", i, kind, child, err))
			}
			if !childFrozen && kind == "bound" {
				// undo so that later probes see the original content
				switch c := nodes[child].(type) {
				case *starlark.List:
					c04Method(th2, c, "pop")
				case *starlark.Dict:
					c.Delete(starlark.String("k77"))
				case *starlark.Set:
					c.Delete(starlark.MakeInt(77))
				}
			}
		}
	}
	return
}

func init() {
	register("c04-run", func(args []string) error {
		fs := flag.NewFlagSet("c04-run", flag.ExitOnError)
		in := fs.String("in", "-", "graphs from TLC, one JSON object per line")
		out := fs.String("out", "-", "")
		fs.Parse(args)
		r, err := openIn(*in)
		if err != nil {
			return err
		}
		defer r.Close()
		w, err := openOut(*out)
		if err != nil {
			return err
		}
		defer w.Close()
		nw := newNDWriter(w)
		defer nw.flush()
		th := &starlark.Thread{}
		helpers, err := starlark.ExecFileOptions(&syntax.FileOptions{Set: true, GlobalReassign: true}, th, "h.star", c04Helpers, nil)
		if err != nil {
			return err
		}
		n, nprobes, nprob, nfrozen := 0, 0, 0, 0
		err = readCases(r, func(raw json.RawMessage) error {
			var g c04Graph
			if err := json.Unmarshal(raw, &g); err != nil {
				return err
			}
			n++
			for i, f := range g.Frozen {
				if f == 1 && (g.Kinds[i] == "list" || g.Kinds[i] == "dict" || g.Kinds[i] == "set") {
					nfrozen++
					break
				}
			}
			probs, np := c04Run(&g, helpers)
			nprobes += np
			if len(probs) > 0 {
				nprob++
				nw.write(obj{"graph": raw, "src": c04Source(&g), "problems": probs})
			}
			return nil
		})
		nw.write(obj{"summary": true, "graphs": n, "probes": nprobes, "problem_graphs": nprob, "graphs_with_frozen_mutable": nfrozen})
		return err
	})
}
