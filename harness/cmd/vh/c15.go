package main

// vh c15-run -in cases.ndjson -out out.ndjson
//
// Property C15 (printed values read back as the same values).  Values are built
// through the Go API (never through the parser), printed with the repr and str
// built-ins, and the repr text is evaluated with the real scanner/parser/
// interpreter (starlark.Eval).
//
// cases:
//   {"id","op":"cps","lo":N,"n":K}     K strings of one code point each, N.. (surrogates skipped by the caller)
//   {"id","op":"bb","hi":H}            256 bytes values <<H, b>> (H = -1: the single bytes <<b>>)
//   {"id","op":"val","v":<encoded value; lists/dicts may carry "id" and {"t":"ref","id":n} back references>}
// results:
//   cps/bb: {"id","op","reprs":[[bytes]..],"backs":[{"ok","v"}..],"strs":[[bytes]..]}
//   val:    {"id","op","repr":[bytes],"back":{"ok","v","err"},"str":[bytes],"type":..}
// -maxstack N bounds the goroutine stack (bytes) so that runaway recursion dies quickly;
// a fatal stack overflow kills the process (the driver runs risky cases one per process).

import (
	"encoding/json"
	"flag"
	"fmt"
	"math"
	"runtime/debug"

	"go.starlark.net/starlark"
	"go.starlark.net/starlarkstruct"
	"go.starlark.net/syntax"
)

type c15Case struct {
	ID int             `json:"id"`
	Op string          `json:"op"`
	Lo int             `json:"lo"`
	N  int             `json:"n"`
	Hi int             `json:"hi"`
	V  json.RawMessage `json:"v"`
}

type c15dec struct {
	byID map[int]starlark.Value
}

func intsToString(a []any) string {
	b := make([]byte, len(a))
	for i, x := range a {
		b[i] = byte(int(x.(float64)))
	}
	return string(b)
}

func (d *c15dec) dec(o map[string]any) (starlark.Value, error) {
	t, _ := o["t"].(string)
	arr := func() []any {
		a, _ := o["v"].([]any)
		return a
	}
	switch t {
	case "none":
		return starlark.None, nil
	case "bool":
		return starlark.Bool(o["v"].(bool)), nil
	case "int":
		return starlark.MakeInt(int(o["v"].(float64))), nil
	case "big":
		m := []int{}
		for _, x := range o["m"].([]any) {
			m = append(m, int(x.(float64)))
		}
		return starlark.MakeBigInt(bigFromLimbs(o["neg"].(bool), m)), nil
	case "float":
		m := o["m"].([]any)
		var frac uint64
		for i := len(m) - 1; i >= 0; i-- {
			frac = frac<<limbBits | uint64(m[i].(float64))
		}
		bits := uint64(o["s"].(float64))<<63 | uint64(o["e"].(float64))<<52 | frac
		return starlark.Float(math.Float64frombits(bits)), nil
	case "str":
		return starlark.String(intsToString(arr())), nil
	case "bytes":
		return starlark.Bytes(intsToString(arr())), nil
	case "ref":
		v, ok := d.byID[int(o["id"].(float64))]
		if !ok {
			return nil, fmt.Errorf("forward reference %v", o["id"])
		}
		return v, nil
	case "list":
		l := starlark.NewList(nil)
		if id, ok := o["id"].(float64); ok {
			d.byID[int(id)] = l
		}
		for _, e := range arr() {
			x, err := d.dec(e.(map[string]any))
			if err != nil {
				return nil, err
			}
			if err := l.Append(x); err != nil {
				return nil, err
			}
		}
		return l, nil
	case "tuple":
		var xs starlark.Tuple
		for _, e := range arr() {
			x, err := d.dec(e.(map[string]any))
			if err != nil {
				return nil, err
			}
			xs = append(xs, x)
		}
		if xs == nil {
			xs = starlark.Tuple{}
		}
		return xs, nil
	case "dict":
		dd := starlark.NewDict(0)
		if id, ok := o["id"].(float64); ok {
			d.byID[int(id)] = dd
		}
		for _, e := range arr() {
			kv := e.([]any)
			k, err := d.dec(kv[0].(map[string]any))
			if err != nil {
				return nil, err
			}
			v, err := d.dec(kv[1].(map[string]any))
			if err != nil {
				return nil, err
			}
			if err := dd.SetKey(k, v); err != nil {
				return nil, err
			}
		}
		return dd, nil
	case "struct":
		var kws []starlark.Tuple
		for _, e := range arr() {
			kv := e.([]any)
			v, err := d.dec(kv[1].(map[string]any))
			if err != nil {
				return nil, err
			}
			kws = append(kws, starlark.Tuple{starlark.String(kv[0].(string)), v})
		}
		return starlarkstruct.FromKeywords(starlarkstruct.Default, kws), nil
	}
	return nil, fmt.Errorf("cannot build a value of kind %q", t)
}

type c15printer struct {
	th        *starlark.Thread
	repr, str starlark.Value
	opts      *syntax.FileOptions
}

func newC15printer() *c15printer {
	h := &hostEnv{}
	return &c15printer{th: h.thread(1 << 40), repr: starlark.Universe["repr"], str: starlark.Universe["str"],
		opts: (*optVec)(nil).fileOptions()}
}

func (p *c15printer) text(fn, v starlark.Value) (string, error) {
	r, err := starlark.Call(p.th, fn, starlark.Tuple{v}, nil)
	if err != nil {
		return "", err
	}
	s, ok := r.(starlark.String)
	if !ok {
		return "", fmt.Errorf("%v returned %s", fn, r.Type())
	}
	return string(s), nil
}

func (p *c15printer) back(text string) obj {
	v, err := starlark.EvalOptions(p.opts, p.th, "repr.star", text, starlark.StringDict{})
	if err != nil {
		msg := err.Error()
		if len(msg) > 200 {
			msg = msg[:200]
		}
		return obj{"ok": false, "err": msg}
	}
	return obj{"ok": true, "v": encValue(v)}
}

// one value: repr text, its evaluation, str text
func (p *c15printer) one(v starlark.Value) (repr []int, back obj, str []int) {
	r, err := p.text(p.repr, v)
	if err != nil {
		return []int{}, obj{"ok": false, "err": "repr failed: " + err.Error()}, []int{}
	}
	s, err := p.text(p.str, v)
	if err != nil {
		return byteArr(r), obj{"ok": false, "err": "str failed: " + err.Error()}, []int{}
	}
	return byteArr(r), p.back(r), byteArr(s)
}

func init() {
	register("c15-run", func(args []string) error {
		fs := flag.NewFlagSet("c15-run", flag.ExitOnError)
		in := fs.String("in", "-", "cases ndjson")
		out := fs.String("out", "-", "records ndjson")
		maxstack := fs.Int("maxstack", 0, "goroutine stack limit in bytes (0 = default)")
		fs.Parse(args)
		if *maxstack > 0 {
			debug.SetMaxStack(*maxstack)
		}
		r, err := openIn(*in)
		if err != nil {
			return err
		}
		defer r.Close()
		w, err := openOut(*out)
		if err != nil {
			return err
		}
		defer w.Close()
		nw := newNDWriter(w)
		defer nw.flush()
		p := newC15printer()
		return readCases(r, func(raw json.RawMessage) error {
			var c c15Case
			if err := json.Unmarshal(raw, &c); err != nil {
				return err
			}
			switch c.Op {
			case "cps", "bb":
				var vals []starlark.Value
				if c.Op == "cps" {
					for k := 0; k < c.N; k++ {
						vals = append(vals, starlark.String(string(rune(c.Lo+k))))
					}
				} else {
					for b := 0; b < 256; b++ {
						if c.Hi < 0 {
							vals = append(vals, starlark.Bytes([]byte{byte(b)}))
						} else {
							vals = append(vals, starlark.Bytes([]byte{byte(c.Hi), byte(b)}))
						}
					}
				}
				reprs, backs, strs := [][]int{}, []obj{}, [][]int{}
				for _, v := range vals {
					a, b, s := p.one(v)
					reprs, backs, strs = append(reprs, a), append(backs, b), append(strs, s)
				}
				nw.write(obj{"id": c.ID, "op": c.Op, "reprs": reprs, "backs": backs, "strs": strs})
			case "val":
				var o map[string]any
				if err := json.Unmarshal(c.V, &o); err != nil {
					return err
				}
				d := &c15dec{byID: map[int]starlark.Value{}}
				v, err := d.dec(o)
				if err != nil {
					return fmt.Errorf("case %d: %v", c.ID, err)
				}
				a, b, s := p.one(v)
				nw.write(obj{"id": c.ID, "op": "val", "repr": a, "back": b, "str": s, "type": v.Type()})
				nw.flush()
			default:
				return fmt.Errorf("unknown op %q", c.Op)
			}
			return nil
		})
	})
}
