package main

// C02 graph domain: the construction histories emitted by spec/C02MCGraph.tla are
// rendered as one Starlark function `build` (one line per construction action),
// executed twice (two isomorphic heaps A and B) and every operation of the
// spec's Ops list is applied to every root.  The spec's predicted result classes
// travel with the case and are compared here.

import (
	"fmt"
	"strings"

	"go.starlark.net/starlark"
	"go.starlark.net/syntax"
)

type c02GraphCase struct {
	ID    int      `json:"id"`
	Kinds []string `json:"kinds"`
	Hist  [][]any  `json:"hist"` // ["new", kind, child] | ["edge", a, b]
	Ops   []string `json:"ops"`
	Pred  []string `json:"pred"` // per root: one class letter per op ('o' 'm' 'e' 'E' '*')
	Only  []any    `json:"only"` // [root, op]: run only this pair (confirmation runs)
}

func c02GraphSource(g *c02GraphCase) (string, error) {
	var b strings.Builder
	b.WriteString("def build():\n")
	for i, k := range g.Kinds {
		if k == "closure" {
			fmt.Fprintf(&b, "    c%d = None\n", i+1)
		}
	}
	n := 0
	ref := func(c int) string {
		if c == 0 {
			return "0"
		}
		return fmt.Sprintf("n%d", c)
	}
	for _, h := range g.Hist {
		if len(h) != 3 {
			return "", fmt.Errorf("bad history entry %v", h)
		}
		op, _ := h[0].(string)
		switch op {
		case "new":
			n++
			k, _ := h[1].(string)
			cf, _ := h[2].(float64)
			c := int(cf)
			switch k {
			case "list":
				fmt.Fprintf(&b, "    n%d = [0]\n", n)
			case "dict":
				fmt.Fprintf(&b, "    n%d = {\"a\": 0}\n", n)
			case "closure":
				fmt.Fprintf(&b, "    def n%d(): return c%d\n", n, n)
			case "tuple":
				fmt.Fprintf(&b, "    n%d = (%s, 1)\n", n, ref(c))
			case "struct":
				fmt.Fprintf(&b, "    n%d = struct(f = %s)\n", n, ref(c))
			case "default":
				fmt.Fprintf(&b, "    def n%d(p = %s): return p\n", n, ref(c))
			case "bound":
				if c < 1 || c > len(g.Kinds) {
					return "", fmt.Errorf("bound method without receiver")
				}
				m := map[string]string{"list": "append", "dict": "get"}[g.Kinds[c-1]]
				if m == "" {
					return "", fmt.Errorf("bound method of %s", g.Kinds[c-1])
				}
				fmt.Fprintf(&b, "    n%d = n%d.%s\n", n, c, m)
			default:
				return "", fmt.Errorf("unknown node kind %q", k)
			}
		case "edge":
			af, _ := h[1].(float64)
			bf, _ := h[2].(float64)
			a, c := int(af), int(bf)
			if a < 1 || a > len(g.Kinds) {
				return "", fmt.Errorf("bad edge %v", h)
			}
			switch g.Kinds[a-1] {
			case "list":
				fmt.Fprintf(&b, "    n%d.append(n%d)\n", a, c)
			case "dict":
				fmt.Fprintf(&b, "    n%d[\"e%d\"] = n%d\n", a, c, c)
			case "closure":
				fmt.Fprintf(&b, "    c%d = n%d\n", a, c)
			default:
				return "", fmt.Errorf("late edge out of %s", g.Kinds[a-1])
			}
		default:
			return "", fmt.Errorf("unknown action %q", op)
		}
	}
	b.WriteString("    return [")
	for i := range g.Kinds {
		fmt.Fprintf(&b, "n%d, ", i+1)
	}
	b.WriteString("]\n")
	return b.String(), nil
}

const c02OpsSrc = `
def op_str(v, w): return str(v)
def op_repr(v, w): return repr(v)
def op_print(v, w):
    print(v)
    return "printed"
def op_eq(v, w): return v == w
def op_eqself(v, w): return v == v
def op_lt(v, w): return v < w
def op_json(v, w): return json.encode(v)
def op_sorted(v, w): return sorted([v, w])
def op_in(v, w): return v in [w]
def op_inself(v, w): return w in v
def op_dictkey(v, w): return {v: 1}
def op_dir(v, w): return dir(v)
def op_type(v, w): return type(v)
def op_bool(v, w): return bool(v)
def op_len(v, w): return len(v)
`

var c02Ops starlark.StringDict

// c02Progress, when set, is told which (root, op) pair is about to run
var c02Progress func(at string)
var c02Printed []string

func c02GraphEnv() starlark.StringDict {
	return starlark.StringDict{"struct": c02StructBuiltin, "json": c02Modules["json"]}
}

func c02InitOps() error {
	th := &starlark.Thread{Name: "ops"}
	g, err := starlark.ExecFileOptions(&syntax.FileOptions{}, th, "ops.star", c02OpsSrc, c02GraphEnv())
	c02Ops = g
	return err
}

// c02ApplyOp applies one operation to root v (w is the same root of an isomorphic heap).
func c02ApplyOp(op string, v, w starlark.Value, others *starlark.List) (cls byte, detail string) {
	if base, ok := map[string]string{"eqx": "eq", "ltx": "lt", "sortedx": "sorted"}[op]; ok {
		// the node against every node of the other heap, both ways round; every comparison must terminate
		cls = 'o'
		for i := 0; i < others.Len(); i++ {
			for _, pair := range [][2]starlark.Value{{v, others.Index(i)}, {others.Index(i), v}} {
				c, d := c02ApplyOp(base, pair[0], pair[1], nil)
				if c == 'p' {
					return c, d
				}
				if c == 'E' {
					cls, detail = c, d
				}
			}
		}
		return cls, detail
	}
	defer func() {
		if r := recover(); r != nil {
			cls, detail = 'p', trunc(fmt.Sprint(r), 300)
		}
	}()
	th := c02Thread(1_000_000)
	c02Printed = c02Printed[:0]
	th.Print = func(_ *starlark.Thread, msg string) { c02Printed = append(c02Printed, msg) }
	var res starlark.Value
	var err error
	switch op {
	case "hash":
		var h uint32
		h, err = v.Hash()
		res = starlark.MakeUint(uint(h))
	case "freeze":
		v.Freeze()
		// the frozen value must still be printable
		res, err = starlark.Call(th, c02Ops["op_type"], starlark.Tuple{v, w}, nil)
	default:
		f, ok := c02Ops["op_"+op]
		if !ok {
			return 'p', "machinery: unknown op " + op
		}
		res, err = starlark.Call(th, f, starlark.Tuple{v, w}, nil)
	}
	if err != nil {
		if strings.Contains(err.Error(), "recursion depth") {
			return 'E', trunc(err.Error(), 100)
		}
		return 'e', trunc(err.Error(), 100)
	}
	text := ""
	switch op {
	case "str", "repr":
		if s, ok := res.(starlark.String); ok {
			text = string(s)
		}
	case "print":
		text = strings.Join(c02Printed, "\n")
	}
	if strings.Contains(text, "...") {
		return 'm', trunc(text, 100)
	}
	return 'o', trunc(text, 100)
}

type c02GraphResult struct {
	Src    string   `json:"src,omitempty"`
	Got    []string `json:"got"`
	Mism   []string `json:"mism,omitempty"`
	Panics []string `json:"panics,omitempty"`
	N      int      `json:"n"`
	NT     bool     `json:"nt"`
}

func c02RunGraph(g *c02GraphCase) (*c02GraphResult, error) {
	src, err := c02GraphSource(g)
	if err != nil {
		return nil, err
	}
	res := &c02GraphResult{}
	th := c02Thread(1_000_000)
	mod, err := starlark.ExecFileOptions(&syntax.FileOptions{}, th, "graph.star", src, c02GraphEnv())
	if err != nil {
		return nil, fmt.Errorf("graph module does not execute: %v\n%s", err, src)
	}
	build := func() (*starlark.List, error) {
		v, err := starlark.Call(th, mod["build"], nil, nil)
		if err != nil {
			return nil, fmt.Errorf("build fails: %v\n%s", err, src)
		}
		return v.(*starlark.List), nil
	}
	onlyRoot, onlyOp := 0, ""
	if len(g.Only) == 2 {
		f, _ := g.Only[0].(float64)
		onlyRoot = int(f)
		onlyOp, _ = g.Only[1].(string)
	}
	for r := 1; r <= len(g.Kinds); r++ {
		got := make([]byte, len(g.Ops))
		for i := range got {
			got[i] = '-'
		}
		if onlyRoot != 0 && r != onlyRoot {
			res.Got = append(res.Got, string(got))
			continue
		}
		// fresh heaps for every root: freeze (the last op) changes them
		a, err := build()
		if err != nil {
			return nil, err
		}
		b, err := build()
		if err != nil {
			return nil, err
		}
		v, w := a.Index(r-1), b.Index(r-1)
		// the operations are applied in a rotated order (by case id): a fatal crash ends the case,
		// and over the graphs that share a defect every operation gets its turn to come first
		for k := range g.Ops {
			i := (k + g.ID) % len(g.Ops)
			op := g.Ops[i]
			if onlyOp != "" && op != onlyOp {
				continue
			}
			if c02Progress != nil {
				c02Progress(fmt.Sprintf("%d %s", r, op))
			}
			cls, detail := c02ApplyOp(op, v, w, b)
			got[i] = cls
			res.N++
			if cls == 'm' || cls == 'E' {
				res.NT = true
			}
			if cls == 'p' {
				res.Panics = append(res.Panics, fmt.Sprintf("root %d op %s: %s", r, op, detail))
				continue
			}
			if r-1 < len(g.Pred) && i < len(g.Pred[r-1]) {
				want := g.Pred[r-1][i]
				ok := want == '*' || want == cls ||
					(want == 'e' && cls == 'E') || // any error
					(want == 'o' && cls == 'm' && op != "str" && op != "repr" && op != "print")
				if !ok {
					res.Mism = append(res.Mism, fmt.Sprintf("root %d (%s) op %s: predicted %c, observed %c (%s)", r, g.Kinds[r-1], op, want, cls, detail))
				}
			}
		}
		res.Got = append(res.Got, string(got))
	}
	if len(res.Mism) > 0 || len(res.Panics) > 0 {
		res.Src = src
	}
	return res, nil
}
