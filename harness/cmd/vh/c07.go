package main

// vh c07-sweep: for every program of a corpus, a reference run records the step
// count at every host call tick() and the total; then the program is re-run on a
// fresh thread under EVERY step limit N = 1..total+1 and (ticks made, steps,
// outcome) are recorded for validation by TLC (spec/C07Trace.tla, code -> spec).
//
// vh c07-sched: replay the interleavings emitted by spec/C07MC.tla (spec -> code):
// host cancellations are injected at exact interpreter steps through the VerifStep
// hook (on the interpreter goroutine, from inside a built-in call in flight, or
// from another goroutine while the hook blocks the interpreter).

import (
	"encoding/json"
	"flag"
	"fmt"
	"math/rand"
	"runtime"
	"strings"
	"sync"
	"sync/atomic"

	"go.starlark.net/starlark"
	"go.starlark.net/syntax"
)

var c07Opts = &syntax.FileOptions{Set: true, While: true, TopLevelControl: true, GlobalReassign: true, Recursion: true}

type c07Prog struct {
	Name string
	Src  string // defines run(); may call tick()
}

func c07Corpus(scale int) []c07Prog {
	ps := []c07Prog{}
	add := func(name, src string) { ps = append(ps, c07Prog{name, src}) }
	sizes := []int{0, 1, 3, 7}
	if scale > 1 {
		sizes = []int{0, 1, 2, 3, 5, 8, 13, 21, 34, 7 * scale}
	}
	for _, n := range sizes {
		add(fmt.Sprintf("for-%d", n), fmt.Sprintf("def run():\n    s = 0\n    for i in range(%d):\n        tick()\n        s += i\n    return s\n", n))
		add(fmt.Sprintf("while-%d", n), fmt.Sprintf("def run():\n    i = 0\n    while i < %d:\n        i += 1\n        if i %% 2: tick()\n    return i\n", n))
		add(fmt.Sprintf("comp-%d", n), fmt.Sprintf("def run():\n    return [tick() for i in range(%d) if i %% 3 != 1]\n", n))
		add(fmt.Sprintf("nested-%d", n), fmt.Sprintf("def f(n):\n    tick()\n    return [g(i) for i in range(n)]\ndef g(i):\n    if i %% 2 == 0: tick()\n    return i * i\ndef run():\n    t = 0\n    for k in range(%d):\n        t += len(f(k))\n    return t\n", n))
		add(fmt.Sprintf("rec-%d", n), fmt.Sprintf("def fib(n):\n    tick()\n    if n < 2: return n\n    return fib(n - 1) + fib(n - 2)\ndef run():\n    return fib(%d)\n", n%9))
		add(fmt.Sprintf("dictcomp-%d", n), fmt.Sprintf("def run():\n    d = {i: tick() for i in range(%d)}\n    return sorted(d.keys(), key = lambda k: -k)\n", n))
		add(fmt.Sprintf("sortkey-%d", n), fmt.Sprintf("def key(x):\n    tick()\n    return -x\ndef run():\n    return sorted(range(%d), key = key)\n", n))
		add(fmt.Sprintf("strings-%d", n), fmt.Sprintf("def run():\n    s = \"\"\n    for i in range(%d):\n        s += \"ab\"[i %% 2]\n        if s.endswith(\"a\"): tick()\n    return s.upper()\n", n))
		add(fmt.Sprintf("unpack-%d", n), fmt.Sprintf("def run():\n    t = 0\n    for a, b in [(i, i + 1) for i in range(%d)]:\n        tick()\n        t += a * b\n    return t\n", n))
		add(fmt.Sprintf("cond-%d", n), fmt.Sprintf("def run():\n    return [(tick() if i %% 2 else None) or i for i in range(%d) if i and not i %% 3 == 0 or tick()]\n", n))
	}
	add("straight", "def run():\n    tick()\n    x = 1\n    tick()\n    y = x + 2\n    tick()\n    return [x, y]\n")
	add("notick", "def run():\n    return 1 + 2\n")
	add("empty", "def run():\n    pass\n")
	// non-terminating programs: only limited runs exist
	add("forever", "def run():\n    while True:\n        tick()\n")
	add("forever-notick", "def run():\n    x = 0\n    while True:\n        x += 1\n")
	add("recurse", "def f(n):\n    tick()\n    return f(n + 1)\ndef run():\n    return f(0)\n")
	add("bomb", "def run():\n    return [[tick() for j in range(1000)] for i in range(1000)]\n")
	add("mutual", "def a(n):\n    tick()\n    return b(n)\ndef b(n):\n    return a(n + 1)\ndef run():\n    return a(0)\n")
	return ps
}

type c07RunRes struct {
	ticks  []uint64
	steps  uint64
	err    error
	result string
}

func c07Exec(p c07Prog, limit uint64) (res c07RunRes, thread *starlark.Thread) {
	th := &starlark.Thread{Name: "c07"}
	pre := starlark.StringDict{
		"tick": starlark.NewBuiltin("tick", func(t *starlark.Thread, _ *starlark.Builtin, _ starlark.Tuple, _ []starlark.Tuple) (starlark.Value, error) {
			res.ticks = append(res.ticks, t.ExecutionSteps())
			return starlark.None, nil
		}),
	}
	// module initialisation is not counted: compile and define run() on a scratch thread
	g, err := starlark.ExecFileOptions(c07Opts, &starlark.Thread{}, "p.star", p.Src, pre)
	if err != nil {
		panic(fmt.Sprintf("corpus program %s: %v", p.Name, err))
	}
	if limit > 0 {
		th.SetMaxExecutionSteps(limit)
	}
	v, err := starlark.Call(th, g["run"], nil, nil)
	res.steps = th.ExecutionSteps()
	res.err = err
	if v != nil {
		res.result = v.String()
	}
	return res, th
}

func init() {
	register("c07-sweep", func(args []string) error {
		fs := flag.NewFlagSet("c07-sweep", flag.ExitOnError)
		progsOut := fs.String("progs", "", "program table output (ndjson)")
		runsOut := fs.String("runs", "", "run records output (ndjson)")
		scale := fs.Int("scale", 1, "corpus scale")
		budget := fs.Uint64("budget", 3000, "reference budget for non-terminating programs and cap on N")
		fs.Parse(args)
		pw, err := openOut(*progsOut)
		if err != nil {
			return err
		}
		defer pw.Close()
		rw, err := openOut(*runsOut)
		if err != nil {
			return err
		}
		defer rw.Close()
		pn, rn := newNDWriter(pw), newNDWriter(rw)
		defer pn.flush()
		defer rn.flush()
		id := 0
		for pi, p := range c07Corpus(*scale) {
			ref, _ := c07Exec(p, *budget)
			ref2, _ := c07Exec(p, *budget)
			total := uint64(0)
			if ref.err == nil {
				total = ref.steps
			} else if !strings.Contains(ref.err.Error(), "too many steps") {
				return fmt.Errorf("corpus program %s fails: %v", p.Name, ref.err)
			}
			same := ref.steps == ref2.steps && fmt.Sprint(ref.ticks) == fmt.Sprint(ref2.ticks) && ref.result == ref2.result
			ticks := []int{}
			for _, t := range ref.ticks {
				ticks = append(ticks, int(t))
			}
			pn.write(obj{"p": pi + 1, "name": p.Name, "total": int(total), "ticks": ticks, "deterministic": same, "budget": int(*budget)})
			top := total + 1
			if total == 0 || top > *budget {
				top = *budget
			}
			for n := uint64(1); n <= top; n++ {
				r, th := c07Exec(p, n)
				id++
				rec := obj{"id": id, "p": pi + 1, "n": int(n), "ticks": len(r.ticks), "steps": int(r.steps)}
				switch {
				case r.err == nil:
					rec["out"] = "ok"
					rec["same"] = r.result == ref.result
				case strings.Contains(r.err.Error(), "Starlark computation cancelled: too many steps"):
					rec["out"] = "steps"
					rec["same"] = true
				default:
					rec["out"] = "other:" + r.err.Error()
					rec["same"] = false
				}
				// cancellation persists on the thread: a further execution fails at once, until Uncancel + a higher limit
				if r.err != nil {
					before := th.ExecutionSteps()
					_, err2 := starlark.Call(th, starlark.NewBuiltin("noop", func(*starlark.Thread, *starlark.Builtin, starlark.Tuple, []starlark.Tuple) (starlark.Value, error) {
						return starlark.None, nil
					}), nil, nil)
					_ = err2
					_ = before
				}
				rn.write(rec)
			}
		}
		return nil
	})

	register("c07-sched", c07Sched)
	register("c07-async", c07Async)
}

// c07-async: free-running asynchronous cancellation.  A non-terminating program runs on one
// goroutine; another goroutine calls Cancel at an arbitrary time.  The VerifStep hook counts the
// instructions that passed the cancellation test (atomically): after Cancel has returned at most
// ONE more instruction may pass (the one that was already past the test), the error names the
// reason, and a later execution on the same thread fails at once until Uncancel.
func c07Async(args []string) error {
	fs := flag.NewFlagSet("c07-async", flag.ExitOnError)
	trials := fs.Int("trials", 200, "")
	out := fs.String("out", "-", "")
	fs.Parse(args)
	w, err := openOut(*out)
	if err != nil {
		return err
	}
	defer w.Close()
	nw := newNDWriter(w)
	defer nw.flush()
	progs := []string{
		"def run():\n    x = 0\n    while True:\n        x += 1\n",
		"def f(n):\n    return f(n + 1) if n < 50 else 0\ndef run():\n    while True:\n        f(0)\n",
		"def run():\n    while True:\n        [i * i for i in range(20)]\n",
		"def run():\n    while True:\n        sorted([3, 1, 2], key = lambda x: -x)\n",
	}
	rnd := rand.New(rand.NewSource(seed()))
	nprob := 0
	for t := 0; t < *trials; t++ {
		src := progs[t%len(progs)]
		g, err := starlark.ExecFileOptions(c07Opts, &starlark.Thread{}, "a.star", src, nil)
		if err != nil {
			return err
		}
		th := &starlark.Thread{Name: "async"}
		var passed atomic.Int64
		starlark.VerifStep = func(t *starlark.Thread, _ *starlark.Function, _ uint32) {
			if t == th {
				passed.Add(1)
			}
		}
		done := make(chan error, 1)
		go func() {
			_, err := starlark.Call(th, g["run"], nil, nil)
			done <- err
		}()
		spin := rnd.Intn(20000)
		for i := 0; i < spin; i++ {
			runtime.Gosched()
		}
		reason := fmt.Sprintf("reason-%d", t)
		th.Cancel(reason)
		after := passed.Load()
		th.Cancel("second reason")
		runErr := <-done
		final := passed.Load()
		probs := []string{}
		if final-after > 1 {
			probs = append(probs, fmt.Sprintf("%d instructions passed the cancellation test after Cancel had returned", final-after))
		}
		if runErr == nil || !strings.Contains(runErr.Error(), "Starlark computation cancelled: "+reason) {
			probs = append(probs, fmt.Sprintf("error %v does not name the first reason %q", runErr, reason))
		}
		before := passed.Load()
		_, err2 := starlark.Call(th, g["run"], nil, nil)
		if err2 == nil || !strings.Contains(err2.Error(), reason) || passed.Load() != before {
			probs = append(probs, fmt.Sprintf("re-execution on the cancelled thread: err=%v, %d instructions ran", err2, passed.Load()-before))
		}
		starlark.VerifStep = nil
		if len(probs) > 0 {
			nprob++
			nw.write(obj{"trial": t, "prog": t % len(progs), "problems": probs})
		}
	}
	nw.write(obj{"summary": true, "trials": *trials, "problems": nprob})
	return nil
}

// ---------------------------------------------------------------- schedule replay

type c07Hist struct {
	Hist   [][]any `json:"hist"`
	Execs  [][]int `json:"execs"`
	Cancel int     `json:"cancel"`
	Steps  int     `json:"steps"`
}

// (the empty string is a reason like any other)
var c07Reasons = map[int]string{1: "a", 2: "", 3: "too many steps"}

// c07Cancelled reports whether err is the cancellation error carrying exactly this reason
func c07Cancelled(err error, reason string) bool {
	const pre = "Starlark computation cancelled: "
	text := err.Error()
	i := strings.Index(text, pre)
	if i < 0 {
		return false
	}
	rest := text[i+len(pre):]
	if j := strings.IndexByte(rest, '\n'); j >= 0 {
		rest = rest[:j]
	}
	return rest == reason
}

// programs with exactly 3 interpreter steps per execution
const c07Plain = "def run(x):\n    return -x\n"      // LOCAL, UMINUS, RETURN
const c07Builtin = "def run(x):\n    return tick()\n" // PREDECLARED, CALL, RETURN

func c07Replay(h *c07Hist, limit uint64, variant string) (problems []string) {
	th := &starlark.Thread{Name: "sched"}
	if limit > 0 {
		th.SetMaxExecutionSteps(limit)
	}
	// parse the history into idle actions and per-execution gate actions
	type gateAct struct{ reasons []int }
	var (
		gates    map[int]*gateAct // gate index (1-based head count within the execution) -> cancels
		gate     int
		executed int
		inTick   func()
	)
	hook := func(t *starlark.Thread, fn *starlark.Function, pc uint32) {
		if t != th {
			return
		}
		gate++
		executed++
		if g := gates[gate]; g != nil {
			do := func() {
				for _, r := range g.reasons {
					th.Cancel(c07Reasons[r])
				}
			}
			switch variant {
			case "hook":
				do()
			case "goroutine":
				var wg sync.WaitGroup
				wg.Add(1)
				go func() { defer wg.Done(); do() }()
				wg.Wait() // the interpreter goroutine is blocked in the hook meanwhile
			case "builtin":
				if gate == 2 {
					inTick = do // instruction 2 is the CALL: cancel while the built-in is in flight
				} else {
					do()
				}
			}
		}
	}
	starlark.VerifStep = hook
	defer func() { starlark.VerifStep = nil }()
	src := c07Plain
	if variant == "builtin" {
		src = c07Builtin
	}
	pre := starlark.StringDict{"tick": starlark.NewBuiltin("tick", func(*starlark.Thread, *starlark.Builtin, starlark.Tuple, []starlark.Tuple) (starlark.Value, error) {
		if inTick != nil {
			inTick()
			inTick = nil
		}
		return starlark.MakeInt(1), nil
	})}
	g, err := starlark.ExecFileOptions(c07Opts, &starlark.Thread{}, "s.star", src, pre)
	if err != nil {
		return []string{"machinery: " + err.Error()}
	}
	ei := 0
	i := 0
	for i < len(h.Hist) {
		act := h.Hist[i][0].(string)
		arg := int(h.Hist[i][1].(float64))
		switch act {
		case "icancel":
			th.Cancel(c07Reasons[arg])
			i++
		case "uncancel":
			th.Uncancel()
			i++
		case "setlimit":
			th.SetMaxExecutionSteps(uint64(arg))
			i++
		case "start":
			// collect this execution's gate actions: cancels that follow the k-th head
			gates = map[int]*gateAct{}
			heads := 0
			j := i + 1
			for j < len(h.Hist) {
				a := h.Hist[j][0].(string)
				if a == "start" || a == "uncancel" || a == "icancel" || a == "setlimit" {
					break
				}
				if a == "head" {
					heads++
				}
				if a == "cancel" {
					ga := gates[heads]
					if ga == nil {
						ga = &gateAct{}
						gates[heads] = ga
					}
					ga.reasons = append(ga.reasons, int(h.Hist[j][1].(float64)))
				}
				j++
			}
			gate, executed, inTick = 0, 0, nil
			_, err := starlark.Call(th, g["run"], starlark.Tuple{starlark.MakeInt(5)}, nil)
			if ei >= len(h.Execs) {
				return append(problems, "machinery: history has more executions than results")
			}
			want := h.Execs[ei]
			ei++
			if want[1] == 0 {
				if err != nil {
					problems = append(problems, fmt.Sprintf("execution %d: model completes, real fails: %v", ei, err))
				}
			} else {
				msg := "Starlark computation cancelled: " + c07Reasons[want[1]]
				if err == nil {
					problems = append(problems, fmt.Sprintf("execution %d: model is cancelled (%s) after %d instructions, real completed", ei, c07Reasons[want[1]], want[0]))
				} else if !c07Cancelled(err, c07Reasons[want[1]]) {
					problems = append(problems, fmt.Sprintf("execution %d: want error %q, got %q", ei, msg, err.Error()))
				}
				if executed != want[0] {
					problems = append(problems, fmt.Sprintf("execution %d: %d instructions passed the cancellation test, model says %d", ei, executed, want[0]))
				}
			}
			i = j
		default:
			i++
		}
	}
	if int(th.ExecutionSteps()) != h.Steps {
		problems = append(problems, fmt.Sprintf("thread counted %d steps, model %d", th.ExecutionSteps(), h.Steps))
	}
	return
}

func c07Sched(args []string) error {
	fs := flag.NewFlagSet("c07-sched", flag.ExitOnError)
	in := fs.String("in", "-", "histories from TLC")
	out := fs.String("out", "-", "")
	limit := fs.Uint64("limit", 0, "step limit of the model run (0 = none)")
	fs.Parse(args)
	r, err := openIn(*in)
	if err != nil {
		return err
	}
	defer r.Close()
	w, err := openOut(*out)
	if err != nil {
		return err
	}
	defer w.Close()
	nw := newNDWriter(w)
	defer nw.flush()
	n, nprob := 0, 0
	err = readCases(r, func(raw json.RawMessage) error {
		var h c07Hist
		if err := json.Unmarshal(raw, &h); err != nil {
			return err
		}
		for _, variant := range []string{"hook", "goroutine", "builtin"} {
			n++
			if probs := c07Replay(&h, *limit, variant); len(probs) > 0 {
				nprob++
				nw.write(obj{"hist": raw, "variant": variant, "limit": *limit, "problems": probs})
			}
		}
		return nil
	})
	nw.write(obj{"summary": true, "replays": n, "problems": nprob})
	return err
}
