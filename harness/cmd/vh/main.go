// Command vh is the conformance harness that binds the TLA+ specifications in
// /verif/spec to the real starlark-go code (built from /repo's working tree).
package main

import (
	"bufio"
	"encoding/json"
	"fmt"
	"io"
	"os"
	"sort"
	"strconv"
)

type command func(args []string) error

var commands = map[string]command{}

func register(name string, c command) { commands[name] = c }

func main() {
	if len(os.Args) < 2 {
		usage()
	}
	c, ok := commands[os.Args[1]]
	if !ok {
		usage()
	}
	if err := c(os.Args[2:]); err != nil {
		fmt.Fprintln(os.Stderr, "vh:", err)
		os.Exit(3)
	}
}

func usage() {
	names := []string{}
	for n := range commands {
		names = append(names, n)
	}
	sort.Strings(names)
	fmt.Fprintln(os.Stderr, "usage: vh <command> [args]; commands:", names)
	os.Exit(2)
}

func seed() int64 {
	s, err := strconv.ParseInt(os.Getenv("VERIF_SEED"), 10, 64)
	if err != nil {
		return 1
	}
	return s
}

// readCases reads ndjson objects from r and calls f for each.
func readCases(r io.Reader, f func(raw json.RawMessage) error) error {
	br := bufio.NewReaderSize(r, 1<<20)
	for {
		line, err := br.ReadBytes('\n')
		if len(line) > 1 {
			if e := f(json.RawMessage(line)); e != nil {
				return e
			}
		}
		if err == io.EOF {
			return nil
		}
		if err != nil {
			return err
		}
	}
}

type ndWriter struct {
	w *bufio.Writer
}

func newNDWriter(w io.Writer) *ndWriter { return &ndWriter{bufio.NewWriterSize(w, 1<<20)} }

func (n *ndWriter) write(v any) {
	b, err := json.Marshal(v)
	if err != nil {
		panic(err)
	}
	n.w.Write(b)
	n.w.WriteByte('\n')
}
func (n *ndWriter) flush() { n.w.Flush() }

func openIn(path string) (io.ReadCloser, error) {
	if path == "-" || path == "" {
		return os.Stdin, nil
	}
	return os.Open(path)
}

func openOut(path string) (io.WriteCloser, error) {
	if path == "-" || path == "" {
		return os.Stdout, nil
	}
	return os.Create(path)
}
