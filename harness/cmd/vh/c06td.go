package main

// vh c06-testdata: run the repository's own Starlark test programs
// (starlark/testdata/*.star, split into chunks at "---" lines like the repo's
// tests do) with the verif hooks on and record the iterator / freeze / frame
// events for validation against spec/C06Trace.tla.  The assertions of the test
// programs pass or fail as they like: what is validated is the counter protocol
// on every path they execute.

import (
	"flag"
	"fmt"
	"os"
	"path/filepath"
	"sort"
	"strings"

	sjson "go.starlark.net/lib/json"
	smath "go.starlark.net/lib/math"
	stime "go.starlark.net/lib/time"
	"go.starlark.net/starlark"
	"go.starlark.net/starlarkstruct"
	"go.starlark.net/starlarktest"
	"go.starlark.net/syntax"
)

func init() {
	register("c06-testdata", func(args []string) error {
		fs := flag.NewFlagSet("c06-testdata", flag.ExitOnError)
		repo := fs.String("repo", "/repo", "repository root")
		trace := fs.String("trace", "", "hook trace output")
		fs.Parse(args)
		starlarktest.DataFile = func(pkgdir, filename string) string {
			return filepath.Join(*repo, pkgdir, filename)
		}
		tr := &c06Tracer{ids: map[any]int{}}
		tf, err := os.Create(*trace)
		if err != nil {
			return err
		}
		defer tf.Close()
		tr.w = newNDWriter(tf)
		defer tr.w.flush()
		tr.install()
		// table counters cannot be read back for tables the harness does not own: log -1 => derive
		files, _ := filepath.Glob(filepath.Join(*repo, "starlark", "testdata", "*.star"))
		more, _ := filepath.Glob(filepath.Join(*repo, "starlarkstruct", "testdata", "*.star"))
		files = append(files, more...)
		sort.Strings(files)
		opts := &syntax.FileOptions{Set: true, While: true, TopLevelControl: true, GlobalReassign: true, Recursion: true}
		nchunks, nerr := 0, 0
		for _, f := range files {
			data, err := os.ReadFile(f)
			if err != nil {
				return err
			}
			for ci, chunk := range strings.Split("\n"+string(data), "\n---\n") {
				pre := starlark.StringDict{
					"struct": starlark.NewBuiltin("struct", starlarkstruct.Make),
					"json":   sjson.Module,
					"math":   smath.Module,
					"time":   stime.Module,
				}
				th := &starlark.Thread{Name: "td", Print: func(*starlark.Thread, string) {}}
				th.SetMaxExecutionSteps(50_000_000)
				th.Load = func(t *starlark.Thread, module string) (starlark.StringDict, error) {
					if module == "assert.star" {
						return starlarktest.LoadAssertModule()
					}
					return nil, fmt.Errorf("no module %s", module)
				}
				starlarktest.SetReporter(th, nopReporter{})
				tr.on = true
				tr.reset(fmt.Sprintf("%s#%d", filepath.Base(f), ci))
				func() {
					defer func() {
						if r := recover(); r != nil {
							nerr++
						}
					}()
					if _, err := starlark.ExecFileOptions(opts, th, filepath.Base(f), chunk, pre); err != nil {
						nerr++
					}
				}()
				tr.on = false
				nchunks++
			}
		}
		fmt.Fprintf(os.Stderr, "ran %d chunks of %d files (%d ended with an error), %d events\n", nchunks, len(files), nerr, tr.n)
		return nil
	})
}

type nopReporter struct{}

func (nopReporter) Error(args ...any) {}
