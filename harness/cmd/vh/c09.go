package main

// vh c09-front -in cases.ndjson -out results.ndjson
//
// The static front end of the real implementation, observed for property C09.
// case   {id, src, masks:[m...], ast:bool}
//        m is a bit mask of the six FileOptions:
//        1 Set, 2 While, 4 TopLevelControl, 8 GlobalReassign, 16 LoadBindsGlobally, 32 Recursion
// result {id, parse_ok, perr:{line,col,msg}, ast (if requested and the parser accepted),
//         runs:[{m, errors:[{line,col,msg}], other:msg, compiled:bool,
//                static:bool, ok:bool, evalerr:bool, err:msg, panic:msg, effects:n, first:[names of the first effects]}]}
//
// Per option vector the file is processed twice, both times through public API only:
//   1. FileOptions.Parse + resolve.File  -> the complete resolve.ErrorList with positions
//      (this is what starlark.SourceProgramOptions does before compiling), then
//      starlark.SourceProgramOptions    -> whether a Program was produced;
//   2. starlark.ExecFileOptions with a host function trace(...) predeclared and a
//      thread.Load that serves a fixed module, to observe whether any code ran.
//
// The tree is the shared exporter's (ast.go) with three additions the resolver rules need:
// load nodes get "tp"/"fp"/"fc" (positions of the local names / of the quoted names / bytes of the quoted names),
// parameters with a default get "ep" (position of '='), *args / **kwargs get "np"
// (position of the name).

import (
	"encoding/json"
	"flag"
	"fmt"

	"go.starlark.net/resolve"
	"go.starlark.net/starlark"
	"go.starlark.net/syntax"
)

func c09Options(m int) *syntax.FileOptions {
	return &syntax.FileOptions{
		Set:               m&1 != 0,
		While:             m&2 != 0,
		TopLevelControl:   m&4 != 0,
		GlobalReassign:    m&8 != 0,
		LoadBindsGlobally: m&16 != 0,
		Recursion:         m&32 != 0,
	}
}

// names predeclared by the host for C09 programs (Resolve.tla is given the same list)
var c09Predeclared = []string{"trace", "host", "struct"}

// names served by every loadable module
var c09ModuleNames = []string{"a", "b", "c", "la", "lb", "lc", "f", "g", "x", "y"}

type c09key [2]int

func c09Decorate(f *syntax.File, tree obj) {
	loads := map[c09key]*syntax.LoadStmt{}
	eqpos := map[c09key]syntax.Position{}
	namepos := map[c09key]syntax.Position{}
	params := func(ps []syntax.Expr) {
		for _, p := range ps {
			switch p := p.(type) {
			case *syntax.BinaryExpr:
				id := p.X.(*syntax.Ident)
				eqpos[c09key{int(id.NamePos.Line), int(id.NamePos.Col)}] = p.OpPos
			case *syntax.UnaryExpr:
				if id, ok := p.X.(*syntax.Ident); ok && id != nil {
					namepos[c09key{int(p.OpPos.Line), int(p.OpPos.Col)}] = id.NamePos
				}
			}
		}
	}
	syntax.Walk(f, func(n syntax.Node) bool {
		switch n := n.(type) {
		case *syntax.LoadStmt:
			loads[c09key{int(n.Load.Line), int(n.Load.Col)}] = n
		case *syntax.DefStmt:
			params(n.Params)
		case *syntax.LambdaExpr:
			params(n.Params)
		}
		return true
	})
	var walk func(v any)
	walk = func(v any) {
		switch v := v.(type) {
		case obj:
			if k, ok := v["k"].(string); ok {
				if p, ok := v["p"].([]int); ok && len(p) == 2 {
					key := c09key{p[0], p[1]}
					switch k {
					case "load":
						if l := loads[key]; l != nil {
							tp, fp, fc := [][]int{}, [][]int{}, [][]int{}
							for i := range l.To {
								tp = append(tp, pos(l.To[i].NamePos))
								fp = append(fp, pos(l.From[i].NamePos))
								fc = append(fc, byteArr(l.From[i].Name))
							}
							v["tp"], v["fp"], v["fc"] = tp, fp, fc
						}
					case "param":
						if e, ok := eqpos[key]; ok {
							v["ep"] = pos(e)
						} else {
							v["ep"] = p
						}
					case "args", "kwargs":
						if e, ok := namepos[key]; ok {
							v["np"] = pos(e)
						}
					}
				}
			}
			for _, x := range v {
				walk(x)
			}
		case []obj:
			for _, x := range v {
				walk(x)
			}
		case []any:
			for _, x := range v {
				walk(x)
			}
		}
	}
	walk(tree)
}

type c09Err struct {
	Line int    `json:"line"`
	Col  int    `json:"col"`
	Msg  string `json:"msg"`
}

type c09Run struct {
	M        int      `json:"m"`
	Errors   []c09Err `json:"errors"`
	Other    string   `json:"other,omitempty"` // resolve.File returned something that is not an ErrorList
	Compiled bool     `json:"compiled"`
	CPanic   string   `json:"cpanic,omitempty"`
	Static   bool     `json:"static"`  // ExecFileOptions failed with an error that is not an *EvalError
	OK       bool     `json:"ok"`      // ExecFileOptions returned nil
	EvalErr  bool     `json:"evalerr"` // ExecFileOptions failed with an *EvalError
	Err      string   `json:"err,omitempty"`
	Panic    string   `json:"panic,omitempty"`
	Effects  int      `json:"effects"`
	First    []string `json:"first"`
	Globals  []string `json:"globals"` // names of the module globals after the run
}

func c09RunOne(src string, m int) (run c09Run) {
	run.M = m
	run.Errors = []c09Err{}
	run.First = []string{}
	run.Globals = []string{}
	opts := c09Options(m)
	pre := starlark.StringDict{}
	var effects []string
	trace := func(thread *starlark.Thread, b *starlark.Builtin, args starlark.Tuple, kwargs []starlark.Tuple) (starlark.Value, error) {
		s := ""
		if len(args) > 0 {
			if str, ok := starlark.AsString(args[0]); ok {
				s = str
			} else {
				s = args[0].String()
			}
		}
		effects = append(effects, s)
		if len(args) > 0 {
			return args[0], nil
		}
		return starlark.None, nil
	}
	for _, n := range c09Predeclared {
		pre[n] = starlark.NewBuiltin(n, trace)
	}

	// 1. parse + resolve: the full error list
	func() {
		defer func() {
			if p := recover(); p != nil {
				run.CPanic = fmt.Sprint(p)
			}
		}()
		f, err := opts.Parse("case.star", src, 0)
		if err != nil {
			run.Other = "parse: " + err.Error()
			return
		}
		if err := resolve.File(f, pre.Has, starlark.Universe.Has); err != nil {
			if el, ok := err.(resolve.ErrorList); ok {
				for _, e := range el {
					run.Errors = append(run.Errors, c09Err{int(e.Pos.Line), int(e.Pos.Col), e.Msg})
				}
			} else {
				run.Other = err.Error()
			}
		}
		_, prog, err := starlark.SourceProgramOptions(opts, "case.star", src, pre.Has)
		run.Compiled = err == nil && prog != nil
	}()

	// 2. the whole pipeline, with effects
	func() {
		defer func() {
			if p := recover(); p != nil {
				run.Panic = fmt.Sprint(p)
			}
		}()
		th := &starlark.Thread{Name: "c09", Print: func(*starlark.Thread, string) {}}
		th.SetMaxExecutionSteps(5_000_000)
		th.Load = func(_ *starlark.Thread, module string) (starlark.StringDict, error) {
			effects = append(effects, "load:"+module)
			d := starlark.StringDict{}
			for i, n := range c09ModuleNames {
				d[n] = starlark.MakeInt(100 + i)
			}
			return d, nil
		}
		g, err := starlark.ExecFileOptions(opts, th, "case.star", src, pre)
		if g != nil {
			run.Globals = g.Keys()
		}
		switch e := err.(type) {
		case nil:
			run.OK = true
		case *starlark.EvalError:
			run.EvalErr = true
			run.Err = e.Msg
		default:
			run.Static = true
			run.Err = err.Error()
		}
		if len(run.Err) > 200 {
			run.Err = run.Err[:200]
		}
	}()
	run.Effects = len(effects)
	for i := 0; i < len(effects) && i < 4; i++ {
		run.First = append(run.First, effects[i])
	}
	return run
}

func init() {
	register("c09-front", func(args []string) error {
		fs := flag.NewFlagSet("c09-front", flag.ExitOnError)
		in := fs.String("in", "-", "cases ndjson {id, src, masks, ast}")
		out := fs.String("out", "-", "")
		fs.Parse(args)
		r, err := openIn(*in)
		if err != nil {
			return err
		}
		defer r.Close()
		w, err := openOut(*out)
		if err != nil {
			return err
		}
		defer w.Close()
		nw := newNDWriter(w)
		defer nw.flush()
		return readCases(r, func(raw json.RawMessage) error {
			var c struct {
				ID    int    `json:"id"`
				Src   string `json:"src"`
				Masks []int  `json:"masks"`
				Ast   bool   `json:"ast"`
			}
			if err := json.Unmarshal(raw, &c); err != nil {
				return err
			}
			res := obj{"id": c.ID}
			func() {
				defer func() {
					if p := recover(); p != nil {
						res["parse_ok"] = false
						res["perr"] = obj{"line": 0, "col": 0, "msg": "panic: " + fmt.Sprint(p)}
						res["ppanic"] = true
					}
				}()
				f, err := c09Options(63).Parse("case.star", c.Src, 0)
				if err != nil {
					res["parse_ok"] = false
					pe := obj{"line": 0, "col": 0, "msg": err.Error()}
					if se, ok := err.(syntax.Error); ok {
						pe = obj{"line": int(se.Pos.Line), "col": int(se.Pos.Col), "msg": se.Msg}
					}
					res["perr"] = pe
					return
				}
				res["parse_ok"] = true
				if c.Ast {
					tree := astFile(f)
					c09Decorate(f, tree)
					res["ast"] = tree
				}
			}()
			runs := []c09Run{}
			for _, m := range c.Masks {
				runs = append(runs, c09RunOne(c.Src, m))
			}
			res["runs"] = runs
			res["pre"] = c09Predeclared
			res["universe"] = starlark.Universe.Keys()
			nw.write(res)
			return nil
		})
	})
}
