package main

// c20-crash: operations that would make a message contain itself.  If the
// implementation accepts them, printing or marshalling the message recurses
// without bound and the Go runtime aborts the whole process ("fatal error:
// stack overflow" cannot be recovered), so each case runs in a child process.
//
//   vh c20-crash -in cases.ndjson -out res.ndjson      (parent)
//   vh c20-child                                        (child: one c20-exec case on stdin)

import (
	"bytes"
	"encoding/json"
	"fmt"
	"os"
	"os/exec"
	"runtime/debug"
	"strings"
	"time"
)

type c20CrashResult struct {
	ID     int            `json:"id"`
	Exit   int            `json:"exit"`
	Fatal  string         `json:"fatal,omitempty"` // first line of the runtime's fatal error
	Where  string         `json:"where,omitempty"` // first lib/proto frame of the overflowing stack
	Result *c20ExecResult `json:"result,omitempty"`
}

func init() {
	register("c20-child", func(args []string) error {
		// a small stack limit makes unbounded recursion fail fast; the messages of the
		// test schema nest at most a few levels, far below it
		debug.SetMaxStack(4 << 20)
		var c c20ExecCase
		if err := json.NewDecoder(os.Stdin).Decode(&c); err != nil {
			return err
		}
		res := c20RunExec(&c)
		return json.NewEncoder(os.Stdout).Encode(res)
	})
	register("c20-crash", func(args []string) error {
		self, err := os.Executable()
		if err != nil {
			return err
		}
		return c20IO("c20-crash", args, func(raw json.RawMessage) (any, error) {
			var c c20ExecCase
			if err := json.Unmarshal(raw, &c); err != nil {
				return nil, err
			}
			cmd := exec.Command(self, "c20-child")
			cmd.Stdin = bytes.NewReader(raw)
			var stdout, stderr bytes.Buffer
			cmd.Stdout, cmd.Stderr = &stdout, &stderr
			done := make(chan error, 1)
			if err := cmd.Start(); err != nil {
				return nil, err
			}
			go func() { done <- cmd.Wait() }()
			var werr error
			select {
			case werr = <-done:
			case <-time.After(120 * time.Second):
				cmd.Process.Kill()
				return nil, fmt.Errorf("child timed out on case %d", c.ID)
			}
			res := c20CrashResult{ID: c.ID}
			if werr != nil {
				res.Exit = -1
				if ee, ok := werr.(*exec.ExitError); ok {
					res.Exit = ee.ExitCode()
				}
				for _, l := range strings.Split(stderr.String(), "\n") {
					if strings.HasPrefix(l, "fatal error:") && res.Fatal == "" {
						res.Fatal = l
					}
					if res.Where == "" && strings.Contains(l, "lib/proto/proto.go:") {
						res.Where = strings.TrimSpace(l)
						if i := strings.Index(res.Where, " +0x"); i > 0 {
							res.Where = res.Where[:i]
						}
					}
				}
				if res.Fatal == "" {
					return nil, fmt.Errorf("child failed on case %d without a fatal error: %v: %.300s", c.ID, werr, stderr.String())
				}
				return res, nil
			}
			var r c20ExecResult
			if err := json.Unmarshal(stdout.Bytes(), &r); err != nil {
				return nil, fmt.Errorf("child output of case %d: %v", c.ID, err)
			}
			res.Result = &r
			return res, nil
		})
	})
}
