package main

// vh c18-run [-in f] [-out f]: json.encode / json.decode of the real lib/json module.
//
// case {"id":n, "doc":[bytes]}   decode the document given as raw bytes (no quoting layer):
//      result {"id", "res":{ok,v|err}, "dflt":{ok,isdefault,v|err}, "panic"}
//      res  = json.decode(doc);  dflt = json.decode(doc, default=SENTINEL) (keyword form for even
//      ids, positional form for odd ids); isdefault = the sentinel object itself came back.
// case {"id":n, "src":"<starlark expression>"}   evaluate x = src with the real interpreter, then
//      result {"id", "x":{ok,v|err}, "enc":{ok,v|err}, "back":{ok,v|err}, "panic"}
//      enc = json.encode(x) (a str, as bytes), back = json.decode(json.encode(x)).
// Struct field names are written as byte arrays (TLC cannot index strings).

import (
	"encoding/json"
	"flag"
	"fmt"

	sjson "go.starlark.net/lib/json"
	"go.starlark.net/starlark"
	"go.starlark.net/starlarkstruct"
)

type c18Case struct {
	ID  int    `json:"id"`
	Doc *[]int `json:"doc"`
	Src string `json:"src"`
}

type c18Out struct {
	OK        bool   `json:"ok"`
	V         obj    `json:"v,omitempty"`
	Err       string `json:"err,omitempty"`
	IsDefault bool   `json:"isdefault"`
}

type c18Result struct {
	ID    int     `json:"id"`
	Res   *c18Out `json:"res,omitempty"`
	Dflt  *c18Out `json:"dflt,omitempty"`
	X     *c18Out `json:"x,omitempty"`
	Enc   *c18Out `json:"enc,omitempty"`
	Back  *c18Out `json:"back,omitempty"`
	Panic string  `json:"panic,omitempty"`
}

// c18Enc is encValue with struct field names as byte arrays.
func c18Enc(v starlark.Value) obj {
	o := encValue(v)
	return c18Fix(o).(obj)
}

func c18Fix(x any) any {
	switch x := x.(type) {
	case obj:
		if x["t"] == "struct" {
			pairs := x["v"].([][]any)
			out := [][]any{}
			for _, p := range pairs {
				out = append(out, []any{byteArr(p[0].(string)), c18Fix(p[1])})
			}
			return obj{"t": "struct", "v": out}
		}
		for k, v := range x {
			x[k] = c18Fix(v)
		}
		return x
	case []obj:
		for i := range x {
			x[i] = c18Fix(x[i]).(obj)
		}
		return x
	case [][]obj:
		for i := range x {
			for j := range x[i] {
				x[i][j] = c18Fix(x[i][j]).(obj)
			}
		}
		return x
	}
	return x
}

func c18Call(th *starlark.Thread, fn string, args starlark.Tuple, kwargs []starlark.Tuple) (out *c18Out, val starlark.Value) {
	v, err := starlark.Call(th, sjson.Module.Members[fn], args, kwargs)
	if err != nil {
		msg := err.Error()
		if len(msg) > 300 {
			msg = msg[:300]
		}
		return &c18Out{Err: msg}, nil
	}
	return &c18Out{OK: true, V: c18Enc(v)}, v
}

func c18Run(c *c18Case) (res c18Result) {
	res.ID = c.ID
	defer func() {
		if r := recover(); r != nil {
			res.Panic = fmt.Sprint(r)
		}
	}()
	h := &hostEnv{}
	th := h.thread(0)
	if c.Doc != nil {
		b := make([]byte, len(*c.Doc))
		for i, x := range *c.Doc {
			b[i] = byte(x)
		}
		doc := starlark.String(string(b))
		res.Res, _ = c18Call(th, "decode", starlark.Tuple{doc}, nil)
		sentinel := starlark.NewList([]starlark.Value{starlark.String("sentinel")})
		var v starlark.Value
		if c.ID%2 == 0 {
			res.Dflt, v = c18Call(th, "decode", starlark.Tuple{doc}, []starlark.Tuple{{starlark.String("default"), sentinel}})
		} else {
			res.Dflt, v = c18Call(th, "decode", starlark.Tuple{doc, sentinel}, nil)
		}
		if l, ok := v.(*starlark.List); ok && l == sentinel {
			res.Dflt.IsDefault = true
		}
		return
	}
	pre := h.predeclared()
	pre["struct"] = starlark.NewBuiltin("struct", starlarkstruct.Make)
	x, err := starlark.EvalOptions((*optVec)(nil).fileOptions(), th, "case.star", c.Src, pre)
	if err != nil {
		res.X = &c18Out{Err: err.Error()}
		return
	}
	res.X = &c18Out{OK: true, V: c18Enc(x)}
	var e starlark.Value
	res.Enc, e = c18Call(th, "encode", starlark.Tuple{x}, nil)
	if e != nil {
		s, _ := starlark.AsString(e)
		res.Enc.V = obj{"t": "str", "v": byteArr(s)}
		res.Back, _ = c18Call(th, "decode", starlark.Tuple{e}, nil)
	}
	return
}

func init() {
	register("c18-run", func(args []string) error {
		fs := flag.NewFlagSet("c18-run", flag.ExitOnError)
		in := fs.String("in", "-", "cases ndjson")
		out := fs.String("out", "-", "results ndjson")
		fs.Parse(args)
		r, err := openIn(*in)
		if err != nil {
			return err
		}
		defer r.Close()
		w, err := openOut(*out)
		if err != nil {
			return err
		}
		defer w.Close()
		nw := newNDWriter(w)
		defer nw.flush()
		return readCases(r, func(raw json.RawMessage) error {
			var c c18Case
			if err := json.Unmarshal(raw, &c); err != nil {
				return fmt.Errorf("bad case: %v", err)
			}
			nw.write(c18Run(&c))
			return nil
		})
	})
}
