package main

// vh ast: parse Starlark source with the real parser and export the syntax tree as
// JSON for the TLA+ modules that work on trees (RefSem, Resolve).  Every node is an
// object whose field "k" names the node kind and is inspected before any other
// field; "p" is [line, col] of the position the specification attributes to the
// node's operation (operator token for unary/binary, '[' for index, '.' for
// attribute, '(' for call, the name for identifiers, '=' / 'for' for assignments
// and loops); JSON null is never used; strings are arrays of byte values where
// TLC has to look inside them (literal values), plain JSON strings for names.

import (
	"encoding/json"
	"flag"
	"fmt"
	"math/big"

	"go.starlark.net/syntax"
)

func pos(p syntax.Position) []int { return []int{int(p.Line), int(p.Col)} }

func astFile(f *syntax.File) obj {
	return obj{"k": "file", "body": astStmts(f.Stmts)}
}

func astStmts(ss []syntax.Stmt) []obj {
	out := []obj{}
	for _, s := range ss {
		out = append(out, astStmt(s))
	}
	return out
}

func astStmt(s syntax.Stmt) obj {
	switch s := s.(type) {
	case *syntax.AssignStmt:
		return obj{"k": "assign", "op": s.Op.String(), "p": pos(s.OpPos), "lhs": astExpr(s.LHS), "rhs": astExpr(s.RHS)}
	case *syntax.DefStmt:
		return obj{"k": "def", "name": s.Name.Name, "p": pos(s.Def), "np": pos(s.Name.NamePos), "params": astParams(s.Params), "body": astStmts(s.Body)}
	case *syntax.ExprStmt:
		return obj{"k": "expr", "x": astExpr(s.X)}
	case *syntax.IfStmt:
		return obj{"k": "if", "p": pos(s.If), "cond": astExpr(s.Cond), "then": astStmts(s.True), "else": astStmts(s.False)}
	case *syntax.LoadStmt:
		to, from := []string{}, []string{}
		for i := range s.To {
			to = append(to, s.To[i].Name)
			from = append(from, s.From[i].Name)
		}
		return obj{"k": "load", "p": pos(s.Load), "module": s.ModuleName(), "to": to, "from": from}
	case *syntax.BranchStmt:
		return obj{"k": s.Token.String(), "p": pos(s.TokenPos)} // break continue pass
	case *syntax.ReturnStmt:
		o := obj{"k": "return", "p": pos(s.Return), "has": s.Result != nil}
		if s.Result != nil {
			o["x"] = astExpr(s.Result)
		}
		return o
	case *syntax.ForStmt:
		return obj{"k": "for", "p": pos(s.For), "vars": astExpr(s.Vars), "x": astExpr(s.X), "body": astStmts(s.Body)}
	case *syntax.WhileStmt:
		return obj{"k": "while", "p": pos(s.While), "cond": astExpr(s.Cond), "body": astStmts(s.Body)}
	}
	panic(fmt.Sprintf("ast: unexpected stmt %T", s))
}

func astParams(ps []syntax.Expr) []obj {
	out := []obj{}
	for _, p := range ps {
		switch p := p.(type) {
		case *syntax.Ident:
			out = append(out, obj{"k": "param", "name": p.Name, "hasdflt": false, "p": pos(p.NamePos)})
		case *syntax.BinaryExpr: // name = default
			out = append(out, obj{"k": "param", "name": p.X.(*syntax.Ident).Name, "hasdflt": true, "dflt": astExpr(p.Y), "p": pos(p.X.(*syntax.Ident).NamePos)})
		case *syntax.UnaryExpr: // * , *args, **kwargs
			if p.X == nil {
				out = append(out, obj{"k": "star", "p": pos(p.OpPos)})
			} else if p.Op == syntax.STAR {
				out = append(out, obj{"k": "args", "name": p.X.(*syntax.Ident).Name, "p": pos(p.OpPos)})
			} else {
				out = append(out, obj{"k": "kwargs", "name": p.X.(*syntax.Ident).Name, "p": pos(p.OpPos)})
			}
		}
	}
	return out
}

func astExprs(es []syntax.Expr) []obj {
	out := []obj{}
	for _, e := range es {
		out = append(out, astExpr(e))
	}
	return out
}

func astExpr(e syntax.Expr) obj {
	switch e := e.(type) {
	case *syntax.Ident:
		return obj{"k": "name", "name": e.Name, "p": pos(e.NamePos)}
	case *syntax.Literal:
		o := obj{"k": "lit", "p": pos(e.TokenPos), "raw": e.Raw}
		switch v := e.Value.(type) {
		case string:
			if e.Token == syntax.BYTES {
				o["t"] = "bytes"
			} else {
				o["t"] = "str"
			}
			o["s"] = v // plain string for atomic use
			o["v"] = byteArr(v)
		case int64:
			o["t"] = "int"
			if v > -(1<<30) && v < (1<<30) {
				o["v"] = int(v)
			} else {
				o["t"] = "big"
				b := big.NewInt(v)
				o["neg"] = b.Sign() < 0
				o["m"] = limbsOf(b)
			}
		case *big.Int:
			o["t"] = "big"
			o["neg"] = v.Sign() < 0
			o["m"] = limbsOf(v)
		case float64:
			f := encFloat(v)
			o["t"] = "float"
			o["s"], o["e"], o["m"] = f["s"], f["e"], f["m"]
		}
		return o
	case *syntax.ParenExpr:
		return obj{"k": "paren", "p": pos(e.Lparen), "x": astExpr(e.X)}
	case *syntax.CallExpr:
		args := []obj{}
		for _, a := range e.Args {
			switch a := a.(type) {
			case *syntax.BinaryExpr:
				if a.Op == syntax.EQ {
					args = append(args, obj{"k": "named", "name": a.X.(*syntax.Ident).Name, "x": astExpr(a.Y), "p": pos(a.X.(*syntax.Ident).NamePos)})
					continue
				}
			case *syntax.UnaryExpr:
				if a.Op == syntax.STAR {
					args = append(args, obj{"k": "stararg", "x": astExpr(a.X), "p": pos(a.OpPos)})
					continue
				}
				if a.Op == syntax.STARSTAR {
					args = append(args, obj{"k": "kwarg", "x": astExpr(a.X), "p": pos(a.OpPos)})
					continue
				}
			}
			args = append(args, obj{"k": "pos", "x": astExpr(a)})
		}
		return obj{"k": "call", "p": pos(e.Lparen), "fn": astExpr(e.Fn), "args": args}
	case *syntax.DotExpr:
		return obj{"k": "dot", "p": pos(e.Dot), "x": astExpr(e.X), "name": e.Name.Name}
	case *syntax.Comprehension:
		clauses := []obj{}
		for _, c := range e.Clauses {
			switch c := c.(type) {
			case *syntax.ForClause:
				clauses = append(clauses, obj{"k": "for", "p": pos(c.For), "vars": astExpr(c.Vars), "x": astExpr(c.X)})
			case *syntax.IfClause:
				clauses = append(clauses, obj{"k": "if", "p": pos(c.If), "cond": astExpr(c.Cond)})
			}
		}
		o := obj{"k": "comp", "p": pos(e.Lbrack), "curly": e.Curly, "clauses": clauses}
		if e.Curly {
			de := e.Body.(*syntax.DictEntry)
			o["key"] = astExpr(de.Key)
			o["val"] = astExpr(de.Value)
			o["cp"] = pos(de.Colon)
		} else {
			o["body"] = astExpr(e.Body)
		}
		return o
	case *syntax.DictExpr:
		ents := []obj{}
		for _, it := range e.List {
			de := it.(*syntax.DictEntry)
			ents = append(ents, obj{"key": astExpr(de.Key), "val": astExpr(de.Value), "p": pos(de.Colon)})
		}
		return obj{"k": "dict", "p": pos(e.Lbrace), "entries": ents}
	case *syntax.LambdaExpr:
		return obj{"k": "lambda", "p": pos(e.Lambda), "params": astParams(e.Params), "body": astExpr(e.Body)}
	case *syntax.ListExpr:
		return obj{"k": "list", "p": pos(e.Lbrack), "elems": astExprs(e.List)}
	case *syntax.CondExpr:
		return obj{"k": "cond", "p": pos(e.If), "cond": astExpr(e.Cond), "then": astExpr(e.True), "else": astExpr(e.False)}
	case *syntax.TupleExpr:
		st, _ := e.Span()
		return obj{"k": "tuple", "p": pos(st), "elems": astExprs(e.List)}
	case *syntax.UnaryExpr:
		return obj{"k": "unary", "op": e.Op.String(), "p": pos(e.OpPos), "x": astExpr(e.X)}
	case *syntax.BinaryExpr:
		return obj{"k": "binary", "op": e.Op.String(), "p": pos(e.OpPos), "x": astExpr(e.X), "y": astExpr(e.Y)}
	case *syntax.SliceExpr:
		o := obj{"k": "slice", "p": pos(e.Lbrack), "x": astExpr(e.X), "haslo": e.Lo != nil, "hashi": e.Hi != nil, "hasstep": e.Step != nil}
		if e.Lo != nil {
			o["lo"] = astExpr(e.Lo)
		}
		if e.Hi != nil {
			o["hi"] = astExpr(e.Hi)
		}
		if e.Step != nil {
			o["step"] = astExpr(e.Step)
		}
		return o
	case *syntax.IndexExpr:
		return obj{"k": "index", "p": pos(e.Lbrack), "x": astExpr(e.X), "y": astExpr(e.Y)}
	}
	panic(fmt.Sprintf("ast: unexpected expr %T", e))
}

func init() {
	register("ast", func(args []string) error {
		fs := flag.NewFlagSet("ast", flag.ExitOnError)
		in := fs.String("in", "-", "cases ndjson {id, src, mode: file|expr}")
		out := fs.String("out", "-", "")
		fs.Parse(args)
		r, err := openIn(*in)
		if err != nil {
			return err
		}
		defer r.Close()
		w, err := openOut(*out)
		if err != nil {
			return err
		}
		defer w.Close()
		nw := newNDWriter(w)
		defer nw.flush()
		opts := &syntax.FileOptions{Set: true, While: true, TopLevelControl: true, GlobalReassign: true, Recursion: true}
		return readCases(r, func(raw json.RawMessage) error {
			var c struct {
				ID   int    `json:"id"`
				Src  string `json:"src"`
				Mode string `json:"mode"`
			}
			if err := json.Unmarshal(raw, &c); err != nil {
				return err
			}
			res := obj{"id": c.ID}
			func() {
				defer func() {
					if p := recover(); p != nil {
						res["ok"] = false
						res["err"] = fmt.Sprint(p)
					}
				}()
				if c.Mode == "expr" {
					e, err := opts.ParseExpr("case.star", c.Src, 0)
					if err != nil {
						res["ok"], res["err"] = false, err.Error()
						return
					}
					res["ok"], res["ast"] = true, astExpr(e)
					return
				}
				f, err := opts.Parse("case.star", c.Src, 0)
				if err != nil {
					res["ok"], res["err"] = false, err.Error()
					return
				}
				res["ok"], res["ast"] = true, astFile(f)
			}()
			nw.write(res)
			return nil
		})
	})
}
