package main

// vh c06-run: render the abstract scenarios emitted by spec/C06MC.tla with every
// concrete iterating construct of their class, for list / dict / set, run them on
// the real interpreter with programmable host values, compare the outcome of the
// mutation attempts with the model's expectation, check the post-conditions
// (collections mutable again, call stack depth restored, thread reusable) and
// record the hook trace (iterator begin/done, freeze, frame push/pop, attempts)
// for validation by TLC (spec/C06Trace.tla).  With -sweep it also re-runs every
// normally terminating scenario under every step limit 1..total (cancellation at
// every step index).

import (
	"encoding/json"
	"flag"
	"fmt"
	"os"
	"sort"
	"strings"

	"go.starlark.net/starlark"
	"go.starlark.net/syntax"
)

// ---------------------------------------------------------------- hook tracer

type c06Tracer struct {
	w     *ndWriter
	n     int
	ids   map[any]int
	on    bool
	nruns int
}

func (t *c06Tracer) id(o any) int {
	if id, ok := t.ids[o]; ok {
		return id
	}
	id := len(t.ids) + 1
	t.ids[o] = id
	return id
}

func (t *c06Tracer) emit(o obj) {
	if !t.on || t.w == nil {
		return
	}
	t.n++
	o["n"] = t.n
	t.w.write(o)
}

func (t *c06Tracer) reset(desc string) {
	t.ids = map[any]int{}
	t.nruns++
	t.emit(obj{"ev": "reset", "o": 0, "c": 0, "d": 0, "ok": 0, "run": desc})
}

func (t *c06Tracer) install() {
	starlark.VerifIter = func(delta int, o any) {
		if !t.on {
			return
		}
		c := starlark.VerifCountOf(o)
		ev := "begin"
		if delta < 0 {
			ev = "done"
		}
		t.emit(obj{"ev": ev, "o": t.id(o), "c": c, "d": 0, "ok": 0})
	}
	starlark.VerifFreeze = func(o any) {
		if t.on {
			t.emit(obj{"ev": "freeze", "o": t.id(o), "c": 0, "d": 0, "ok": 0})
		}
	}
	starlark.VerifFrame = func(th *starlark.Thread, delta, depth int) {
		if !t.on {
			return
		}
		ev := "push"
		if delta < 0 {
			ev = "pop"
		}
		t.emit(obj{"ev": ev, "o": 0, "c": 0, "d": depth, "ok": 0, "t": t.id(th)})
	}
}

func c06Track(v starlark.Value) {}

// ---------------------------------------------------------------- programmable host values

type c06Env struct {
	kind    string
	sc      c06Scenario
	conc    string
	th      *starlark.Thread
	tr      *c06Tracer
	X, Y    starlark.Value
	probes  []*probe
	calls   int  // invocations of the body hook
	armed   bool // callbacks of probes are active
	at      int  // the body acts at its at-th invocation
	done    bool // attempt performed
	results []c06Attempt
	problems []string
	helpers starlark.StringDict
}

type c06Attempt struct {
	Phase  string `json:"phase"`
	Tgt    string `json:"tgt"`
	Mut    string `json:"mut"`
	Failed bool   `json:"failed"`
	Same   bool   `json:"same"`
}

type probe struct {
	id  int
	env *c06Env
}

func (p *probe) String() string        { return fmt.Sprintf("p%d", p.id) }
func (p *probe) Type() string          { return "probe" }
func (p *probe) Freeze()               {}
func (p *probe) Truth() starlark.Bool  { p.env.callback("truth"); return true }
func (p *probe) Hash() (uint32, error) {
	if err := p.env.callback("hash"); err != nil {
		return 0, err
	}
	return uint32(p.id * 7), nil
}
func (p *probe) CompareSameType(op syntax.Token, y starlark.Value, depth int) (bool, error) {
	if err := p.env.callback("cmp"); err != nil {
		return false, err
	}
	q := y.(*probe)
	switch op {
	case syntax.EQL:
		return p.id == q.id, nil
	case syntax.NEQ:
		return p.id != q.id, nil
	case syntax.LT:
		return p.id < q.id, nil
	case syntax.LE:
		return p.id <= q.id, nil
	case syntax.GT:
		return p.id > q.id, nil
	default:
		return p.id >= q.id, nil
	}
}

// callback is the body hook reached through Hash/Truth/compare of a probe
func (e *c06Env) callback(via string) error {
	if !e.armed || e.sc.Cls != "cb" || !strings.HasPrefix(e.conc, "probe:") {
		return nil
	}
	want := strings.SplitN(e.conc, ":", 3)[1]
	if want != via {
		return nil
	}
	_, err := e.body()
	return err
}

func (e *c06Env) newColl(kind string, elems []starlark.Value) starlark.Value {
	var v starlark.Value
	switch kind {
	case "list":
		v = starlark.NewList(append([]starlark.Value{}, elems...))
	case "dict":
		d := starlark.NewDict(len(elems))
		for i, x := range elems {
			d.SetKey(x, starlark.MakeInt(i))
		}
		v = d
	default:
		s := starlark.NewSet(len(elems))
		for _, x := range elems {
			s.Insert(x)
		}
		v = s
	}
	c06Track(v)
	return v
}

func snapshot(v starlark.Value) string {
	var sb strings.Builder
	switch v := v.(type) {
	case *starlark.List:
		for i := 0; i < v.Len(); i++ {
			fmt.Fprintf(&sb, "%v,", v.Index(i))
		}
	case *starlark.Dict:
		for _, kv := range v.Items() {
			fmt.Fprintf(&sb, "%v:%v,", kv[0], kv[1])
		}
	case *starlark.Set:
		// read without an iterator so that observing does not disturb the counters
		sb.WriteString(v.String())
	}
	return sb.String()
}

type mutator struct {
	name string
	f    func(e *c06Env, v starlark.Value) error
}

func (e *c06Env) callMethod(v starlark.Value, name string, args ...starlark.Value) error {
	m, err := v.(starlark.HasAttrs).Attr(name)
	if err != nil || m == nil {
		return fmt.Errorf("no method %s", name)
	}
	_, err = starlark.Call(e.th, m, starlark.Tuple(args), nil)
	return err
}

func (e *c06Env) callHelper(name string, args ...starlark.Value) error {
	_, err := starlark.Call(e.th, e.helpers[name], starlark.Tuple(args), nil)
	return err
}

const c06Helpers = `
def setidx(x): x[0] = x[0]
def setkey(d, k): d[k] = 1
def iadd(x):
    x += [1]
def iadd_tuple(x):
    x += (1,)
def iadd_range(x):
    x += range(1)
def iadd_elem(x):
    o = [x]
    o[0] += (1,)
def ior_d(d, k):
    d |= {k: 1}
def ior_s(s, k):
    s |= set([k])
def fails(): return 1 // 0
def ident(x): return x
`

// all would-change mutators of a kind (each must fail while the collection is iterated or frozen)
func (e *c06Env) mutators(kind string) []mutator {
	np := starlark.Value(&probe{id: 99, env: e})
	p1 := starlark.Value(e.probes[0])
	switch kind {
	case "list":
		return []mutator{
			{"go:Append", func(e *c06Env, v starlark.Value) error { return v.(*starlark.List).Append(np) }},
			{"go:SetIndex", func(e *c06Env, v starlark.Value) error { return v.(*starlark.List).SetIndex(0, np) }},
			{"go:Clear", func(e *c06Env, v starlark.Value) error { return v.(*starlark.List).Clear() }},
			{"append", func(e *c06Env, v starlark.Value) error { return e.callMethod(v, "append", np) }},
			{"clear", func(e *c06Env, v starlark.Value) error { return e.callMethod(v, "clear") }},
			{"extend", func(e *c06Env, v starlark.Value) error { return e.callMethod(v, "extend", starlark.Tuple{np}) }},
			{"insert", func(e *c06Env, v starlark.Value) error { return e.callMethod(v, "insert", starlark.MakeInt(0), np) }},
			{"pop", func(e *c06Env, v starlark.Value) error { return e.callMethod(v, "pop") }},
			{"remove", func(e *c06Env, v starlark.Value) error { return e.callMethod(v, "remove", p1) }},
			{"x[i]=", func(e *c06Env, v starlark.Value) error { return e.callHelper("setidx", v) }},
			{"x+=", func(e *c06Env, v starlark.Value) error { return e.callHelper("iadd", v) }},
			{"x+=tuple", func(e *c06Env, v starlark.Value) error { return e.callHelper("iadd_tuple", v) }},
			{"x+=range", func(e *c06Env, v starlark.Value) error { return e.callHelper("iadd_range", v) }},
			{"o[0]+=tuple", func(e *c06Env, v starlark.Value) error { return e.callHelper("iadd_elem", v) }},
			{"extend(list)", func(e *c06Env, v starlark.Value) error {
				return e.callMethod(v, "extend", starlark.NewList([]starlark.Value{np}))
			}},
		}
	case "dict":
		return []mutator{
			{"go:SetKey", func(e *c06Env, v starlark.Value) error { return v.(*starlark.Dict).SetKey(np, starlark.None) }},
			{"go:SetKey-existing", func(e *c06Env, v starlark.Value) error { return v.(*starlark.Dict).SetKey(p1, starlark.MakeInt(77)) }},
			{"go:Delete", func(e *c06Env, v starlark.Value) error { _, _, err := v.(*starlark.Dict).Delete(p1); return err }},
			{"go:Clear", func(e *c06Env, v starlark.Value) error { return v.(*starlark.Dict).Clear() }},
			{"clear", func(e *c06Env, v starlark.Value) error { return e.callMethod(v, "clear") }},
			{"pop", func(e *c06Env, v starlark.Value) error { return e.callMethod(v, "pop", p1) }},
			{"popitem", func(e *c06Env, v starlark.Value) error { return e.callMethod(v, "popitem") }},
			{"setdefault", func(e *c06Env, v starlark.Value) error { return e.callMethod(v, "setdefault", np) }},
			{"update", func(e *c06Env, v starlark.Value) error {
				return e.callMethod(v, "update", starlark.NewList([]starlark.Value{starlark.Tuple{np, starlark.None}}))
			}},
			{"update(dict of 9)", func(e *c06Env, v starlark.Value) error {
				// enough new keys to make the table grow: a bulk insertion must not resize a table that is being iterated
				d := starlark.NewDict(9)
				for i := 0; i < 9; i++ {
					d.SetKey(starlark.Value(&probe{id: 200 + i, env: e}), starlark.None)
				}
				return e.callMethod(v, "update", d)
			}},
			{"d[k]=", func(e *c06Env, v starlark.Value) error { return e.callHelper("setkey", v, np) }},
			{"d|=", func(e *c06Env, v starlark.Value) error { return e.callHelper("ior_d", v, np) }},
		}
	default:
		return []mutator{
			{"go:Insert", func(e *c06Env, v starlark.Value) error { return v.(*starlark.Set).Insert(np) }},
			{"go:Delete", func(e *c06Env, v starlark.Value) error { _, err := v.(*starlark.Set).Delete(p1); return err }},
			{"go:Clear", func(e *c06Env, v starlark.Value) error { return v.(*starlark.Set).Clear() }},
			{"add", func(e *c06Env, v starlark.Value) error { return e.callMethod(v, "add", np) }},
			{"clear", func(e *c06Env, v starlark.Value) error { return e.callMethod(v, "clear") }},
			{"discard", func(e *c06Env, v starlark.Value) error { return e.callMethod(v, "discard", p1) }},
			{"pop", func(e *c06Env, v starlark.Value) error { return e.callMethod(v, "pop") }},
			{"remove", func(e *c06Env, v starlark.Value) error { return e.callMethod(v, "remove", p1) }},
			{"update", func(e *c06Env, v starlark.Value) error { return e.callMethod(v, "update", starlark.Tuple{np}) }},
			{"update(list of 9)", func(e *c06Env, v starlark.Value) error {
				var xs []starlark.Value
				for i := 0; i < 9; i++ {
					xs = append(xs, starlark.Value(&probe{id: 200 + i, env: e}))
				}
				return e.callMethod(v, "update", starlark.NewList(xs))
			}},
		}
	}
}

// benign: a mutation and its inverse; both must succeed when the collection is mutable
func (e *c06Env) benign(v starlark.Value) error {
	np := starlark.Value(&probe{id: 98, env: e})
	switch v := v.(type) {
	case *starlark.List:
		if err := v.Append(np); err != nil {
			return err
		}
		m, _ := v.Attr("pop")
		// (on a thread of its own: this probes the collection, not the cancellation state of the scenario's thread)
		_, err := starlark.Call(&starlark.Thread{Name: "c06-benign"}, m, nil, nil)
		return err
	case *starlark.Dict:
		if err := v.SetKey(np, starlark.None); err != nil {
			return err
		}
		_, _, err := v.Delete(np)
		return err
	case *starlark.Set:
		if err := v.Insert(np); err != nil {
			return err
		}
		_, err := v.Delete(np)
		return err
	}
	return nil
}

func (e *c06Env) target(name string) starlark.Value {
	if name == "X" {
		return e.X
	}
	return e.Y
}

// attempt performs the mutation attempts on a target and logs them
func (e *c06Env) attempt(phase, tgt string, expectFail bool) {
	wasArmed := e.armed
	e.armed = false
	defer func() { e.armed = wasArmed }()
	v := e.target(tgt)
	oid := e.tr.id(starlark.VerifTable(v))
	rec := func(name string, err error, same bool) {
		ok := 0
		if err == nil {
			ok = 1
		}
		e.tr.emit(obj{"ev": "attempt", "o": oid, "c": 0, "d": 0, "ok": ok, "mut": name})
		e.results = append(e.results, c06Attempt{phase, tgt, name, err != nil, same})
	}
	if expectFail {
		for _, m := range e.mutators(e.kind) {
			before := snapshot(v)
			err := func() (err error) {
				defer func() {
					if r := recover(); r != nil {
						err = nil
						e.problems = append(e.problems, fmt.Sprintf("mutator %s panicked: %v", m.name, r))
					}
				}()
				return m.f(e, v)
			}()
			same := snapshot(v) == before
			rec(m.name, err, same)
			if err == nil {
				e.problems = append(e.problems, fmt.Sprintf("%s: %s on %s succeeded although the model requires it to fail", phase, m.name, tgt))
			}
			if !same {
				e.problems = append(e.problems, fmt.Sprintf("%s: %s on %s changed the collection (%s -> %s)", phase, m.name, tgt, before, snapshot(v)))
			}
		}
	} else {
		before := snapshot(v)
		err := e.benign(v)
		rec("benign", err, snapshot(v) == before)
		if err != nil {
			e.problems = append(e.problems, fmt.Sprintf("%s: mutation of %s failed although it is not being iterated: %v", phase, tgt, err))
		}
	}
}

// body is the hook evaluated for every element; at its at-th invocation it attempts the
// mutation and triggers the exit path.
func (e *c06Env) body() (starlark.Value, error) {
	e.calls++
	if e.calls != e.at {
		return starlark.MakeInt(e.calls), nil
	}
	if !e.done {
		e.done = true
		if len(e.sc.Exp) > 0 {
			e.attempt("during", e.sc.Exp[0].Tgt, e.sc.Exp[0].Fails)
		}
	}
	switch e.sc.Exit {
	case "err":
		return nil, fmt.Errorf("body failed")
	case "panic":
		panic("host panic in body")
	case "cancel":
		e.th.Cancel("cancelled by body")
		return starlark.String(""), nil
	case "break", "return", "callerr":
		return starlark.String(e.sc.Exit), nil
	}
	return starlark.MakeInt(e.calls), nil
}

// ---------------------------------------------------------------- scenarios

type c06Scenario struct {
	Cls  string `json:"cls"`
	Nest string `json:"nest"`
	Tgt  string `json:"tgt"`
	Exit string `json:"exit"`
	Fz   bool   `json:"fz"`
	Exp  []struct {
		Tgt   string `json:"tgt"`
		Fails bool   `json:"fails"`
	} `json:"-"`
}

// concrete constructs per class; %I is the inner iterable of a nested form
func c06Constructs(cls, nest, kind, exit string) []string {
	switch cls {
	case "loop":
		if nest != "none" && exit != "break" && exit != "return" {
			// the inner iteration may also be a comprehension or a built-in with a callback
			return []string{"for", "for-comp", "for-sorted"}
		}
		return []string{"for"}
	case "comp":
		if nest != "none" {
			return []string{"listcomp", "dictcomp"}
		}
		return []string{"listcomp", "dictcomp", "comp2", "compif"}
	case "cb":
		out := []string{"sorted-key", "min-key", "max-key"}
		if exit != "err" {
			out = append(out, "probe:truth:all", "probe:truth:any")
		}
		out = append(out, "probe:hash:set", "probe:hash:union", "probe:hash:dictcomp-keys", "probe:cmp:sorted", "probe:cmp:min", "probe:cmp:max")
		if kind == "set" {
			out = append(out, "probe:hash:intersection", "probe:hash:difference", "probe:hash:symmetric_difference", "probe:hash:issubset")
		}
		// dict(X) / d.update(X) with a dict operand take a snapshot of X's items first and hold
		// no iterator while they hash into the receiver, so they are not "iterating" constructs.
		return out
	case "pre":
		if exit == "err" {
			out := []string{"unpack-many", "unpack-few", "forunpack-many", "pair-len3", "pair-frozen-target", "pair-iterated-target", "zip-noniter"}
			if kind == "list" {
				out = append(out, "pair-unhashable")
			}
			return out
		}
		return []string{"starargs", "unpack", "forunpack", "list", "tuple", "enumerate", "reversed", "zip", "extend", "sorted", "len", "pair-dict", "pair-update", "pair-dictcomp"}
	case "go":
		out := []string{"Iterate", "Elements"}
		if kind == "dict" {
			out = append(out, "Entries")
		}
		return out
	}
	return nil
}

func (e *c06Env) source() string {
	inner := "X"
	if e.sc.Nest == "other" {
		inner = "Y"
	}
	act := `
def act(r):
    if r == "callerr": fails()
    return r
def fails(): return 1 // 0
`
	var b string
	switch e.sc.Cls {
	case "loop":
		if e.sc.Nest == "none" {
			b = `
def run(X, Y):
    for e in X:
        r = body(e)
        if r == "break": break
        if r == "return": return "ret"
        if r == "callerr": fails()
    after()
    return "done"
`
		} else if e.conc == "for-comp" {
			b = `
def run(X, Y):
    for e in X:
        t = [act(body(f)) for f in ` + inner + `]
    after()
    return "done"
`
		} else if e.conc == "for-sorted" {
			b = `
def run(X, Y):
    for e in X:
        t = sorted(` + inner + `, key = lambda f: act(body(f)))
    after()
    return "done"
`
		} else {
			b = `
def run(X, Y):
    for e in X:
        for f in ` + inner + `:
            r = body(f)
            if r == "break": break
            if r == "return": return "ret"
            if r == "callerr": fails()
    after()
    return "done"
`
		}
	case "comp":
		var expr string
		switch e.conc {
		case "listcomp":
			expr = "[act(body(e)) for e in X]"
			if e.sc.Nest != "none" {
				expr = "[act(body(f)) for e in X for f in " + inner + "]"
			}
		case "dictcomp":
			expr = "{e: act(body(e)) for e in X}"
			if e.sc.Nest != "none" {
				expr = "{(e, f): act(body(f)) for e in X for f in " + inner + "}"
			}
		case "comp2":
			expr = "[act(body(e)) for a in [1] for e in X]"
		case "compif":
			expr = "[e for e in X if act(body(e)) != None]"
		}
		b = "\ndef run(X, Y):\n    r = " + expr + "\n    after()\n    return \"done\"\n"
	case "cb":
		var expr string
		switch e.conc {
		case "sorted-key":
			expr = "sorted(X, key=body)"
		case "min-key":
			expr = "min(X, key=body)"
		case "max-key":
			expr = "max(X, key=body)"
		case "probe:truth:all":
			expr = "all(X)"
		case "probe:truth:any":
			expr = "any(X)"
		case "probe:hash:set":
			expr = "set(X)"
		case "probe:hash:union":
			expr = "set().union(X)"
		case "probe:hash:dictcomp-keys":
			expr = "set([1]).union(X)"
		case "probe:hash:intersection":
			expr = "set([1]).intersection(X)"
		case "probe:hash:difference":
			expr = "set([1]).difference(X)"
		case "probe:hash:symmetric_difference":
			expr = "set([1]).symmetric_difference(X)"
		case "probe:hash:issubset":
			expr = "set([1]).issubset(X)"
		case "probe:hash:issuperset":
			expr = "set([1]).issuperset(X)"
		case "probe:hash:dict":
			expr = "dict(X)"
		case "probe:hash:update":
			expr = "{}.update(X)"
		case "probe:cmp:sorted":
			expr = "sorted(X)"
		case "probe:cmp:min":
			expr = "min(X)"
		case "probe:cmp:max":
			expr = "max(X)"
		}
		b = "\ndef run(X, Y):\n    r = " + expr + "\n    after()\n    return \"done\"\n"
	case "pre":
		var stmts string
		switch e.conc {
		case "starargs":
			stmts = "    r = act(f3(*X))\n"
		case "unpack":
			stmts = "    a, b, c = X\n    r = act(body(a))\n    r = act(body(b))\n"
		case "forunpack":
			stmts = "    for a, b, c in [X]:\n        r = act(body(a))\n        r = act(body(b))\n"
		case "unpack-many":
			stmts = "    a, b = X\n    r = act(body(a))\n"
		case "unpack-few":
			stmts = "    a, b, c, d = X\n    r = act(body(a))\n"
		case "forunpack-many":
			stmts = "    for a, b in [X]:\n        r = act(body(a))\n"
		case "list", "tuple", "enumerate", "reversed", "sorted", "len":
			stmts = "    t = " + e.conc + "(X)\n    r = act(body(1))\n    r = act(body(2))\n"
		case "zip":
			stmts = "    t = zip(X, X)\n    r = act(body(1))\n    r = act(body(2))\n"
		case "extend":
			stmts = "    t = []\n    t.extend(X)\n    r = act(body(1))\n    r = act(body(2))\n"
		// X as a key/value PAIR inside the argument of dict() / update(): the built-in iterates X itself
		case "pair-dict", "pair-len3", "pair-unhashable":
			stmts = "    t = dict([X])\n    r = act(body(1))\n    r = act(body(2))\n"
		case "pair-update":
			stmts = "    t = {}\n    t.update([X], k = 1)\n    r = act(body(1))\n    r = act(body(2))\n"
		case "pair-dictcomp":
			stmts = "    t = {k: v for k, v in [X]}\n    r = act(body(1))\n    r = act(body(2))\n"
		case "pair-frozen-target":
			stmts = "    FROZEN.update([X])\n    r = act(body(1))\n"
		case "pair-iterated-target":
			stmts = "    for k in TARGET:\n        TARGET.update([X])\n    r = act(body(1))\n"
		case "zip-noniter":
			stmts = "    t = zip(X, 1)\n    r = act(body(1))\n"
		}
		b = "\ndef f3(*a):\n    body(a[0])\n    return body(a[1])\ndef run(X, Y):\n" + stmts + "    after()\n    return \"done\"\n"
	case "go":
		b = "\ndef run(X, Y):\n    r = goiter(X)\n    after()\n    return \"done\"\n"
	}
	return act + b
}

// goiter ranges over X with a Go API and runs the body hook inside the loop
func (e *c06Env) goiter(x starlark.Value) (starlark.Value, error) {
	stop := func(v starlark.Value, err error) (bool, error) {
		if err != nil {
			return true, err
		}
		if s, ok := v.(starlark.String); ok && s == "break" {
			return true, nil
		}
		return false, nil
	}
	switch e.conc {
	case "Iterate":
		it := starlark.Iterate(x)
		defer it.Done()
		var el starlark.Value
		for it.Next(&el) {
			if s, err := stop(e.body()); s {
				return starlark.None, err
			}
		}
	case "Elements":
		for range starlark.Elements(x.(starlark.Iterable)) {
			if s, err := stop(e.body()); s {
				return starlark.None, err
			}
		}
	case "Entries":
		for range x.(*starlark.Dict).Entries() {
			if s, err := stop(e.body()); s {
				return starlark.None, err
			}
		}
	}
	return starlark.None, nil
}

type c06Result struct {
	Sc       c06Scenario  `json:"sc"`
	Kind     string       `json:"kind"`
	Conc     string       `json:"conc"`
	Limit    uint64       `json:"limit,omitempty"`
	Outcome  string       `json:"outcome"`
	Steps    uint64       `json:"steps"`
	Attempts []c06Attempt `json:"attempts"`
	Problems []string     `json:"problems"`
}

func c06Run(tr *c06Tracer, sc c06Scenario, kind, conc string, limit uint64) (res c06Result) {
	e := &c06Env{kind: kind, sc: sc, conc: conc, tr: tr, at: 2}
	if conc == "probe:truth:any" {
		e.at = 1 // any() stops at the first true element: its early return is the exit path
	}
	res = c06Result{Sc: sc, Kind: kind, Conc: conc, Limit: limit}
	// a panic of the code under test outside the scripted panic exit (e.g. while the thread is reused after the call)
	// is an observation of this scenario, not a failure of the harness
	defer func() {
		if p := recover(); p != nil {
			res.Attempts = e.results
			res.Problems = append(e.problems, fmt.Sprintf("after the call: the host panics while the values / the thread are used again: %v", p))
		}
	}()
	e.th = &starlark.Thread{Name: "c06"}
	for i := 1; i <= 3; i++ {
		e.probes = append(e.probes, &probe{id: i, env: e})
	}
	elems := []starlark.Value{e.probes[0], e.probes[1], e.probes[2]}
	tr.on = false
	e.X = e.newColl(kind, elems)
	if strings.HasPrefix(conc, "pair-") && conc != "pair-len3" {
		first := starlark.Value(e.probes[0])
		if conc == "pair-unhashable" {
			first = starlark.NewList(nil)
		}
		e.X = e.newColl(kind, []starlark.Value{first, e.probes[1]})
	}
	e.Y = e.newColl(kind, []starlark.Value{&probe{id: 11, env: e}, &probe{id: 12, env: e}, &probe{id: 13, env: e}})
	opts := &syntax.FileOptions{Set: true, GlobalReassign: true, TopLevelControl: true, While: true}
	var err error
	e.helpers, err = starlark.ExecFileOptions(opts, e.th, "helpers.star", c06Helpers, nil)
	if err != nil {
		panic(err)
	}
	pre := starlark.StringDict{
		"body": starlark.NewBuiltin("body", func(*starlark.Thread, *starlark.Builtin, starlark.Tuple, []starlark.Tuple) (starlark.Value, error) {
			return e.body()
		}),
		"after": starlark.NewBuiltin("after", func(*starlark.Thread, *starlark.Builtin, starlark.Tuple, []starlark.Tuple) (starlark.Value, error) {
			// still inside run(): the loops are over, X must be mutable again (unless frozen)
			if len(e.sc.Exp) > 1 {
				for _, x := range e.sc.Exp[1:] {
					e.attempt("after", x.Tgt, x.Fails)
				}
			}
			return starlark.None, nil
		}),
		"goiter": starlark.NewBuiltin("goiter", func(_ *starlark.Thread, _ *starlark.Builtin, args starlark.Tuple, _ []starlark.Tuple) (starlark.Value, error) {
			return e.goiter(args[0])
		}),
		"P3": e.probes[2],
		"FROZEN": func() starlark.Value { d := starlark.NewDict(0); d.Freeze(); return d }(),
		"TARGET": func() starlark.Value { d := starlark.NewDict(1); d.SetKey(starlark.MakeInt(1), starlark.MakeInt(1)); return d }(),
	}
	g, err := starlark.ExecFileOptions(opts, e.th, "scenario.star", e.source(), pre)
	if err != nil {
		res.Outcome = "machinery: " + err.Error()
		return
	}
	if sc.Fz {
		e.X.Freeze()
	}
	tr.on = true
	tr.reset(fmt.Sprintf("%s/%s/%s/%s/%s/%s/fz=%v/limit=%d", sc.Cls, conc, kind, sc.Nest, sc.Tgt, sc.Exit, sc.Fz, limit))
	if sc.Fz {
		tr.emit(obj{"ev": "freeze", "o": tr.id(starlark.VerifTable(e.X)), "c": 0, "d": 0, "ok": 0})
	}
	depth0 := e.th.CallStackDepth()
	if limit > 0 {
		e.th.SetMaxExecutionSteps(limit)
		e.at = 1 << 30 // no scripted exit: the step limit is the exit path
		e.sc.Exit = "exhaust"
	}
	e.armed = true
	outcome := func() (out string) {
		defer func() {
			if r := recover(); r != nil {
				out = fmt.Sprintf("panic: %v", r)
			}
		}()
		_, err := starlark.Call(e.th, g["run"], starlark.Tuple{e.X, e.Y}, nil)
		if err != nil {
			return "error: " + err.Error()
		}
		return "ok"
	}()
	e.armed = false
	res.Steps = e.th.ExecutionSteps()
	res.Outcome = outcome
	tr.emit(obj{"ev": "quiet", "o": 0, "c": 0, "d": 0, "ok": 0})

	// post-conditions: when the outermost call has returned ...
	if d := e.th.CallStackDepth(); d != depth0 {
		e.problems = append(e.problems, fmt.Sprintf("call stack depth %d after the call, %d before", d, depth0))
	}
	for _, name := range []string{"X", "Y"} {
		v := e.target(name)
		c, frozen, _ := starlark.VerifIterCount(v)
		if !frozen && c != 0 {
			e.problems = append(e.problems, fmt.Sprintf("%s still has %d live iterator(s) after the call returned", name, c))
		}
		err := e.benign(v)
		if frozen && err == nil {
			e.problems = append(e.problems, name+" is frozen but a mutation succeeded")
		}
		if !frozen && err != nil {
			e.problems = append(e.problems, fmt.Sprintf("%s cannot be mutated after the call returned: %v", name, err))
		}
	}
	// a call attempted on the thread as the run left it (possibly still cancelled) may fail with the cancellation
	// error, but it must leave the call stack where it was
	starlark.Call(e.th, e.helpers["ident"], starlark.Tuple{starlark.MakeInt(1)}, nil)
	if d := e.th.CallStackDepth(); d != depth0 {
		e.problems = append(e.problems, fmt.Sprintf("call stack depth %d after a further call on the thread, %d before the run", d, depth0))
	}
	// the thread remains usable (cancellation persists by design until Uncancel)
	e.th.Uncancel()
	if limit > 0 {
		e.th.SetMaxExecutionSteps(1 << 62)
	}
	if _, err := starlark.Call(e.th, e.helpers["ident"], starlark.Tuple{starlark.MakeInt(1)}, nil); err != nil {
		e.problems = append(e.problems, "thread not reusable: "+err.Error())
	}
	// expected outcome class of the scripted exit
	if limit == 0 {
		want := map[string]string{"exhaust": "ok", "break": "ok", "return": "ok", "err": "error", "callerr": "error", "panic": "panic", "cancel": "error"}[sc.Exit]
		if !strings.HasPrefix(outcome, want) && !strings.HasPrefix(conc, "probe:") {
			// a frozen X makes some constructs fail earlier; only an unexpected *success* or crash matters
			if !(want == "ok" && strings.HasPrefix(outcome, "error")) || !sc.Fz {
				e.problems = append(e.problems, fmt.Sprintf("outcome %q, scripted exit %s", outcome, sc.Exit))
			}
		}
		nexp := 0
		if len(sc.Exp) > 0 {
			nexp = 1
		}
		if nexp == 1 && !e.done && strings.HasPrefix(outcome, "ok") {
			e.problems = append(e.problems, "the body hook never ran (harness scenario is vacuous)")
		}
	}
	res.Attempts = e.results
	res.Problems = e.problems
	return
}

func init() {
	register("c06-run", func(args []string) error {
		fs := flag.NewFlagSet("c06-run", flag.ExitOnError)
		in := fs.String("in", "-", "abstract scenarios from TLC, one JSON object per line: {sc, exp}")
		out := fs.String("out", "-", "results ndjson (only runs with problems, plus a summary line)")
		trace := fs.String("trace", "", "hook trace output (ndjson)")
		sweep := fs.Int("sweep", 0, "also run every normally terminating scenario under every step limit (1 = all, k = every k-th scenario)")
		only := fs.String("only", "", "restrict to one concrete run: cls/conc/kind/nest/tgt/exit/fz/limit")
		fs.Parse(args)
		r, err := openIn(*in)
		if err != nil {
			return err
		}
		defer r.Close()
		w, err := openOut(*out)
		if err != nil {
			return err
		}
		defer w.Close()
		nw := newNDWriter(w)
		defer nw.flush()
		tr := &c06Tracer{ids: map[any]int{}}
		if *trace != "" {
			tf, err := os.Create(*trace)
			if err != nil {
				return err
			}
			defer tf.Close()
			tr.w = newNDWriter(tf)
			defer tr.w.flush()
		}
		tr.install()
		nruns, nsweep, nattempts, nprob := 0, 0, 0, 0
		classes := map[string]int{}
		nsc := 0
		err = readCases(r, func(raw json.RawMessage) error {
			var rec struct {
				Sc  c06Scenario `json:"sc"`
				Exp []struct {
					Tgt   string `json:"tgt"`
					Fails bool   `json:"fails"`
				} `json:"exp"`
			}
			if err := json.Unmarshal(raw, &rec); err != nil {
				return err
			}
			sc := rec.Sc
			sc.Exp = rec.Exp
			nsc++
			for _, kind := range []string{"list", "dict", "set"} {
				for _, conc := range c06Constructs(sc.Cls, sc.Nest, kind, sc.Exit) {
					if strings.HasPrefix(conc, "probe:hash:dict") && kind != "dict" {
						continue
					}
					key := fmt.Sprintf("%s/%s/%s/%s/%s/%s/%v", sc.Cls, conc, kind, sc.Nest, sc.Tgt, sc.Exit, sc.Fz)
					if *only != "" && !strings.HasPrefix(*only, key+"/") {
						continue
					}
					limit0 := uint64(0)
					if *only != "" {
						fmt.Sscanf((*only)[len(key)+1:], "%d", &limit0)
					}
					res := c06Run(tr, sc, kind, conc, limit0)
					nruns++
					classes[sc.Cls+"/"+conc]++
					nattempts += len(res.Attempts)
					if len(res.Problems) > 0 || strings.HasPrefix(res.Outcome, "machinery") {
						nprob++
						nw.write(res)
					}
					// fault enumeration: cancellation by step limit at every step index
					if *only == "" && *sweep > 0 && sc.Exit == "exhaust" && sc.Tgt == "X" && nruns%*sweep == 0 &&
						strings.HasPrefix(res.Outcome, "ok") {
						for n := uint64(1); n <= res.Steps+1; n++ {
							r2 := c06Run(tr, sc, kind, conc, n)
							nsweep++
							if len(r2.Problems) > 0 {
								nprob++
								nw.write(r2)
							}
						}
					}
				}
			}
			return nil
		})
		keys := []string{}
		for k := range classes {
			keys = append(keys, k)
		}
		sort.Strings(keys)
		nw.write(obj{"summary": true, "abstract": nsc, "runs": nruns, "sweep_runs": nsweep, "attempts": nattempts,
			"problem_runs": nprob, "events": tr.n, "constructs": keys})
		return err
	})
}
