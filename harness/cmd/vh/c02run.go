package main

// vh c02-run   : supervisor.  Splits the cases into batches and runs each batch in a
//                CHILD process (`vh c02-child`); a Go stack overflow or another fatal
//                runtime error kills the child, the supervisor sees which case was in
//                flight, records it and continues with the rest of the batch in a new
//                child.  Every abnormal case is reported with its input so that the
//                driver can re-run it alone.
// vh c02-child : executes cases from stdin; protocol on stdout, one line each:
//                  "> id"          the case is about to run (flushed before it starts)
//                  "= id {json}"   its result
//                the file -marker (shared memory) holds "id text": progress inside the running
//                case (graphs: "root op" about to run); it survives the death of the child
//                  "! id text"     watchdog: the case exceeded its CPU/wall limit (exit 86) or is
//                                  running beyond its step budget (exit 87)
//                  "# id text"     machinery problem (exit 3)

import (
	"bufio"
	"bytes"
	"encoding/json"
	"flag"
	"fmt"
	"io"
	"os"
	"os/exec"
	"path/filepath"
	"regexp"
	"runtime"
	"runtime/debug"
	"strconv"
	"strings"
	"sync"
	"sync/atomic"
	"syscall"
	"time"
)

// ---------------------------------------------------------------- child

type c02Result struct {
	Class  string   `json:"class"` // ok | err | panic (a recovered Go panic) | bad (budget overrun)
	Detail string   `json:"detail,omitempty"`
	N      int      `json:"n"`  // evaluations performed
	NT     bool     `json:"nt"` // non-trivial (reached the code under test)
	Mism   []string `json:"mism,omitempty"`
	Extra  any      `json:"extra,omitempty"`
}

func cpuMillis() int64 {
	var ru syscall.Rusage
	syscall.Getrusage(syscall.RUSAGE_SELF, &ru)
	return (ru.Utime.Sec+ru.Stime.Sec)*1000 + int64(ru.Utime.Usec+ru.Stime.Usec)/1000
}

func c02Exec(kind string, raw []byte) (*c02Result, error) {
	switch kind {
	case "call":
		var c c02CallCase
		if err := json.Unmarshal(raw, &c); err != nil {
			return nil, err
		}
		o, err := c02RunCall(&c)
		if err != nil {
			return nil, err
		}
		nt := o.Class == "ok" || (o.Class == "err" && !strings.Contains(o.Detail, "argument"))
		return &c02Result{Class: o.Class, Detail: o.Detail, N: 1, NT: nt}, nil
	case "op":
		var c c02OpCase
		if err := json.Unmarshal(raw, &c); err != nil {
			return nil, err
		}
		o, err := c02RunOp(&c)
		if err != nil {
			return nil, err
		}
		return &c02Result{Class: o.Class, Detail: o.Detail, N: 1, NT: o.Class == "ok" || o.Class == "err"}, nil
	case "graph":
		var g c02GraphCase
		if err := json.Unmarshal(raw, &g); err != nil {
			return nil, err
		}
		r, err := c02RunGraph(&g)
		if err != nil {
			return nil, err
		}
		res := &c02Result{Class: "ok", N: r.N, NT: r.NT, Mism: r.Mism, Extra: r}
		if len(r.Panics) > 0 {
			res.Class, res.Detail = "panic", strings.Join(r.Panics, "; ")
		}
		return res, nil
	case "src":
		var c c02SrcCase
		if err := json.Unmarshal(raw, &c); err != nil {
			return nil, err
		}
		r, err := c02RunSrc(&c)
		if err != nil {
			return nil, err
		}
		res := &c02Result{Class: "ok", N: r.N, NT: r.NT, Extra: r}
		if r.Class != "ok" {
			res.Class = "err"
			res.Detail = r.Class
		}
		if len(r.Bad) > 0 {
			res.Class, res.Detail = "panic", strings.Join(r.Bad, "; ")
			if !strings.Contains(res.Detail, "panic") {
				res.Class = "bad"
			}
		}
		return res, nil
	}
	return nil, fmt.Errorf("unknown kind %q", kind)
}

func c02Child(args []string) error {
	fs := flag.NewFlagSet("c02-child", flag.ExitOnError)
	kind := fs.String("kind", "call", "call | graph | src")
	cpuMs := fs.Int64("cpu-ms", 2000, "default CPU limit per case")
	stackMB := fs.Int("stack-mb", 0, "maximum goroutine stack (0 = Go default, 1 GB)")
	memMB := fs.Uint64("mem-mb", 0, "address space limit (0 = none)")
	lazyGC := fs.Bool("lazy-gc", false, "collect garbage only when the heap approaches 2 GB (small cases: the collector costs more than the cases)")
	marker := fs.String("marker", "", "file shared with the supervisor: progress inside the running case (survives a fatal error)")
	fs.Parse(args)
	var mark []byte
	if *marker != "" {
		f, err := os.OpenFile(*marker, os.O_RDWR, 0)
		if err != nil {
			return err
		}
		if mark, err = syscall.Mmap(int(f.Fd()), 0, 256, syscall.PROT_READ|syscall.PROT_WRITE, syscall.MAP_SHARED); err != nil {
			return err
		}
		f.Close()
	}
	if *lazyGC {
		debug.SetGCPercent(-1)
		debug.SetMemoryLimit(2 << 30)
	}
	if *memMB > 0 {
		lim := syscall.Rlimit{Cur: *memMB << 20, Max: *memMB << 20}
		syscall.Setrlimit(syscall.RLIMIT_AS, &lim)
	}
	if *stackMB > 0 {
		debug.SetMaxStack(*stackMB << 20)
	}
	if err := c02Init(); err != nil {
		return err
	}
	if err := c02InitOps(); err != nil {
		return err
	}
	var mu sync.Mutex
	w := bufio.NewWriterSize(os.Stdout, 1<<16)
	var curID, curStartCPU, curStartWall, curLimit atomic.Int64
	curID.Store(-1)
	go func() { // watchdog: notes when it first sees a case and how much CPU the process had used then
		seen := int64(-1)
		for {
			time.Sleep(10 * time.Millisecond)
			id := curID.Load()
			if id < 0 {
				seen = -1
				continue
			}
			if id != seen {
				seen = id
				curStartCPU.Store(cpuMillis())
				curStartWall.Store(time.Now().UnixMilli())
				continue
			}
			if th := c02CurThread.Load(); th != nil {
				if steps, budget := th.ExecutionSteps(), c02CurBudget.Load(); steps > budget+1000 {
					mu.Lock()
					fmt.Fprintf(w, "! %d overrun: %d steps executed and still running with a budget of %d\n", id, steps, budget)
					w.Flush()
					os.Exit(87)
				}
			}
			cpu := cpuMillis() - curStartCPU.Load()
			wall := time.Now().UnixMilli() - curStartWall.Load()
			lim := curLimit.Load()
			if id == curID.Load() && (cpu > lim || wall > 40*lim) {
				mu.Lock()
				fmt.Fprintf(w, "! %d cpu=%dms wall=%dms limit=%dms\n", id, cpu, wall, lim)
				w.Flush()
				os.Exit(86)
			}
		}
	}()
	type hdr struct {
		ID  int64 `json:"id"`
		Tmo int64 `json:"tmo"`
	}
	err := readCases(os.Stdin, func(raw json.RawMessage) error {
		var h hdr
		if err := json.Unmarshal(raw, &h); err != nil {
			return err
		}
		lim := *cpuMs
		if h.Tmo > 0 {
			lim = h.Tmo
		}
		mu.Lock()
		fmt.Fprintf(w, "> %d\n", h.ID)
		w.Flush()
		mu.Unlock()
		curLimit.Store(lim)
		curID.Store(h.ID)
		c02Progress = func(at string) {
			if mark != nil { // "id at\n", NUL padded
				n := copy(mark[:255], fmt.Sprintf("%d %s\n", h.ID, at))
				mark[n] = 0
			}
		}
		res, err := c02Exec(*kind, raw)
		curID.Store(-1)
		mu.Lock()
		defer mu.Unlock()
		if err != nil {
			fmt.Fprintf(w, "# %d %s\n", h.ID, strings.ReplaceAll(err.Error(), "\n", " | "))
			w.Flush()
			os.Exit(3)
		}
		b, _ := json.Marshal(res)
		fmt.Fprintf(w, "= %d %s\n", h.ID, b)
		return nil
	})
	mu.Lock()
	w.Flush()
	mu.Unlock()
	return err
}

// ---------------------------------------------------------------- supervisor

type c02Abnormal struct {
	ID      int64           `json:"id"`
	What    string          `json:"what"` // crash | hang | panic | bad | mismatch
	At      string          `json:"at,omitempty"` // progress marker of the case when it died
	Exit    int             `json:"exit,omitempty"`
	Fatal   string          `json:"fatal,omitempty"`  // first "fatal error:" / "panic:" line of the child's stderr
	Frames  []string        `json:"frames,omitempty"` // first go.starlark.net functions of the dying stack
	OOM     bool            `json:"oom,omitempty"`
	OOMSize int64           `json:"oom_block,omitempty"`
	Detail  string          `json:"detail,omitempty"`
	Result  json.RawMessage `json:"result,omitempty"`
	Case    json.RawMessage `json:"case"`
}

type capBuf struct {
	head, tail []byte
	n          int
}

func (c *capBuf) Write(p []byte) (int, error) {
	c.n += len(p)
	if room := 16384 - len(c.head); room > 0 {
		k := len(p)
		if k > room {
			k = room
		}
		c.head = append(c.head, p[:k]...)
	}
	c.tail = append(c.tail, p...)
	if len(c.tail) > 4096 {
		c.tail = c.tail[len(c.tail)-4096:]
	}
	return len(p), nil
}

var (
	reFatal = regexp.MustCompile(`(?m)^(fatal error: .*|panic: .*|runtime: out of memory.*|runtime: goroutine stack exceeds.*)$`)
	reFrame = regexp.MustCompile(`go\.starlark\.net/[A-Za-z0-9_/]+(\.\(\*[A-Za-z0-9_]+\))?(\.[A-Za-z0-9_]+)+`)
	reBlock = regexp.MustCompile(`cannot allocate (\d+)-byte block`)
)

func c02Diagnose(a *c02Abnormal, stderr *capBuf) {
	text := string(stderr.head)
	var fatals []string
	for _, m := range reFatal.FindAllString(text, 4) {
		fatals = append(fatals, m)
	}
	a.Fatal = strings.Join(fatals, " | ")
	seen := map[string]bool{}
	for _, m := range reFrame.FindAllString(text, 400) {
		if strings.Contains(m, "cmd/vh") || seen[m] {
			continue
		}
		seen[m] = true
		a.Frames = append(a.Frames, m)
		if len(a.Frames) >= 6 {
			break
		}
	}
	all := text + string(stderr.tail)
	if strings.Contains(all, "out of memory") || strings.Contains(all, "cannot allocate memory") {
		a.OOM = true
		if m := reBlock.FindStringSubmatch(all); m != nil {
			a.OOMSize, _ = strconv.ParseInt(m[1], 10, 64)
		}
	}
	if a.Fatal == "" {
		a.Detail = trunc(strings.ReplaceAll(text, "\n", " | "), 400)
	}
}

type c02Summary struct {
	Summary  bool             `json:"summary"`
	Cases    int64            `json:"cases"`
	Ran      int64            `json:"ran"`
	Evals    int64            `json:"evaluations"`
	NT       int64            `json:"nontrivial"`
	IDSum    int64            `json:"idsum"`
	ByClass  map[string]int64 `json:"by_class"`
	Children int64            `json:"children"`
}

type c02Sup struct {
	self    string
	tmpdir  string // scratch directory (that of the output file)
	kind    string
	childAr []string
	mu      sync.Mutex
	out     *ndWriter
	sum     c02Summary
	sample  int64
	errOnce error
}

func caseID(raw []byte) (int64, error) {
	var h struct {
		ID int64 `json:"id"`
	}
	err := json.Unmarshal(raw, &h)
	return h.ID, err
}

// runBatch executes the cases of one batch, restarting the child after every case that killed it.
func (s *c02Sup) runBatch(lines [][]byte) error {
	byID := map[int64][]byte{}
	for len(lines) > 0 {
		for _, l := range lines {
			id, err := caseID(l)
			if err != nil {
				return err
			}
			byID[id] = l
		}
		mf, err := os.CreateTemp(s.tmpdir, "c02-marker-*")
		if err != nil {
			return err
		}
		mf.Truncate(256)
		mf.Close()
		defer os.Remove(mf.Name())
		cmd := exec.Command(s.self, append([]string{"c02-child", "-marker", mf.Name()}, s.childAr...)...)
		cmd.Stdin = bytes.NewReader(bytes.Join(lines, nil))
		stdout, err := cmd.StdoutPipe()
		if err != nil {
			return err
		}
		stderr := &capBuf{}
		cmd.Stderr = stderr
		if err := cmd.Start(); err != nil {
			return err
		}
		atomic.AddInt64(&s.sum.Children, 1)
		br := bufio.NewReaderSize(stdout, 1<<20)
		inflight := int64(-1)
		done := 0 // number of cases of `lines` finished (result, hang or crash)
		var hang, mach string
		for {
			line, err := br.ReadBytes('\n')
			if len(line) > 2 {
				rest := bytes.TrimSpace(line[2:])
				sp := bytes.IndexByte(rest, ' ')
				idText, payload := rest, []byte(nil)
				if sp >= 0 {
					idText, payload = rest[:sp], rest[sp+1:]
				}
				id, _ := strconv.ParseInt(string(idText), 10, 64)
				switch line[0] {
				case '>':
					inflight = id
				case '=':
					inflight = -1
					done++
					if e := s.result(id, byID[id], payload); e != nil {
						return e
					}
				case '!':
					hang = string(payload)
				case '#':
					mach = fmt.Sprintf("case %d: %s", id, payload)
				}
			}
			if err != nil {
				break
			}
		}
		io.Copy(io.Discard, stdout)
		werr := cmd.Wait()
		exit := 0
		if werr != nil {
			if ee, ok := werr.(*exec.ExitError); ok {
				exit = ee.ExitCode()
				if ws, ok := ee.Sys().(syscall.WaitStatus); ok && ws.Signaled() {
					exit = 128 + int(ws.Signal())
				}
			} else {
				return werr
			}
		}
		if mach != "" {
			return fmt.Errorf("child reports a machinery problem: %s", mach)
		}
		if inflight < 0 {
			if exit != 0 {
				return fmt.Errorf("child exited with %d between cases: %s", exit, trunc(string(stderr.head), 2000))
			}
			if done != len(lines) {
				return fmt.Errorf("child finished %d of %d cases", done, len(lines))
			}
			return nil
		}
		// the case in flight killed the child (or was killed by the watchdog)
		at := ""
		if mb, err := os.ReadFile(mf.Name()); err == nil {
			if i := bytes.IndexByte(mb, 0); i >= 0 {
				mb = mb[:i]
			}
			if f := strings.SplitN(strings.TrimSpace(string(mb)), " ", 2); len(f) == 2 && f[0] == fmt.Sprint(inflight) {
				at = f[1]
			}
		}
		a := &c02Abnormal{ID: inflight, Exit: exit, At: at, Case: json.RawMessage(bytes.TrimSpace(byID[inflight]))}
		if hang != "" && exit == 86 {
			a.What, a.Detail = "hang", hang
		} else if hang != "" && exit == 87 {
			a.What, a.Detail = "overrun", hang
		} else {
			a.What = "crash"
			c02Diagnose(a, stderr)
		}
		s.abnormal(a)
		done++
		if done > len(lines) {
			return fmt.Errorf("protocol error: more results than cases")
		}
		lines = lines[done:]
	}
	return nil
}

func (s *c02Sup) abnormal(a *c02Abnormal) {
	s.mu.Lock()
	defer s.mu.Unlock()
	s.sum.Ran++
	s.sum.IDSum += a.ID
	s.sum.ByClass[a.What]++
	s.out.write(a)
}

func (s *c02Sup) result(id int64, raw []byte, payload []byte) error {
	var r c02Result
	if err := json.Unmarshal(payload, &r); err != nil {
		return fmt.Errorf("bad result line for case %d: %v", id, err)
	}
	s.mu.Lock()
	defer s.mu.Unlock()
	s.sum.Ran++
	s.sum.IDSum += id
	s.sum.Evals += int64(r.N)
	if r.NT {
		s.sum.NT++
	}
	s.sum.ByClass[r.Class]++
	switch {
	case r.Class == "panic" || r.Class == "bad":
		s.out.write(&c02Abnormal{ID: id, What: r.Class, Detail: r.Detail, Result: append([]byte(nil), payload...), Case: json.RawMessage(bytes.TrimSpace(raw))})
	case len(r.Mism) > 0:
		s.sum.ByClass["mismatch"]++
		s.out.write(&c02Abnormal{ID: id, What: "mismatch", Detail: strings.Join(r.Mism, "; "), Result: append([]byte(nil), payload...), Case: json.RawMessage(bytes.TrimSpace(raw))})
	case s.sample > 0 && id%s.sample == 0:
		s.out.write(obj{"sample": true, "id": id, "case": json.RawMessage(bytes.TrimSpace(raw)), "result": json.RawMessage(append([]byte(nil), payload...))})
	}
	return nil
}

func c02Run(args []string) error {
	fs := flag.NewFlagSet("c02-run", flag.ExitOnError)
	kind := fs.String("kind", "call", "call | graph | src")
	in := fs.String("in", "-", "cases ndjson")
	out := fs.String("out", "-", "abnormal cases, samples and the summary")
	par := fs.Int("par", 0, "parallel children (0 = min(12, cpus))")
	batch := fs.Int("batch", 1000, "cases per child")
	cpuMs := fs.Int64("cpu-ms", 2000, "CPU limit per case")
	stackMB := fs.Int("stack-mb", 0, "")
	memMB := fs.Uint64("mem-mb", 8192, "")
	sample := fs.Int64("sample", 0, "copy every result whose id is a multiple of this to the output")
	lazyGC := fs.Bool("lazy-gc", false, "")
	fs.Parse(args)
	self, err := os.Executable()
	if err != nil {
		return err
	}
	r, err := openIn(*in)
	if err != nil {
		return err
	}
	var lines [][]byte
	err = readCases(r, func(raw json.RawMessage) error {
		l := append([]byte(nil), raw...)
		if l[len(l)-1] != '\n' {
			l = append(l, '\n')
		}
		lines = append(lines, l)
		return nil
	})
	r.Close()
	if err != nil {
		return err
	}
	w, err := openOut(*out)
	if err != nil {
		return err
	}
	defer w.Close()
	s := &c02Sup{self: self, kind: *kind, out: newNDWriter(w), sample: *sample}
	if *out != "-" && *out != "" {
		s.tmpdir = filepath.Dir(*out)
	}
	defer s.out.flush()
	s.sum.Summary = true
	s.sum.Cases = int64(len(lines))
	s.sum.ByClass = map[string]int64{}
	s.childAr = []string{"-kind", *kind, "-cpu-ms", fmt.Sprint(*cpuMs), "-stack-mb", fmt.Sprint(*stackMB), "-mem-mb", fmt.Sprint(*memMB), fmt.Sprintf("-lazy-gc=%v", *lazyGC)}
	n := *par
	if n <= 0 {
		n = runtime.NumCPU()
		if n > 12 {
			n = 12
		}
	}
	type job struct{ lo, hi int }
	jobs := make(chan job, 1024)
	var wg sync.WaitGroup
	var firstErr atomic.Value
	for i := 0; i < n; i++ {
		wg.Add(1)
		go func() {
			defer wg.Done()
			for j := range jobs {
				if firstErr.Load() != nil {
					continue
				}
				if err := s.runBatch(lines[j.lo:j.hi]); err != nil {
					firstErr.CompareAndSwap(nil, err)
				}
			}
		}()
	}
	for lo := 0; lo < len(lines); lo += *batch {
		hi := lo + *batch
		if hi > len(lines) {
			hi = len(lines)
		}
		jobs <- job{lo, hi}
	}
	close(jobs)
	wg.Wait()
	if e := firstErr.Load(); e != nil {
		return e.(error)
	}
	s.out.write(&s.sum)
	return nil
}

func init() {
	register("c02-child", c02Child)
	register("c02-run", c02Run)
}
