package main

// C02 operator domain: the forms of spec/CrashDomain.tla (1b) are expression or
// statement texts over the variables x, y, z, w.  Each text is compiled once into
// `def f(x, y, z, w)` and called with freshly materialised operands, so indexing,
// slicing, the operators, attribute access and the assignment forms run through
// the real compiler and interpreter.

import (
	"flag"
	"fmt"
	"math/big"
	"strings"

	"go.starlark.net/starlark"
	"go.starlark.net/syntax"
)

type c02OpCase struct {
	ID   int      `json:"id"`
	Form string   `json:"form"`
	Src  string   `json:"src"`
	Stmt bool     `json:"stmt"`
	Args []string `json:"a"`
}

var c02OpFuncs = map[string]starlark.Value{}

func c02OpFunc(c *c02OpCase) (starlark.Value, error) {
	key := fmt.Sprint(c.Stmt, c.Src)
	if f, ok := c02OpFuncs[key]; ok {
		return f, nil
	}
	var src string
	if c.Stmt {
		src = "def f(x, y, z, w):\n    " + c.Src + "\n    return x\n"
	} else {
		src = "def f(x, y, z, w):\n    return (" + c.Src + ")\n"
	}
	th := &starlark.Thread{Name: "opform"}
	g, err := starlark.ExecFileOptions(&syntax.FileOptions{Set: true, GlobalReassign: true}, th, "form.star", src, nil)
	if err != nil {
		return nil, fmt.Errorf("form %q does not compile: %v", c.Src, err)
	}
	c02OpFuncs[key] = g["f"]
	return g["f"], nil
}

// c02OperandValue materialises an operand code; symbolic index codes are resolved
// against the length n of the first operand (3 if it has none).
func c02OperandValue(code string, first starlark.Value) (starlark.Value, error) {
	if strings.HasPrefix(code, "ix_") {
		n := 3
		if first != nil {
			if l := starlark.Len(first); l >= 0 {
				n = l
			}
		}
		v := new(big.Int).SetInt64(int64(n))
		switch code {
		case "ix_len":
		case "ix_lenm1":
			v.Sub(v, big.NewInt(1))
		case "ix_mlen":
			v.Neg(v)
		case "ix_mlen1":
			v.Neg(v).Sub(v, big.NewInt(1))
		case "ix_mlen2":
			v.Neg(v).Sub(v, big.NewInt(2))
		default:
			return nil, fmt.Errorf("unknown symbolic index %q", code)
		}
		return starlark.MakeBigInt(v), nil
	}
	return c02Value(code)
}

func c02RunOp(c *c02OpCase) (out c02Outcome, merr error) {
	f, err := c02OpFunc(c)
	if err != nil {
		return out, err
	}
	if len(c.Args) < 1 || len(c.Args) > 4 {
		return out, fmt.Errorf("form %s with %d operands", c.Form, len(c.Args))
	}
	args := starlark.Tuple{starlark.None, starlark.None, starlark.None, starlark.None}
	for i, a := range c.Args {
		if args[i], err = c02OperandValue(a, args[0]); err != nil {
			return out, err
		}
	}
	const budget = 100_000
	th := c02Thread(budget)
	c02CurBudget.Store(budget)
	c02CurThread.Store(th)
	defer c02CurThread.Store(nil)
	defer func() {
		if r := recover(); r != nil {
			out = c02Outcome{Class: "panic", Detail: trunc(fmt.Sprint(r), 300)}
		}
	}()
	v, err := starlark.Call(th, f, args, nil)
	if th.ExecutionSteps() > budget {
		return c02Outcome{Class: "bad", Detail: fmt.Sprintf("%d steps executed with a budget of %d", th.ExecutionSteps(), budget)}, nil
	}
	if err != nil {
		msg := err.Error()
		if ee, ok := err.(*starlark.EvalError); ok {
			msg = ee.Msg
		}
		return c02Outcome{Class: "err", Detail: trunc(msg, 120)}, nil
	}
	if v == nil {
		return c02Outcome{Class: "panic", Detail: "nil result without error"}, nil
	}
	return c02Outcome{Class: "ok", Detail: v.Type()}, nil
}

// vh c02-codes -codes a,b,c: length (-1 = none) and type of every operand code, for the
// driver's description of failing index classes
func init() {
	register("c02-codes", func(args []string) error {
		fs := flag.NewFlagSet("c02-codes", flag.ExitOnError)
		codes := fs.String("codes", "", "comma separated operand codes")
		out := fs.String("out", "-", "")
		fs.Parse(args)
		if err := c02Init(); err != nil {
			return err
		}
		w, err := openOut(*out)
		if err != nil {
			return err
		}
		defer w.Close()
		nw := newNDWriter(w)
		defer nw.flush()
		for _, c := range strings.Split(*codes, ",") {
			if strings.HasPrefix(c, "ix_") {
				continue
			}
			v, err := c02Value(c)
			if err != nil {
				return err
			}
			nw.write(obj{"code": c, "len": starlark.Len(v), "type": v.Type()})
		}
		return nil
	})
}
