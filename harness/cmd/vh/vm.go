package main

// vh vm-dump: compile programs with the compiler of the build under test and dump
// the byte code of every function as decoded instructions for spec/VM.tla.

import (
	"encoding/json"
	"flag"
	"fmt"

	"go.starlark.net/starlark"
	"go.starlark.net/syntax"
)

func init() {
	register("vm-dump", func(args []string) error {
		fs := flag.NewFlagSet("vm-dump", flag.ExitOnError)
		in := fs.String("in", "-", "cases {id, src}")
		out := fs.String("out", "-", "functions ndjson")
		fs.Parse(args)
		r, err := openIn(*in)
		if err != nil {
			return err
		}
		defer r.Close()
		w, err := openOut(*out)
		if err != nil {
			return err
		}
		defer w.Close()
		nw := newNDWriter(w)
		defer nw.flush()
		opts := &syntax.FileOptions{Set: true, While: true, TopLevelControl: true, GlobalReassign: true, Recursion: true}
		h := &hostEnv{}
		n := 0
		return readCases(r, func(raw json.RawMessage) error {
			var c struct {
				ID  int    `json:"id"`
				Src string `json:"src"`
			}
			if err := json.Unmarshal(raw, &c); err != nil {
				return err
			}
			pre := h.predeclared()
			var prog *starlark.Program
			var err error
			func() {
				defer func() {
					if r := recover(); r != nil {
						err = fmt.Errorf("compiler panic: %v", r) // reported by `vh eval` for the same program
					}
				}()
				_, prog, err = starlark.SourceProgramOptions(opts, "case.star", c.Src, pre.Has)
			}()
			if err != nil {
				return nil // static errors and compiler panics are not this command's subject
			}
			for _, f := range starlark.VerifProgramFuncodes(prog) {
				code := []obj{}
				for pc := 0; pc < len(f.Code); {
					op := f.Code[pc]
					start := pc
					pc++
					arg := 0
					if name := starlark.VerifOpcodeName(op); opHasArg(op) {
						for s := uint(0); ; s += 7 {
							b := f.Code[pc]
							pc++
							arg |= int(b&0x7f) << s
							if b < 0x80 {
								break
							}
						}
						_ = name
					}
					code = append(code, obj{"pc": start, "op": starlark.VerifOpcodeName(op), "arg": arg})
				}
				n++
				nw.write(obj{"id": n, "prog": c.ID, "name": f.Name, "maxstack": f.MaxStack, "code": code})
			}
			return nil
		})
	})
}

// opcodes at or above "jmp" carry a varint argument (compile.OpcodeArgMin)
var vmArgMin = -1

func opHasArg(op byte) bool {
	if vmArgMin < 0 {
		for b := 0; b < 256; b++ {
			if starlark.VerifOpcodeName(byte(b)) == "jmp" {
				vmArgMin = b
				break
			}
		}
	}
	return int(op) >= vmArgMin
}
