package main

// C14 "Parsing is faithful to the grammar": harness side.
//
//	vh c14-trees -in trees.ndjson -out res.ndjson -mode expr|file -layouts N
//	    For every record {id, tree, toks} produced by TLC (spec/C14Gen.tla: a syntax tree and
//	    its rendering by spec/Grammar.tla with pseudo tokens for the free choices) write the
//	    text under N seeded layouts, parse it with the real parser, convert the real tree to
//	    the uniform shape [k, a, c] and compare kinds, attributes, children and the start
//	    position of every node.
//	vh c14-lits -in lits.ndjson -out recs.ndjson
//	    Scan one literal text per case with the real scanner (through ParseExpr) and record
//	    the token kind and decoded value, or the error.
//	vh c14-near -in near.ndjson -out res.ndjson -mode expr|file
//	    Write token lists in the canonical layout, run parser and resolver, record
//	    acceptance / the positioned errors.
//	vh c14-conv -in texts.ndjson -out trees.ndjson -mode expr|file
//	    Parse texts and write the converted trees (for the round-trip through Grammar!Render).

import (
	"encoding/json"
	"errors"
	"flag"
	"fmt"
	"math/big"
	"math/rand"
	"os"
	"strings"
	"unicode/utf8"

	"go.starlark.net/resolve"
	"go.starlark.net/syntax"
)

// ---------------------------------------------------------------- uniform trees

type c14Node struct {
	K    string     `json:"k"`
	A    string     `json:"a"`
	C    []*c14Node `json:"c"`
	Line int32      `json:"-"`
	Col  int32      `json:"-"`
}

var c14NoPos = map[string]bool{"block": true, "file": true, "item": true, "alias": true}

func c14n(k, a string, pos syntax.Position, c ...*c14Node) *c14Node {
	if c == nil {
		c = []*c14Node{}
	}
	return &c14Node{K: k, A: a, C: c, Line: pos.Line, Col: pos.Col}
}

type c14Conv struct {
	lits []*syntax.Literal
}

func (cv *c14Conv) exprs(xs []syntax.Expr) []*c14Node {
	out := make([]*c14Node, 0, len(xs))
	for _, x := range xs {
		out = append(out, cv.expr(x))
	}
	return out
}

func (cv *c14Conv) expr(e syntax.Expr) *c14Node {
	pos := syntax.Start(e)
	switch e := e.(type) {
	case *syntax.Ident:
		return c14n("id", e.Name, pos)
	case *syntax.Literal:
		cv.lits = append(cv.lits, e)
		k := "?" + e.Token.String()
		switch e.Token {
		case syntax.INT:
			k = "int"
		case syntax.FLOAT:
			k = "float"
		case syntax.STRING:
			k = "str"
		case syntax.BYTES:
			k = "bytes"
		}
		return c14n(k, e.Raw, pos)
	case *syntax.ParenExpr:
		// parentheses are not part of the abstract tree
		return cv.expr(e.X)
	case *syntax.UnaryExpr:
		if e.X == nil {
			return c14n("?unary-nil", e.Op.String(), pos)
		}
		return c14n("un", e.Op.String(), pos, cv.expr(e.X))
	case *syntax.BinaryExpr:
		return c14n("bin", e.Op.String(), pos, cv.expr(e.X), cv.expr(e.Y))
	case *syntax.CondExpr:
		return c14n("cond", "", pos, cv.expr(e.True), cv.expr(e.Cond), cv.expr(e.False))
	case *syntax.LambdaExpr:
		c := cv.params(e.Params)
		c = append(c, cv.expr(e.Body))
		return c14n("lambda", "", pos, c...)
	case *syntax.CallExpr:
		c := []*c14Node{cv.expr(e.Fn)}
		for _, a := range e.Args {
			c = append(c, cv.arg(a))
		}
		return c14n("call", "", pos, c...)
	case *syntax.IndexExpr:
		return c14n("index", "", pos, cv.expr(e.X), cv.expr(e.Y))
	case *syntax.SliceExpr:
		mask := ""
		c := []*c14Node{cv.expr(e.X)}
		if e.Lo != nil {
			mask += "l"
			c = append(c, cv.expr(e.Lo))
		}
		if e.Hi != nil {
			mask += "h"
			c = append(c, cv.expr(e.Hi))
		}
		if e.Step != nil {
			mask += "s"
			c = append(c, cv.expr(e.Step))
		}
		return c14n("slice", mask, pos, c...)
	case *syntax.DotExpr:
		return c14n("dot", e.Name.Name, pos, cv.expr(e.X))
	case *syntax.ListExpr:
		return c14n("list", "", pos, cv.exprs(e.List)...)
	case *syntax.TupleExpr:
		return c14n("tuple", "", pos, cv.exprs(e.List)...)
	case *syntax.DictExpr:
		return c14n("dict", "", pos, cv.exprs(e.List)...)
	case *syntax.DictEntry:
		return c14n("entry", "", pos, cv.expr(e.Key), cv.expr(e.Value))
	case *syntax.Comprehension:
		a := "["
		if e.Curly {
			a = "{"
		}
		c := []*c14Node{cv.expr(e.Body)}
		for _, cl := range e.Clauses {
			switch cl := cl.(type) {
			case *syntax.ForClause:
				c = append(c, c14n("forc", "", syntax.Start(cl), cv.expr(cl.Vars), cv.expr(cl.X)))
			case *syntax.IfClause:
				c = append(c, c14n("ifc", "", syntax.Start(cl), cv.expr(cl.Cond)))
			default:
				c = append(c, c14n(fmt.Sprintf("?%T", cl), "", syntax.Start(cl)))
			}
		}
		return c14n("comp", a, pos, c...)
	}
	return c14n(fmt.Sprintf("?%T", e), "", pos)
}

func (cv *c14Conv) arg(a syntax.Expr) *c14Node {
	pos := syntax.Start(a)
	switch a := a.(type) {
	case *syntax.BinaryExpr:
		if a.Op == syntax.EQ {
			name := "?"
			if id, ok := a.X.(*syntax.Ident); ok {
				name = id.Name
			}
			return c14n("named", name, pos, cv.expr(a.Y))
		}
	case *syntax.UnaryExpr:
		if a.Op == syntax.STAR && a.X != nil {
			return c14n("star", "", pos, cv.expr(a.X))
		}
		if a.Op == syntax.STARSTAR && a.X != nil {
			return c14n("kw", "", pos, cv.expr(a.X))
		}
	}
	return cv.expr(a)
}

func (cv *c14Conv) params(ps []syntax.Expr) []*c14Node {
	out := []*c14Node{}
	for _, p := range ps {
		pos := syntax.Start(p)
		switch p := p.(type) {
		case *syntax.Ident:
			out = append(out, c14n("p", p.Name, pos))
			continue
		case *syntax.BinaryExpr:
			if id, ok := p.X.(*syntax.Ident); ok && p.Op == syntax.EQ {
				out = append(out, c14n("pdef", id.Name, pos, cv.expr(p.Y)))
				continue
			}
		case *syntax.UnaryExpr:
			if p.Op == syntax.STAR && p.X == nil {
				out = append(out, c14n("pstar0", "", pos))
				continue
			}
			if id, ok := p.X.(*syntax.Ident); ok {
				if p.Op == syntax.STAR {
					out = append(out, c14n("pstar", id.Name, pos))
					continue
				}
				if p.Op == syntax.STARSTAR {
					out = append(out, c14n("pkw", id.Name, pos))
					continue
				}
			}
		}
		out = append(out, c14n(fmt.Sprintf("?param %T", p), "", pos))
	}
	return out
}

func (cv *c14Conv) block(ss []syntax.Stmt) *c14Node {
	return c14n("block", "", syntax.Position{}, cv.stmts(ss)...)
}

func (cv *c14Conv) stmts(ss []syntax.Stmt) []*c14Node {
	out := make([]*c14Node, 0, len(ss))
	for _, s := range ss {
		out = append(out, cv.stmt(s))
	}
	return out
}

func (cv *c14Conv) stmt(s syntax.Stmt) *c14Node {
	pos := syntax.Start(s)
	switch s := s.(type) {
	case *syntax.ExprStmt:
		return c14n("exprstmt", "", pos, cv.expr(s.X))
	case *syntax.AssignStmt:
		return c14n("assign", s.Op.String(), pos, cv.expr(s.LHS), cv.expr(s.RHS))
	case *syntax.ReturnStmt:
		if s.Result == nil {
			return c14n("return", "", pos)
		}
		return c14n("return", "", pos, cv.expr(s.Result))
	case *syntax.BranchStmt:
		return c14n("branch", s.Token.String(), pos)
	case *syntax.LoadStmt:
		c := []*c14Node{cv.expr(s.Module)}
		for i := range s.To {
			from := c14n("item", s.From[i].Name, syntax.Position{})
			if s.To[i] == s.From[i] {
				c = append(c, from)
			} else {
				c = append(c, c14n("alias", s.To[i].Name, syntax.Position{}, from))
			}
		}
		return c14n("load", "", pos, c...)
	case *syntax.DefStmt:
		c := cv.params(s.Params)
		c = append(c, cv.block(s.Body))
		return c14n("def", s.Name.Name, pos, c...)
	case *syntax.IfStmt:
		c := []*c14Node{cv.expr(s.Cond), cv.block(s.True)}
		if s.False != nil {
			c = append(c, cv.block(s.False))
		}
		return c14n("if", "", pos, c...)
	case *syntax.ForStmt:
		return c14n("for", "", pos, cv.expr(s.Vars), cv.expr(s.X), cv.block(s.Body))
	case *syntax.WhileStmt:
		return c14n("while", "", pos, cv.expr(s.Cond), cv.block(s.Body))
	}
	return c14n(fmt.Sprintf("?%T", s), "", pos)
}

func (cv *c14Conv) file(f *syntax.File) *c14Node {
	return c14n("file", "", syntax.Position{}, cv.stmts(f.Stmts)...)
}

// ---------------------------------------------------------------- layout

type c14Pos struct{ Line, Col int32 }

var c14Punct = []string{"+", "-", "*", "/", "//", "%", "=", "+=", "-=", "*=", "/=", "//=", "%=", "==", "!=",
	"^", "<", ">", "<<", ">>", "&", "|", "^=", "<=", ">=", "<<=", ">>=", "&=", "|=",
	".", ",", ";", ":", "~", "**", "(", ")", "[", "]", "{", "}"}

func c14Wordy(c byte) bool {
	return c == '_' || c >= '0' && c <= '9' || c >= 'a' && c <= 'z' || c >= 'A' && c <= 'Z' || c >= 0x80
}

func c14IsNumber(t string) bool {
	return t != "" && (t[0] >= '0' && t[0] <= '9' || t[0] == '.' && len(t) > 1 && t[1] >= '0' && t[1] <= '9')
}

// c14NeedSpace reports whether writing b directly after a would change the token
// sequence under the longest-match rule of the language definition.
func c14NeedSpace(a, b string) bool {
	if a == "" || b == "" {
		return false
	}
	la, fb := a[len(a)-1], b[0]
	aw := c14Wordy(la) || (c14IsNumber(a) && la == '.')
	if aw && (c14Wordy(fb) || fb == '"' || fb == '\'' || fb == '.') {
		return true
	}
	if la == '.' && fb >= '0' && fb <= '9' {
		return true
	}
	// two punctuation tokens that would fuse into a longer one (or into "!=" etc.)
	ab := a + b
	for _, p := range c14Punct {
		if len(p) > len(a) && strings.HasPrefix(ab, p) && strings.HasPrefix(p, a) {
			return true
		}
	}
	// "//" followed by "=" etc. is covered above; a '.' directly before a digit too
	return false
}

type c14Style struct {
	optParen, optComma, optColon float64 // probability of writing an optional item
	semi                         float64 // ';' instead of a line break between simple statements
	semiEnd                      float64 // ';' before the line break
	inline                       float64 // suite on the header's line
	noSpace                      float64 // no space where none is needed
	wide                         float64 // more than one blank
	brk                          float64 // line break between two tokens (inside brackets / by backslash)
	comment                      float64 // comment at the end of a line / comment lines
	blank                        float64 // blank lines
	crlf                         bool
	tabs                         bool // indent by tabs
	finalNL                      bool
	uni                          bool // text string literals carry non-ASCII characters (columns count code points)
}

// c14Uni respells a text string literal token with characters of 2, 3 and 4 UTF-8 bytes (other tokens unchanged)
func c14Uni(t string) string {
	if len(t) < 2 {
		return t
	}
	q := t[len(t)-1]
	if (q != '\'' && q != '"') || strings.HasPrefix(t, "b") || strings.HasPrefix(t, "rb") {
		return t
	}
	n := 1
	if strings.HasSuffix(t, "\"\"\"") || strings.HasSuffix(t, "'''") {
		n = 3
	}
	if len(t) < 2*n {
		return t
	}
	return t[:len(t)-n] + "\u00e9\u65e5\U0001F600" + t[len(t)-n:]
}

var c14Keywords = map[string]bool{"and": true, "break": true, "continue": true, "def": true, "elif": true, "else": true, "for": true,
	"if": true, "in": true, "lambda": true, "load": true, "not": true, "or": true, "pass": true, "return": true, "while": true,
	"as": true, "assert": true, "class": true, "del": true, "except": true, "finally": true, "from": true, "global": true, "import": true,
	"is": true, "nonlocal": true, "raise": true, "try": true, "with": true, "yield": true, "None": true, "True": true, "False": true}

// c14UniIdent respells an identifier with a non-ASCII letter appended (identifiers may contain Unicode letters)
func c14UniIdent(t string) string {
	if t == "" || c14Keywords[t] || !(t[0] == '_' || (t[0] >= 'a' && t[0] <= 'z') || (t[0] >= 'A' && t[0] <= 'Z')) {
		return t
	}
	for i := 0; i < len(t); i++ {
		c := t[i]
		if !(c == '_' || (c >= 'a' && c <= 'z') || (c >= 'A' && c <= 'Z') || (c >= '0' && c <= '9')) {
			return t
		}
	}
	return t + "\u00e9\u03b2"
}

func c14UniTree(n *c14Node) {
	switch n.K {
	case "str":
		n.A = c14Uni(n.A)
	case "id", "dot", "def", "p", "pdef", "pkw", "pstar", "named": // the kinds whose attribute is a name
		n.A = c14UniIdent(n.A)
	}
	for _, c := range n.C {
		c14UniTree(c)
	}
}

func c14MakeStyle(rnd *rand.Rand, lay int) c14Style {
	switch lay {
	case 0: // canonical: minimal parentheses, single blanks
		return c14Style{finalNL: true}
	case 1: // every optional item, no blanks where possible
		return c14Style{optParen: 1, optComma: 1, optColon: 1, semi: 1, semiEnd: 1, inline: 1, noSpace: 1, finalNL: false}
	}
	pick := func(v ...float64) float64 { return v[rnd.Intn(len(v))] }
	return c14Style{
		optParen: pick(0, 0.15, 0.5), optComma: pick(0, 0.5, 1), optColon: pick(0, 0.5),
		semi: pick(0, 0.5, 1), semiEnd: pick(0, 0.3), inline: pick(0, 0.5, 1),
		noSpace: pick(0, 0.5, 1), wide: pick(0, 0.3), brk: pick(0, 0.1, 0.3),
		comment: pick(0, 0.2, 0.5), blank: pick(0, 0.3),
		crlf: rnd.Intn(4) == 0, tabs: rnd.Intn(4) == 0, finalNL: rnd.Intn(3) != 0,
		uni: rnd.Intn(3) == 0,
	}
}

type c14Layout struct {
	rnd      *rand.Rand
	st       c14Style
	sb       strings.Builder
	line     int32
	col      int32
	depth    int
	prev     string
	atStart  bool     // at the start of a logical line
	indents  []string // indentation strings of the open blocks
	suites   []bool   // for each open suite: written inline?
	parens   []bool   // decisions for the open optional parentheses
	pending  int      // markers waiting for the next token
	marks    []c14Pos
	fileMode bool
}

func (l *c14Layout) p(x float64) bool { return x > 0 && l.rnd.Float64() < x }

func (l *c14Layout) write(s string) {
	l.sb.WriteString(s)
	for _, r := range s {
		if r == '\n' {
			l.line++
			l.col = 1
		} else if r == '\r' {
			// part of a CRLF line ending (only ever written by newline())
		} else {
			l.col++
		}
	}
}

func (l *c14Layout) newline() {
	if l.st.crlf {
		l.write("\r\n")
	} else {
		l.write("\n")
	}
}

var c14Comments = []string{"# c", "#", "# if x: (", "#\ty = \"", "# ''' ]"}

func (l *c14Layout) endOfLineExtras() {
	if l.p(l.st.wide) {
		l.write(strings.Repeat(" ", 1+l.rnd.Intn(2)))
	}
	if l.p(l.st.comment) {
		if l.sb.Len() > 0 {
			l.write(" ")
		}
		l.write(c14Comments[l.rnd.Intn(len(c14Comments))])
	}
}

// blank and comment-only lines (their indentation is insignificant)
func (l *c14Layout) fillerLines() {
	for i := 0; i < 3; i++ {
		if l.p(l.st.blank) {
			l.write(strings.Repeat(" ", l.rnd.Intn(3)))
			l.newline()
		} else if l.p(l.st.comment) {
			l.write(strings.Repeat(" ", l.rnd.Intn(6)))
			l.write(c14Comments[l.rnd.Intn(len(c14Comments))])
			l.newline()
		} else {
			return
		}
	}
}

func (l *c14Layout) curIndent() string {
	if len(l.indents) == 0 {
		return ""
	}
	return l.indents[len(l.indents)-1]
}

func (l *c14Layout) tok(t string) {
	if l.atStart {
		if l.fileMode {
			l.fillerLines()
		}
		l.write(l.curIndent())
		l.atStart = false
	} else if l.prev != "" {
		need := c14NeedSpace(l.prev, t)
		switch {
		case l.p(l.st.brk) && l.depth > 0:
			// inside brackets a line break is white space; comment-only and blank lines may follow
			l.endOfLineExtras()
			l.newline()
			for i := 0; i < 2 && l.p(l.st.comment); i++ {
				l.write(strings.Repeat(" ", l.rnd.Intn(4)) + "# in brackets")
				l.newline()
			}
			if l.p(l.st.blank) {
				l.newline()
			}
			l.write(strings.Repeat(" ", l.rnd.Intn(9)))
		case l.p(l.st.brk):
			// outside brackets: backslash continuation
			if l.p(0.5) || need {
				l.write(" ")
			}
			l.write("\\")
			l.newline()
			l.write(strings.Repeat(" ", l.rnd.Intn(9)))
		case need:
			l.write(l.blanks())
		case l.p(l.st.noSpace):
		default:
			l.write(l.blanks())
		}
	}
	for ; l.pending > 0; l.pending-- {
		l.marks = append(l.marks, c14Pos{l.line, l.col})
	}
	l.write(t)
	l.prev = t
	switch t {
	case "(", "[", "{":
		l.depth++
	case ")", "]", "}":
		l.depth--
	}
}

func (l *c14Layout) blanks() string {
	if l.p(l.st.wide) {
		if l.rnd.Intn(3) == 0 {
			return "\t"
		}
		return strings.Repeat(" ", 2+l.rnd.Intn(2))
	}
	return " "
}

func (l *c14Layout) endLine() {
	l.endOfLineExtras()
	l.newline()
	l.atStart = true
	l.prev = ""
}

func (l *c14Layout) inInline() bool { return len(l.suites) > 0 && l.suites[len(l.suites)-1] }

func (l *c14Layout) run(toks []string) error {
	l.line, l.col = 1, 1
	l.atStart = true
	last := ""
	for i, t := range toks {
		last = t
		if !strings.HasPrefix(t, "@") {
			if l.st.uni {
				t = c14UniIdent(c14Uni(t))
			}
			l.tok(t)
			continue
		}
		switch t {
		case "@n":
			l.pending++
		case "@(!":
			l.tok("(")
		case "@)!":
			l.tok(")")
		case "@(":
			w := l.p(l.st.optParen)
			l.parens = append(l.parens, w)
			if w {
				l.tok("(")
			}
		case "@)":
			if len(l.parens) == 0 {
				return errors.New("unbalanced @)")
			}
			w := l.parens[len(l.parens)-1]
			l.parens = l.parens[:len(l.parens)-1]
			if w {
				l.tok(")")
			}
		case "@,":
			if l.p(l.st.optComma) {
				l.tok(",")
			}
		case "@:":
			if l.p(l.st.optColon) {
				l.tok(":")
			}
		case "@nl":
			if l.p(l.st.semiEnd) {
				l.tok(";")
			}
			if i == len(toks)-1 || c14OnlyCloses(toks[i+1:]) {
				// last line of the file: the line break is optional
				if !l.st.finalNL {
					l.endOfLineExtras()
					l.atStart = false
					l.prev = ""
					continue
				}
			}
			l.endLine()
		case "@sep":
			if l.inInline() || l.p(l.st.semi) {
				l.tok(";")
			} else {
				if l.p(l.st.semiEnd) {
					l.tok(";")
				}
				l.endLine()
			}
		case "@ind", "@ind?":
			inline := t == "@ind?" && l.p(l.st.inline)
			l.suites = append(l.suites, inline)
			if !inline {
				l.endLine()
				ind := l.curIndent()
				if l.st.tabs {
					ind += "\t"
				} else {
					ind += strings.Repeat(" ", 1+l.rnd.Intn(5))
				}
				l.indents = append(l.indents, ind)
			}
		case "@out", "@out?":
			if len(l.suites) == 0 {
				return errors.New("unbalanced @out")
			}
			inline := l.suites[len(l.suites)-1]
			l.suites = l.suites[:len(l.suites)-1]
			if !inline {
				l.indents = l.indents[:len(l.indents)-1]
			}
		default:
			return fmt.Errorf("unknown pseudo token %q", t)
		}
	}
	if l.pending != 0 {
		return errors.New("marker without a following token")
	}
	if !l.fileMode {
		// an expression: optional trailing blanks, comment and line break
		if l.st.finalNL {
			l.endOfLineExtras()
			l.newline()
		}
	} else if last != "" && l.atStart {
		// trailing blank / comment lines
		l.fillerLines()
	}
	return nil
}

// only suite-closing pseudo tokens follow
func c14OnlyCloses(rest []string) bool {
	for _, t := range rest {
		if t != "@out" && t != "@out?" {
			return false
		}
	}
	return true
}

// ---------------------------------------------------------------- comparison

// assign the marker positions to the nodes of the expected tree in preorder
func c14Assign(n *c14Node, marks []c14Pos, k *int) error {
	if !c14NoPos[n.K] {
		if *k >= len(marks) {
			return errors.New("fewer markers than nodes")
		}
		n.Line, n.Col = marks[*k].Line, marks[*k].Col
		*k++
	}
	for _, c := range n.C {
		if err := c14Assign(c, marks, k); err != nil {
			return err
		}
	}
	return nil
}

func c14Diff(path string, exp, got *c14Node) string {
	if exp.K != got.K {
		return fmt.Sprintf("%s: kind %s, parser has %s", path, exp.K, got.K)
	}
	if exp.A != got.A && exp.K != "if" {
		return fmt.Sprintf("%s: %s attribute %q, parser has %q", path, exp.K, exp.A, got.A)
	}
	if len(exp.C) != len(got.C) {
		return fmt.Sprintf("%s: %s has %d children, parser has %d", path, exp.K, len(exp.C), len(got.C))
	}
	if !c14NoPos[exp.K] && (exp.Line != got.Line || exp.Col != got.Col) {
		return fmt.Sprintf("%s: %s starts at %d:%d, parser reports %d:%d", path, exp.K, exp.Line, exp.Col, got.Line, got.Col)
	}
	for i := range exp.C {
		if d := c14Diff(fmt.Sprintf("%s/%s.%d", path, exp.K, i+1), exp.C[i], got.C[i]); d != "" {
			return d
		}
	}
	return ""
}

func c14Class(d string) string {
	// stable class of a difference for signatures: drop the path and the numbers
	if i := strings.Index(d, ": "); i >= 0 {
		d = d[i+2:]
	}
	out := []byte{}
	for i := 0; i < len(d); i++ {
		if d[i] >= '0' && d[i] <= '9' {
			if len(out) == 0 || out[len(out)-1] != '#' {
				out = append(out, '#')
			}
			continue
		}
		out = append(out, d[i])
	}
	return string(out)
}

type c14TreeRec struct {
	ID   int             `json:"id"`
	Tree json.RawMessage `json:"tree"`
	Toks []string        `json:"toks"`
	Lay  *int            `json:"lay"`  // replay: one layout only
	Seed *int64          `json:"seed"` // replay: the seed it was found with
}

type c14LitObs struct {
	Kind string `json:"kind"`
	Lit  []int  `json:"lit"`
	Res  obj    `json:"res"`
}

func c14LitValue(l *syntax.Literal) obj {
	switch v := l.Value.(type) {
	case int64:
		return obj{"ok": true, "kind": "int", "v": encBig(big.NewInt(v))}
	case *big.Int:
		return obj{"ok": true, "kind": "int", "v": encBig(v)}
	case float64:
		return obj{"ok": true, "kind": "float", "v": encFloat(v)}
	case string:
		k := "string"
		if l.Token == syntax.BYTES {
			k = "bytes"
		}
		return obj{"ok": true, "kind": k, "v": byteArr(v)}
	}
	return obj{"ok": true, "kind": fmt.Sprintf("?%T", l.Value), "v": []int{}}
}

func c14Parse(mode, text string) (*c14Node, []*syntax.Literal, error) {
	cv := &c14Conv{}
	opts := &syntax.FileOptions{}
	if mode == "expr" {
		e, err := opts.ParseExpr("t.star", text, 0)
		if err != nil {
			return nil, nil, err
		}
		return cv.expr(e), cv.lits, nil
	}
	f, err := opts.Parse("t.star", text, 0)
	if err != nil {
		return nil, nil, err
	}
	return cv.file(f), cv.lits, nil
}

func c14Trees(args []string) error {
	fs := flag.NewFlagSet("c14-trees", flag.ExitOnError)
	in := fs.String("in", "-", "")
	out := fs.String("out", "-", "")
	mode := fs.String("mode", "expr", "")
	layouts := fs.Int("layouts", 3, "")
	litsOut := fs.String("lits", "", "file for the literals seen (kind, text, value)")
	fs.Parse(args)
	r, err := openIn(*in)
	if err != nil {
		return err
	}
	defer r.Close()
	w, err := openOut(*out)
	if err != nil {
		return err
	}
	defer w.Close()
	nd := newNDWriter(w)
	defer nd.flush()
	base := seed()
	nTexts, nOK, nNodes := 0, 0, 0
	distinct := map[string]bool{}
	lits := map[string]obj{}
	samples := []obj{}
	err = readCases(r, func(raw json.RawMessage) error {
		var rec c14TreeRec
		if err := json.Unmarshal(raw, &rec); err != nil {
			return err
		}
		lo, hi := 0, *layouts
		if rec.Lay != nil {
			lo, hi = *rec.Lay, *rec.Lay+1
		}
		sd := base
		if rec.Seed != nil {
			sd = *rec.Seed
		}
		for lay := lo; lay < hi; lay++ {
			rnd := rand.New(rand.NewSource(sd*1000003 + int64(rec.ID)*31 + int64(lay)))
			l := &c14Layout{rnd: rnd, fileMode: *mode == "file"}
			l.st = c14MakeStyle(rnd, lay)
			for _, t := range rec.Toks {
				if t == "load" { // the names of a load statement are string literals that the tree holds decoded
					l.st.uni = false
				}
			}
			if err := l.run(rec.Toks); err != nil {
				return fmt.Errorf("record %d: %v", rec.ID, err)
			}
			text := l.sb.String()
			var exp c14Node
			if err := json.Unmarshal(rec.Tree, &exp); err != nil {
				return err
			}
			if l.st.uni {
				c14UniTree(&exp)
			}
			k := 0
			if err := c14Assign(&exp, l.marks, &k); err != nil || k != len(l.marks) {
				return fmt.Errorf("record %d: %d markers for the tree (%v)", rec.ID, len(l.marks), err)
			}
			nTexts++
			nNodes += k
			distinct[text] = true
			got, ls, perr := c14Parse(*mode, text)
			diff := ""
			if perr != nil {
				diff = "rejected: " + perr.Error()
			} else {
				diff = c14Diff("", &exp, got)
				for _, lt := range ls {
					key := lt.Token.String() + " " + lt.Raw
					if _, ok := lits[key]; !ok {
						lits[key] = obj{"lit": byteArr(lt.Raw), "res": c14LitValue(lt), "src": "tree"}
					}
				}
			}
			if diff == "" {
				nOK++
				if len(samples) < 6 && lay >= 2 && len(text) > 20 && rec.ID%97 == 0 {
					samples = append(samples, obj{"text": text, "nodes": k})
				}
				continue
			}
			cls := c14Class(diff)
			if perr != nil {
				cls = "rejected"
			}
			nd.write(obj{"id": rec.ID, "lay": lay, "seed": sd, "text": text, "diff": diff, "class": cls})
		}
		return nil
	})
	if err != nil {
		return err
	}
	nd.write(obj{"summary": true, "texts": nTexts, "ok": nOK, "distinct": len(distinct), "nodes": nNodes, "samples": samples})
	if *litsOut != "" {
		f, err := os.Create(*litsOut)
		if err != nil {
			return err
		}
		lw := newNDWriter(f)
		for _, v := range lits {
			lw.write(v)
		}
		lw.flush()
		f.Close()
	}
	return nil
}

// ---------------------------------------------------------------- literals

func c14Lits(args []string) error {
	fs := flag.NewFlagSet("c14-lits", flag.ExitOnError)
	in := fs.String("in", "-", "")
	out := fs.String("out", "-", "")
	fs.Parse(args)
	r, err := openIn(*in)
	if err != nil {
		return err
	}
	defer r.Close()
	w, err := openOut(*out)
	if err != nil {
		return err
	}
	defer w.Close()
	nd := newNDWriter(w)
	defer nd.flush()
	opts := &syntax.FileOptions{}
	return readCases(r, func(raw json.RawMessage) error {
		var c struct {
			ID  int    `json:"id"`
			Lit []int  `json:"lit"`
			Cat string `json:"cat"`
			Pre string `json:"pre"` // other literals scanned before this one in the same text: "(" Pre Lit ",)"
		}
		if err := json.Unmarshal(raw, &c); err != nil {
			return err
		}
		b := make([]byte, len(c.Lit))
		for i, x := range c.Lit {
			b[i] = byte(x)
		}
		rec := obj{"id": c.ID, "lit": c.Lit, "cat": c.Cat}
		shift := 0
		if c.Pre != "" {
			b = []byte("(" + c.Pre + string(b) + ",)")
			shift = 1 + len(c.Pre)
		}
		e, err := opts.ParseExpr("lit.star", b, 0)
		if err == nil && c.Pre != "" {
			// the literal under test is the last element of the tuple
			if pe, ok := e.(*syntax.ParenExpr); ok {
				if te, ok := pe.X.(*syntax.TupleExpr); ok && len(te.List) > 0 {
					e = te.List[len(te.List)-1]
				}
			}
		}
		if err != nil {
			res := obj{"ok": false, "err": err.Error(), "pos": false}
			var se syntax.Error
			if errors.As(err, &se) {
				res["pos"] = se.Pos.IsValid() && se.Pos.Line >= 1 && se.Pos.Col >= 1
			}
			rec["res"] = res
		} else if lit, ok := e.(*syntax.Literal); ok {
			res := c14LitValue(lit)
			res["raw"] = byteArr(lit.Raw)
			p := lit.TokenPos
			res["start"] = []int{int(p.Line), int(p.Col) - shift}
			rec["res"] = res
		} else {
			rec["res"] = obj{"ok": false, "err": fmt.Sprintf("parsed as %T, not as one literal", e), "pos": true, "other": true}
		}
		nd.write(rec)
		return nil
	})
}

// ---------------------------------------------------------------- near misses

// canonical layout of a token list: one blank between tokens, 4 blanks per level
func c14Canonical(toks []string) string {
	var sb strings.Builder
	level := 0
	start := true
	for _, t := range toks {
		switch t {
		case "@nl", "@sep":
			sb.WriteString("\n")
			start = true
		case "@ind", "@ind?":
			sb.WriteString("\n")
			level++
			start = true
		case "@out", "@out?":
			level--
		default:
			if t == "@(!" {
				t = "("
			} else if t == "@)!" {
				t = ")"
			}
			if strings.HasPrefix(t, "@") {
				continue
			}
			if start {
				sb.WriteString(strings.Repeat("    ", level))
				start = false
			} else {
				sb.WriteString(" ")
			}
			sb.WriteString(t)
		}
	}
	return sb.String()
}

func c14PosOK(p syntax.Position, text string) bool {
	if !p.IsValid() || p.Line < 1 || p.Col < 1 {
		return false
	}
	lines := strings.Split(text, "\n")
	if int(p.Line) > len(lines)+1 {
		return false
	}
	if int(p.Line) <= len(lines) && int(p.Col) > utf8.RuneCountInString(lines[p.Line-1])+2 {
		return false
	}
	return true
}

func c14Near(args []string) error {
	fs := flag.NewFlagSet("c14-near", flag.ExitOnError)
	in := fs.String("in", "-", "")
	out := fs.String("out", "-", "")
	mode := fs.String("mode", "expr", "")
	fs.Parse(args)
	r, err := openIn(*in)
	if err != nil {
		return err
	}
	defer r.Close()
	w, err := openOut(*out)
	if err != nil {
		return err
	}
	defer w.Close()
	nd := newNDWriter(w)
	defer nd.flush()
	// every dialect option on, every name predeclared: the resolver then rejects a file only
	// for its static rules, not for the dialect or for unknown names
	opts := &syntax.FileOptions{Set: true, While: true, TopLevelControl: true, GlobalReassign: true, Recursion: true}
	yes := func(string) bool { return true }
	no := func(string) bool { return false }
	return readCases(r, func(raw json.RawMessage) error {
		var c struct {
			ID   int      `json:"id"`
			Toks []string `json:"toks"`
		}
		if err := json.Unmarshal(raw, &c); err != nil {
			return err
		}
		text := c14Canonical(c.Toks)
		if *mode == "file" {
			text += "\n"
		}
		res := obj{"id": c.ID, "text": text}
		var perr, rerr error
		if *mode == "expr" {
			var e syntax.Expr
			e, perr = opts.ParseExpr("n.star", text, 0)
			if perr == nil {
				_, rerr = resolve.ExprOptions(opts, e, yes, no)
			}
		} else {
			var f *syntax.File
			f, perr = opts.Parse("n.star", text, 0)
			if perr == nil {
				rerr = resolve.File(f, yes, no)
			}
		}
		res["parse_ok"] = perr == nil
		if perr != nil {
			var se syntax.Error
			res["parse_err"] = perr.Error()
			res["pos_ok"] = errors.As(perr, &se) && c14PosOK(se.Pos, text)
		} else {
			res["resolve_ok"] = rerr == nil
			if rerr != nil {
				msgs := []string{}
				posOK := true
				var el resolve.ErrorList
				if errors.As(rerr, &el) {
					for _, e := range el {
						msgs = append(msgs, e.Msg)
						if !c14PosOK(e.Pos, text) {
							posOK = false
						}
					}
				} else {
					msgs = append(msgs, rerr.Error())
					posOK = false
				}
				res["resolve_errs"] = msgs
				res["pos_ok"] = posOK
			}
		}
		nd.write(res)
		return nil
	})
}

// ---------------------------------------------------------------- conversion only

func c14ConvCmd(args []string) error {
	fs := flag.NewFlagSet("c14-conv", flag.ExitOnError)
	in := fs.String("in", "-", "")
	out := fs.String("out", "-", "")
	mode := fs.String("mode", "expr", "")
	fs.Parse(args)
	r, err := openIn(*in)
	if err != nil {
		return err
	}
	defer r.Close()
	w, err := openOut(*out)
	if err != nil {
		return err
	}
	defer w.Close()
	nd := newNDWriter(w)
	defer nd.flush()
	return readCases(r, func(raw json.RawMessage) error {
		var c struct {
			ID   int    `json:"id"`
			Text string `json:"text"`
		}
		if err := json.Unmarshal(raw, &c); err != nil {
			return err
		}
		got, _, perr := c14Parse(*mode, c.Text)
		if perr != nil {
			nd.write(obj{"id": c.ID, "ok": false, "err": perr.Error()})
		} else {
			nd.write(obj{"id": c.ID, "ok": true, "tree": got})
		}
		return nil
	})
}

func init() {
	register("c14-trees", c14Trees)
	register("c14-lits", c14Lits)
	register("c14-near", c14Near)
	register("c14-conv", c14ConvCmd)
}
