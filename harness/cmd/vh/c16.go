package main

// vh c16-run [-in f] [-out f]: run one generated program per case and record, for a failing
// execution, the frames of EvalError.CallStack (name, file, line, col), the text of
// EvalError.Backtrace(), and the same two observations after the program (and every module it
// loads) went through Program.Write / CompiledProgram (positions must survive serialization).
//
// case   {"id", "file": name of the main file, "src", "opts": option vector (omit = all on),
//         "mods": {"name.star": source, ...} modules that load() can resolve}
// result {"id", "ok", "static", "err", "panic", "stack": [{name,file,line,col}], "bt": text,
//         "ser": {"ok", "static", "err", "panic", "stack", "bt"}}

import (
	"bytes"
	"encoding/json"
	"flag"
	"fmt"

	"go.starlark.net/starlark"
	"go.starlark.net/syntax"
)

type c16Case struct {
	ID    int               `json:"id"`
	File  string            `json:"file"`
	Src   string            `json:"src"`
	Opts  *optVec           `json:"opts"`
	Mods  map[string]string `json:"mods"`
	Steps uint64            `json:"steps"`
}

type c16Obs struct {
	OK     bool    `json:"ok"`
	Static bool    `json:"static,omitempty"`
	Err    string  `json:"err,omitempty"`
	Panic  string  `json:"panic,omitempty"`
	Stack  []frame `json:"stack"`
	Bt     string  `json:"bt,omitempty"`
}

type c16Result struct {
	ID int `json:"id"`
	c16Obs
	Ser     c16Obs `json:"ser"`
	PosScan string `json:"posscan,omitempty"` // non-empty: Funcode.Position depends on the lookups made before
}

// c16PosScan queries the position of every instruction offset of every function of the compiled main file in ascending,
// descending and strided order on ONE program, and in descending order on a freshly compiled one: a position is a
// function of the table and the offset alone (spec/LineTab.tla: the last row whose pc is <= the offset).
func c16PosScan(c *c16Case, opts *syntax.FileOptions) (diff string) {
	defer func() {
		if r := recover(); r != nil {
			diff = fmt.Sprintf("panic during the position scan: %v", r)
		}
	}()
	h := &hostEnv{}
	pre := h.predeclared()
	compile := func() *starlark.Program {
		_, prog, err := starlark.SourceProgramOptions(opts, c.File, c.Src, pre.Has)
		if err != nil {
			return nil
		}
		return prog
	}
	p1, p2 := compile(), compile()
	if p1 == nil || p2 == nil {
		return ""
	}
	f1, f2 := starlark.VerifProgramFuncodes(p1), starlark.VerifProgramFuncodes(p2)
	for k, fn := range f1 {
		n := len(fn.Code)
		if n > 60000 {
			n = 60000
		}
		asc := make([]syntax.Position, n)
		for pc := 0; pc < n; pc++ {
			asc[pc] = fn.Position(uint32(pc))
		}
		check := func(what string, pc int, got syntax.Position) string {
			// (compare what a position denotes: two programs hold the file name in different string objects)
			if got.Line != asc[pc].Line || got.Col != asc[pc].Col || got.Filename() != asc[pc].Filename() {
				return fmt.Sprintf("function %s: Position(%d) = %d:%d in the ascending scan but %d:%d %s", fn.Name, pc, asc[pc].Line, asc[pc].Col, got.Line, got.Col, what)
			}
			return ""
		}
		for pc := n - 1; pc >= 0; pc-- {
			if d := check("in the descending scan of the same program", pc, fn.Position(uint32(pc))); d != "" {
				return d
			}
		}
		for _, stride := range []int{7, 3} {
			for pc := 0; pc < n; pc += stride {
				if d := check(fmt.Sprintf("in the scan with stride %d", stride), pc, fn.Position(uint32(pc))); d != "" {
					return d
				}
				if pc > 0 {
					if d := check("right after a later offset", pc-1, fn.Position(uint32(pc-1))); d != "" {
						return d
					}
				}
			}
		}
		g := f2[k]
		for pc := n - 1; pc >= 0; pc-- {
			if d := check("in the first-touch descending scan of a freshly compiled program", pc, g.Position(uint32(pc))); d != "" {
				return d
			}
		}
	}
	return ""
}

type c16Exec func(th *starlark.Thread, file, src string, pre starlark.StringDict) (starlark.StringDict, error)

func c16Direct(opts *syntax.FileOptions) c16Exec {
	return func(th *starlark.Thread, file, src string, pre starlark.StringDict) (starlark.StringDict, error) {
		return starlark.ExecFileOptions(opts, th, file, src, pre)
	}
}

func c16Serialized(opts *syntax.FileOptions) c16Exec {
	return func(th *starlark.Thread, file, src string, pre starlark.StringDict) (starlark.StringDict, error) {
		_, prog, err := starlark.SourceProgramOptions(opts, file, src, pre.Has)
		if err != nil {
			return nil, err
		}
		var buf bytes.Buffer
		if err := prog.Write(&buf); err != nil {
			return nil, fmt.Errorf("Program.Write: %v", err)
		}
		prog2, err := starlark.CompiledProgram(&buf)
		if err != nil {
			return nil, fmt.Errorf("CompiledProgram: %v", err)
		}
		return prog2.Init(th, pre)
	}
}

func c16Observe(c *c16Case, exec c16Exec) (obs c16Obs) {
	obs.Stack = []frame{}
	defer func() {
		if r := recover(); r != nil {
			obs.OK = false
			obs.Panic = fmt.Sprint(r)
		}
	}()
	h := &hostEnv{}
	pre := h.predeclared()
	th := h.thread(c.Steps)
	type entry struct {
		g   starlark.StringDict
		err error
	}
	cache := map[string]*entry{}
	th.Load = func(parent *starlark.Thread, module string) (starlark.StringDict, error) {
		if e, ok := cache[module]; ok {
			if e == nil {
				return nil, fmt.Errorf("cycle in load graph")
			}
			return e.g, e.err
		}
		src, ok := c.Mods[module]
		if !ok {
			return nil, fmt.Errorf("no such module %s", module)
		}
		cache[module] = nil
		child := h.thread(c.Steps)
		child.Load = parent.Load
		g, err := exec(child, module, src, pre)
		g.Freeze() // as every loader must: a module's globals are frozen once it is initialised
		cache[module] = &entry{g, err}
		return g, err
	}
	_, err := exec(th, c.File, c.Src, pre)
	if err == nil {
		obs.OK = true
		return
	}
	obs.Err = err.Error()
	if e, ok := err.(*starlark.EvalError); ok {
		for _, fr := range e.CallStack {
			obs.Stack = append(obs.Stack, frame{fr.Name, fr.Pos.Filename(), int(fr.Pos.Line), int(fr.Pos.Col)})
		}
		obs.Err = e.Msg
		obs.Bt = e.Backtrace()
	} else {
		obs.Static = true
		if len(obs.Err) > 300 {
			obs.Err = obs.Err[:300]
		}
	}
	return
}

func init() {
	register("c16-run", func(args []string) error {
		fs := flag.NewFlagSet("c16-run", flag.ExitOnError)
		in := fs.String("in", "-", "cases ndjson")
		out := fs.String("out", "-", "results ndjson")
		fs.Parse(args)
		r, err := openIn(*in)
		if err != nil {
			return err
		}
		defer r.Close()
		w, err := openOut(*out)
		if err != nil {
			return err
		}
		defer w.Close()
		nw := newNDWriter(w)
		defer nw.flush()
		return readCases(r, func(raw json.RawMessage) error {
			var c c16Case
			if err := json.Unmarshal(raw, &c); err != nil {
				return fmt.Errorf("bad case: %v", err)
			}
			if c.File == "" {
				c.File = "case.star"
			}
			opts := c.Opts.fileOptions()
			res := c16Result{ID: c.ID}
			res.c16Obs = c16Observe(&c, c16Direct(opts))
			res.Ser = c16Observe(&c, c16Serialized(opts))
			if c.ID%4 == 0 {
				res.PosScan = c16PosScan(&c, opts)
			}
			nw.write(res)
			return nil
		})
	})
}
