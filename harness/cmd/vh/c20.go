package main

// C20 (lib/proto): test schema built without protoc (descriptorpb + protodesc),
// the Starlark environment shared by all c20-* subcommands, the value encoding
// for TLC, and the generic step runner `c20-exec` used for the range records
// (code -> spec, P-A).
//
// Every statement is executed by the real pipeline (parse, resolve, compile,
// interpret) as a REPL chunk over a persistent global environment, with a
// recover() around it: a Go panic inside lib/proto is recorded, never fatal.

import (
	"encoding/json"
	"flag"
	"fmt"
	"math/big"
	"runtime"
	"sort"
	"strings"
	"sync"

	starlarkproto "go.starlark.net/lib/proto"
	"go.starlark.net/starlark"
	"go.starlark.net/syntax"
	"google.golang.org/protobuf/proto"
	"google.golang.org/protobuf/reflect/protodesc"
	"google.golang.org/protobuf/reflect/protoreflect"
	"google.golang.org/protobuf/reflect/protoregistry"
	"google.golang.org/protobuf/types/descriptorpb"
)

// ---------------------------------------------------------------- schema

var c20Kinds = []struct {
	name string
	typ  descriptorpb.FieldDescriptorProto_Type
	key  bool // allowed as a map key
}{
	{"int32", descriptorpb.FieldDescriptorProto_TYPE_INT32, true},
	{"int64", descriptorpb.FieldDescriptorProto_TYPE_INT64, true},
	{"uint32", descriptorpb.FieldDescriptorProto_TYPE_UINT32, true},
	{"uint64", descriptorpb.FieldDescriptorProto_TYPE_UINT64, true},
	{"sint32", descriptorpb.FieldDescriptorProto_TYPE_SINT32, true},
	{"sint64", descriptorpb.FieldDescriptorProto_TYPE_SINT64, true},
	{"fixed32", descriptorpb.FieldDescriptorProto_TYPE_FIXED32, true},
	{"fixed64", descriptorpb.FieldDescriptorProto_TYPE_FIXED64, true},
	{"sfixed32", descriptorpb.FieldDescriptorProto_TYPE_SFIXED32, true},
	{"sfixed64", descriptorpb.FieldDescriptorProto_TYPE_SFIXED64, true},
	{"bool", descriptorpb.FieldDescriptorProto_TYPE_BOOL, true},
	{"string", descriptorpb.FieldDescriptorProto_TYPE_STRING, true},
	{"float", descriptorpb.FieldDescriptorProto_TYPE_FLOAT, false},
	{"double", descriptorpb.FieldDescriptorProto_TYPE_DOUBLE, false},
	{"bytes", descriptorpb.FieldDescriptorProto_TYPE_BYTES, false},
	{"enum", descriptorpb.FieldDescriptorProto_TYPE_ENUM, false},
	{"msg", descriptorpb.FieldDescriptorProto_TYPE_MESSAGE, false},
}

func c20Field(name string, num int32, typ descriptorpb.FieldDescriptorProto_Type, label descriptorpb.FieldDescriptorProto_Label, typeName string) *descriptorpb.FieldDescriptorProto {
	f := &descriptorpb.FieldDescriptorProto{
		Name:     proto.String(name),
		JsonName: proto.String(name),
		Number:   proto.Int32(num),
		Type:     typ.Enum(),
		Label:    label.Enum(),
	}
	if typeName != "" {
		f.TypeName = proto.String(typeName)
	}
	return f
}

func c20EntryName(field string) string {
	// protoc's rule: CamelCase(field) + "Entry"
	out := ""
	up := true
	for _, r := range field {
		if r == '_' {
			up = true
			continue
		}
		if up && r >= 'a' && r <= 'z' {
			r = r - 'a' + 'A'
		}
		up = false
		out += string(r)
	}
	return out + "Entry"
}

// c20MapField adds a map<kt, vt> field (a repeated nested MapEntry message) to msg.
func c20MapField(msg *descriptorpb.DescriptorProto, pkgMsg, name string, num int32,
	kt descriptorpb.FieldDescriptorProto_Type, vt descriptorpb.FieldDescriptorProto_Type, vTypeName string) {
	opt := descriptorpb.FieldDescriptorProto_LABEL_OPTIONAL
	en := c20EntryName(name)
	entry := &descriptorpb.DescriptorProto{
		Name: proto.String(en),
		Field: []*descriptorpb.FieldDescriptorProto{
			c20Field("key", 1, kt, opt, ""),
			c20Field("value", 2, vt, opt, vTypeName),
		},
		Options: &descriptorpb.MessageOptions{MapEntry: proto.Bool(true)},
	}
	msg.NestedType = append(msg.NestedType, entry)
	msg.Field = append(msg.Field, c20Field(name, num, descriptorpb.FieldDescriptorProto_TYPE_MESSAGE,
		descriptorpb.FieldDescriptorProto_LABEL_REPEATED, pkgMsg+"."+en))
}

// c20File builds one file: enums E, F, message T (history model) and message K (all kinds).
func c20File(path, pkg, syntaxName string) *descriptorpb.FileDescriptorProto {
	opt := descriptorpb.FieldDescriptorProto_LABEL_OPTIONAL
	rep := descriptorpb.FieldDescriptorProto_LABEL_REPEATED
	fd := &descriptorpb.FileDescriptorProto{
		Name:    proto.String(path),
		Package: proto.String(pkg),
	}
	if syntaxName != "proto2" {
		fd.Syntax = proto.String(syntaxName)
	}
	ev := func(n string, v int32) *descriptorpb.EnumValueDescriptorProto {
		return &descriptorpb.EnumValueDescriptorProto{Name: proto.String(n), Number: proto.Int32(v)}
	}
	fd.EnumType = []*descriptorpb.EnumDescriptorProto{
		{Name: proto.String("E"), Value: []*descriptorpb.EnumValueDescriptorProto{ev("E0", 0), ev("E1", 1), ev("E5", 5), ev("EM", -2), ev("EMAX", 2147483647), ev("EMIN", -2147483648)}},
		{Name: proto.String("F"), Value: []*descriptorpb.EnumValueDescriptorProto{ev("F0", 0), ev("F1", 1), ev("F6", 6)}},
	}
	tname := "." + pkg + ".T"
	t := &descriptorpb.DescriptorProto{Name: proto.String("T")}
	t.Field = []*descriptorpb.FieldDescriptorProto{
		c20Field("i", 1, descriptorpb.FieldDescriptorProto_TYPE_INT32, opt, ""),
		c20Field("sub", 2, descriptorpb.FieldDescriptorProto_TYPE_MESSAGE, opt, tname),
		c20Field("r", 3, descriptorpb.FieldDescriptorProto_TYPE_INT32, rep, ""),
		c20Field("rm", 4, descriptorpb.FieldDescriptorProto_TYPE_MESSAGE, rep, tname),
	}
	c20MapField(t, tname, "mp", 5, descriptorpb.FieldDescriptorProto_TYPE_STRING, descriptorpb.FieldDescriptorProto_TYPE_INT32, "")
	// map<string, T> mm = 6: message values reachable through a map (Get, Items, iteration)
	c20MapField(t, tname, "mm", 6, descriptorpb.FieldDescriptorProto_TYPE_STRING, descriptorpb.FieldDescriptorProto_TYPE_MESSAGE, tname)

	kname := "." + pkg + ".K"
	k := &descriptorpb.DescriptorProto{Name: proto.String("K")}
	num := int32(1)
	for _, kd := range c20Kinds {
		tn := ""
		if kd.name == "enum" {
			tn = "." + pkg + ".E"
		} else if kd.name == "msg" {
			tn = tname
		}
		k.Field = append(k.Field, c20Field("f_"+kd.name, num, kd.typ, opt, tn))
		num++
		k.Field = append(k.Field, c20Field("r_"+kd.name, num, kd.typ, rep, tn))
		num++
		c20MapField(k, kname, "mv_"+kd.name, num, descriptorpb.FieldDescriptorProto_TYPE_STRING, kd.typ, tn)
		num++
		if kd.key {
			c20MapField(k, kname, "mk_"+kd.name, num, kd.typ, descriptorpb.FieldDescriptorProto_TYPE_INT32, "")
			num++
		}
	}
	// fields of the same kind as r_enum / r_msg (and the maps) but of a different domain:
	// another enum type (F has the number 6, E does not; E has 5, F does not), another message type
	uname := "." + pkg + ".U"
	u := &descriptorpb.DescriptorProto{Name: proto.String("U")}
	u.Field = []*descriptorpb.FieldDescriptorProto{c20Field("i", 1, descriptorpb.FieldDescriptorProto_TYPE_INT32, opt, "")}
	// types NESTED in U that carry the simple names of the file-level enum E and message T (U.E has the number 9, E does
	// not): a type is identified by its full name, never by its simple name
	u.EnumType = []*descriptorpb.EnumDescriptorProto{
		{Name: proto.String("E"), Value: []*descriptorpb.EnumValueDescriptorProto{ev("NE0", 0), ev("NE1", 1), ev("NE9", 9)}},
	}
	u.NestedType = []*descriptorpb.DescriptorProto{
		{Name: proto.String("T"), Field: []*descriptorpb.FieldDescriptorProto{c20Field("i", 1, descriptorpb.FieldDescriptorProto_TYPE_INT32, opt, "")}},
	}
	k.Field = append(k.Field, c20Field("r_enumf", num, descriptorpb.FieldDescriptorProto_TYPE_ENUM, rep, "."+pkg+".F"))
	num++
	c20MapField(k, kname, "mv_enumf", num, descriptorpb.FieldDescriptorProto_TYPE_STRING, descriptorpb.FieldDescriptorProto_TYPE_ENUM, "."+pkg+".F")
	num++
	k.Field = append(k.Field, c20Field("r_msgu", num, descriptorpb.FieldDescriptorProto_TYPE_MESSAGE, rep, uname))
	num++
	c20MapField(k, kname, "mv_msgu", num, descriptorpb.FieldDescriptorProto_TYPE_STRING, descriptorpb.FieldDescriptorProto_TYPE_MESSAGE, uname)
	num++
	fd.MessageType = []*descriptorpb.DescriptorProto{t, k, u}
	return fd
}

type c20Schema struct {
	files *protoregistry.Files
	p2    protoreflect.FileDescriptor
	p3    protoreflect.FileDescriptor
}

var (
	c20Once sync.Once
	c20S    c20Schema
	c20Err  error
)

func c20Load() (*c20Schema, error) {
	c20Once.Do(func() {
		set := &descriptorpb.FileDescriptorSet{File: []*descriptorpb.FileDescriptorProto{
			c20File("c20.proto", "c20", "proto2"),
			c20File("c20p3.proto", "c20p3", "proto3"),
		}}
		files, err := protodesc.NewFiles(set)
		if err != nil {
			c20Err = err
			return
		}
		c20S.files = files
		c20S.p2, err = files.FindFileByPath("c20.proto")
		if err != nil {
			c20Err = err
			return
		}
		c20S.p3, c20Err = files.FindFileByPath("c20p3.proto")
	})
	return &c20S, c20Err
}

// ------------------------------------------------------------ environment

// c20Env is one persistent Starlark global environment (the handles of a history).
type c20Env struct {
	thread  *starlark.Thread
	globals starlark.StringDict
	frozen  []starlark.Value // values on which freeze() was called, in order
}

var c20FileOpts = &syntax.FileOptions{Set: true, While: true, TopLevelControl: true, GlobalReassign: true, Recursion: true}

func c20NewEnv() (*c20Env, error) {
	s, err := c20Load()
	if err != nil {
		return nil, err
	}
	e := &c20Env{thread: &starlark.Thread{Name: "c20"}}
	e.thread.SetMaxExecutionSteps(5_000_000)
	starlarkproto.SetPool(e.thread, s.files)
	md := func(f protoreflect.FileDescriptor, n string) starlark.Value {
		return starlarkproto.MessageDescriptor{Desc: f.Messages().ByName(protoreflect.Name(n))}
	}
	ed := func(f protoreflect.FileDescriptor, n string) starlark.Value {
		return starlarkproto.EnumDescriptor{Desc: f.Enums().ByName(protoreflect.Name(n))}
	}
	freeze := func(_ *starlark.Thread, b *starlark.Builtin, args starlark.Tuple, kwargs []starlark.Tuple) (starlark.Value, error) {
		var x starlark.Value
		if err := starlark.UnpackPositionalArgs(b.Name(), args, kwargs, 1, &x); err != nil {
			return nil, err
		}
		x.Freeze()
		e.frozen = append(e.frozen, x)
		return starlark.None, nil
	}
	e.globals = starlark.StringDict{
		"proto":  starlarkproto.Module,
		"freeze": starlark.NewBuiltin("freeze", freeze),
		"T":      md(s.p2, "T"),
		"K":      md(s.p2, "K"),
		"E":      ed(s.p2, "E"),
		"F":      ed(s.p2, "F"),
		"U":      md(s.p2, "U"),
		"U3":     md(s.p3, "U"),
		"T3":     md(s.p3, "T"),
		"K3":     md(s.p3, "K"),
		"E3":     ed(s.p3, "E"),
		"F3":     ed(s.p3, "F"),
		// strings that are not valid UTF-8 cannot be written as literals
		"BAD_FF":    starlark.String("\xff"),
		"BAD_TRUNC": starlark.String("a\xc3"),
		"BAD_SURR":  starlark.String("\xed\xa0\x80"),
	}
	return e, nil
}

type c20Outcome struct {
	OK    bool   `json:"ok"`
	Err   string `json:"err,omitempty"`
	Panic string `json:"panic,omitempty"`
	Stack string `json:"stack,omitempty"`
}

func c20Recover(out *c20Outcome) {
	if r := recover(); r != nil {
		out.OK = false
		out.Panic = fmt.Sprint(r)
		buf := make([]byte, 4096)
		n := runtime.Stack(buf, false)
		// keep the frames below the panic that name the responsible lib/proto line
		lines := []string{}
		for _, l := range strings.Split(string(buf[:n]), "\n") {
			if strings.Contains(l, "lib/proto/") {
				lines = append(lines, strings.TrimSpace(l))
			}
		}
		if len(lines) > 3 {
			lines = lines[:3]
		}
		out.Stack = strings.Join(lines, " | ")
	}
}

// exec runs statements as one REPL chunk over the environment.
func (e *c20Env) exec(src string) (out c20Outcome) {
	defer c20Recover(&out)
	f, err := c20FileOpts.Parse("step.star", src, 0)
	if err != nil {
		out.Err = "parse: " + err.Error()
		return
	}
	e.thread.Uncancel()
	if err := starlark.ExecREPLChunk(f, e.thread, e.globals); err != nil {
		out.Err = c20ErrText(err)
		return
	}
	out.OK = true
	return
}

// eval evaluates one expression over the environment.
func (e *c20Env) eval(src string) (v starlark.Value, out c20Outcome) {
	defer c20Recover(&out)
	expr, err := c20FileOpts.ParseExpr("obs.star", src, 0)
	if err != nil {
		out.Err = "parse: " + err.Error()
		return
	}
	v, err = starlark.EvalExprOptions(c20FileOpts, e.thread, expr, e.globals)
	if err != nil {
		out.Err = c20ErrText(err)
		return nil, out
	}
	out.OK = true
	return
}

func c20ErrText(err error) string {
	s := err.Error()
	if ev, ok := err.(*starlark.EvalError); ok {
		s = ev.Msg
	}
	if len(s) > 300 {
		s = s[:300]
	}
	return s
}

// ---------------------------------------------------------------- encoding

// c20Enc encodes a value for the range records. Integers always travel as limbs
// ({"t":"int","neg","m"}) so that the TLA+ oracle treats all magnitudes alike.
func c20Enc(v starlark.Value) (o obj) {
	defer func() {
		if r := recover(); r != nil {
			o = obj{"t": "panic", "s": fmt.Sprint(r)}
		}
	}()
	switch v := v.(type) {
	case nil:
		return obj{"t": "nil"}
	case starlark.NoneType:
		return obj{"t": "none"}
	case starlark.Bool:
		return obj{"t": "bool", "v": bool(v)}
	case starlark.Int:
		b := v.BigInt()
		return obj{"t": "int", "neg": b.Sign() < 0, "m": limbsOf(b)}
	case starlark.Float:
		return encFloat(float64(v))
	case starlark.String:
		return obj{"t": "str", "v": byteArr(string(v))}
	case starlark.Bytes:
		return obj{"t": "bytes", "v": byteArr(string(v))}
	case starlarkproto.EnumValueDescriptor:
		if v.Desc == nil {
			return obj{"t": "enum", "nil": true, "n": obj{"neg": false, "m": []int{}}, "name": []int{}, "ty": []int{}}
		}
		return obj{"t": "enum", "nil": false, "n": encBig(big.NewInt(int64(v.Desc.Number()))), "name": byteArr(string(v.Desc.Name())),
			"ty": byteArr(string(v.Desc.Parent().FullName()))}
	case *starlarkproto.Message:
		// structural: type name and the fields that are set, in declaration order
		d := v.Message().ProtoReflect().Descriptor()
		th := &starlark.Thread{Name: "c20enc"}
		has := starlarkproto.Module.Members["has"].(*starlark.Builtin)
		fs := [][]any{}
		for i := 0; i < d.Fields().Len(); i++ {
			name := string(d.Fields().Get(i).Name())
			if r, err := starlark.Call(th, has, starlark.Tuple{v, starlark.String(name)}, nil); err == nil && r == starlark.True {
				if x, err := v.Attr(name); err == nil && x != nil {
					fs = append(fs, []any{byteArr(name), c20Enc(x)})
				}
			}
		}
		return obj{"t": "msg", "ty": byteArr(string(d.FullName())), "f": fs}
	case *starlarkproto.RepeatedField:
		xs := []obj{}
		for i := 0; i < v.Len(); i++ {
			xs = append(xs, c20Enc(v.Index(i)))
		}
		return obj{"t": "list", "v": xs}
	case *starlarkproto.MapField:
		xs := [][]obj{}
		for _, it := range v.Items() {
			xs = append(xs, []obj{c20Enc(it[0]), c20Enc(it[1])})
		}
		return obj{"t": "dict", "v": xs}
	case *starlark.List:
		xs := []obj{}
		for i := 0; i < v.Len(); i++ {
			xs = append(xs, c20Enc(v.Index(i)))
		}
		return obj{"t": "list", "v": xs}
	case starlark.Tuple:
		xs := []obj{}
		for _, x := range v {
			xs = append(xs, c20Enc(x))
		}
		return obj{"t": "tuple", "v": xs}
	case *starlark.Dict:
		xs := [][]obj{}
		for _, it := range v.Items() {
			xs = append(xs, []obj{c20Enc(it[0]), c20Enc(it[1])})
		}
		return obj{"t": "dict", "v": xs}
	}
	return obj{"t": "other", "type": v.Type(), "s": byteArr(safeString(v))}
}

// ------------------------------------------------------------- c20-exec

// case: pre (statements that must succeed), op (the statement under test),
// obs (named expressions evaluated afterwards, each on its own).
type c20ExecCase struct {
	ID  int         `json:"id"`
	Pre []string    `json:"pre"`
	Op  string      `json:"op"`
	Obs [][2]string `json:"obs"`
}

type c20Obs struct {
	c20Outcome
	V obj `json:"v,omitempty"`
}

type c20ExecResult struct {
	ID     int               `json:"id"`
	PreErr string            `json:"pre_err,omitempty"`
	Op     c20Outcome        `json:"op"`
	Obs    map[string]c20Obs `json:"obs"`
}

func c20RunExec(c *c20ExecCase) (res c20ExecResult) {
	res.ID = c.ID
	res.Obs = map[string]c20Obs{}
	env, err := c20NewEnv()
	if err != nil {
		res.PreErr = err.Error()
		return
	}
	for _, p := range c.Pre {
		if o := env.exec(p); !o.OK {
			res.PreErr = fmt.Sprintf("%s: %s%s", p, o.Err, o.Panic)
			return
		}
	}
	res.Op = env.exec(c.Op)
	for _, ob := range c.Obs {
		v, o := env.eval(ob[1])
		r := c20Obs{c20Outcome: o}
		if o.OK {
			r.V = c20Enc(v)
			if r.V["t"] == "panic" {
				r.OK = false
				r.Panic = fmt.Sprint(r.V["s"])
				r.V = nil
			}
		}
		res.Obs[ob[0]] = r
	}
	return
}

func c20IO(name string, args []string, each func(raw json.RawMessage) (any, error)) error {
	fs := flag.NewFlagSet(name, flag.ExitOnError)
	in := fs.String("in", "-", "cases ndjson")
	out := fs.String("out", "-", "results ndjson")
	fs.Parse(args)
	r, err := openIn(*in)
	if err != nil {
		return err
	}
	defer r.Close()
	w, err := openOut(*out)
	if err != nil {
		return err
	}
	defer w.Close()
	nw := newNDWriter(w)
	defer nw.flush()
	return readCases(r, func(raw json.RawMessage) error {
		v, err := each(raw)
		if err != nil {
			return err
		}
		nw.write(v)
		return nil
	})
}

func init() {
	register("c20-exec", func(args []string) error {
		return c20IO("c20-exec", args, func(raw json.RawMessage) (any, error) {
			var c c20ExecCase
			if err := json.Unmarshal(raw, &c); err != nil {
				return nil, fmt.Errorf("bad case: %v", err)
			}
			return c20RunExec(&c), nil
		})
	})
	// c20-schema prints the field names of the generated schema (diagnostics).
	register("c20-schema", func(args []string) error {
		s, err := c20Load()
		if err != nil {
			return err
		}
		for _, f := range []protoreflect.FileDescriptor{s.p2, s.p3} {
			ms := f.Messages()
			for i := 0; i < ms.Len(); i++ {
				names := []string{}
				fl := ms.Get(i).Fields()
				for j := 0; j < fl.Len(); j++ {
					names = append(names, string(fl.Get(j).Name()))
				}
				sort.Strings(names)
				fmt.Println(f.Path(), ms.Get(i).FullName(), f.Syntax(), strings.Join(names, " "))
			}
		}
		return nil
	})
}
