package main

// c20-hist: spec -> code replay for C20 (P-B).
//
//   vh c20-hist -edges tlc.out -out res.ndjson      histories printed by TLC (spec/C20Hist.tla)
//   vh c20-hist -in cases.ndjson -out res.ndjson    explicit histories (re-execution, shrinking, replay)
//
// Each history starts from `h1 = T()`; every operation is rendered to one
// Starlark statement and executed by the real pipeline on the real lib/proto.
// After every step the content of every handle is read through the Starlark
// API, through marshal/unmarshal and through marshal_text/unmarshal_text, and
// compared with the content predicted by the specification.
//
// Divergence classes.  Property level (decided from observations alone):
//   panic            the step panicked in the host
//   frozen-changed   a handle that was frozen shows different content later
//   inexact          the step succeeded but the target does not hold the given value
//   lossy-roundtrip  marshal/unmarshal (binary or text) of a live message fails or changes it
//   print            str(message) differs from the rendering of its content
// Model level (the implementation does something the model does not predict):
//   ok-mismatch, content-mismatch

import (
	"bufio"
	"encoding/json"
	"flag"
	"fmt"
	"os"
	"sort"
	"strconv"
	"strings"
	"sync"

	starlarkproto "go.starlark.net/lib/proto"
	"go.starlark.net/starlark"
)

type c20Op struct {
	Op      string
	H, G, K int
	OK      bool
}

func (o *c20Op) UnmarshalJSON(b []byte) error {
	var raw []json.RawMessage
	if err := json.Unmarshal(b, &raw); err != nil {
		return err
	}
	if len(raw) != 5 {
		return fmt.Errorf("op: want 5 fields, got %d", len(raw))
	}
	if err := json.Unmarshal(raw[0], &o.Op); err != nil {
		return err
	}
	for i, p := range []*int{&o.H, &o.G, &o.K} {
		if err := json.Unmarshal(raw[i+1], p); err != nil {
			return err
		}
	}
	return json.Unmarshal(raw[4], &o.OK)
}

func (o c20Op) MarshalJSON() ([]byte, error) {
	return json.Marshal([]any{o.Op, o.H, o.G, o.K, o.OK})
}

func (o c20Op) key() string { return fmt.Sprintf("%s,%d,%d,%d,%t;", o.Op, o.H, o.G, o.K, o.OK) }

// one handle of the predicted projection
type c20ProjEntry struct {
	K  string          `json:"k"`
	Rt int             `json:"rt"`
	V  json.RawMessage `json:"v"`
}

type c20Step struct {
	Src  string `json:"src"`
	Pre  string `json:"pre,omitempty"`  // expression evaluated before the step, bound to _pre
	Chk  string `json:"chk,omitempty"`  // "stored exactly": must be True after a successful step
	Snap []int  `json:"snap,omitempty"` // handles whose content is frozen by this step
	// expectations of the model (absent in property-level-only runs)
	HasExp bool     `json:"has_exp,omitempty"`
	OK     bool     `json:"ok,omitempty"`
	Exp    []string `json:"exp,omitempty"` // canonical content per handle h1..hn
}

type c20HistCase struct {
	ID    int       `json:"id"`
	Ops   []c20Op   `json:"ops,omitempty"`
	Steps []c20Step `json:"steps"`
}

// ------------------------------------------------------------ rendering

func hn(i int) string { return "h" + strconv.Itoa(i) }

const c20StrList = "[str(x) for x in %s]"

// c20Render turns the operations of a history into Starlark statements.
func c20Render(ops []c20Op) ([]c20Step, error) {
	nh := 1
	steps := make([]c20Step, 0, len(ops))
	for _, o := range ops {
		h, g, k := hn(o.H), hn(o.G), strconv.Itoa(o.K)
		var s c20Step
		switch o.Op {
		case "new":
			nh++
			s.Src = hn(nh) + " = T()"
		case "copy":
			nh++
			s.Src = fmt.Sprintf("%s = T(%s)", hn(nh), h)
			s.Chk = fmt.Sprintf("str(%s) == str(%s)", hn(nh), h)
		case "seti":
			s.Src = fmt.Sprintf("%s.i = %s", h, k)
			s.Chk = fmt.Sprintf("%s.i == %s", h, k)
		case "setsub":
			s.Src = fmt.Sprintf("%s.sub = %s", h, g)
			s.Pre = fmt.Sprintf("str(%s)", g)
			s.Chk = fmt.Sprintf("str(%s.sub) == _pre", h)
		case "setsubnew":
			s.Src = fmt.Sprintf("%s.sub = T(i = %s)", h, k)
			s.Chk = fmt.Sprintf("str(%s.sub) == str(T(i = %s))", h, k)
		case "setsubfrom":
			s.Src = fmt.Sprintf("%s.sub = %s.sub", h, g)
			s.Pre = fmt.Sprintf("str(%s.sub)", g)
			s.Chk = fmt.Sprintf("str(%s.sub) == _pre", h)
		case "setsubunset":
			s.Src = fmt.Sprintf("%s.sub = %s.sub", h, g)
			s.Chk = fmt.Sprintf("str(%s.sub) == str(T())", h)
		case "setr":
			s.Src = fmt.Sprintf("%s.r = [%s]", h, k)
			s.Chk = fmt.Sprintf("list(%s.r) == [%s]", h, k)
		case "setrfrom":
			s.Src = fmt.Sprintf("%s.r = %s.r", h, g)
			s.Pre = fmt.Sprintf("list(%s.r)", g)
			s.Chk = fmt.Sprintf("list(%s.r) == _pre", h)
		case "setrm":
			s.Src = fmt.Sprintf("%s.rm = [%s]", h, g)
			s.Pre = fmt.Sprintf("[str(%s)]", g)
			s.Chk = fmt.Sprintf(c20StrList+" == _pre", h+".rm")
		case "setrmnew":
			s.Src = fmt.Sprintf("%s.rm = [T(i = %s)]", h, k)
			s.Chk = fmt.Sprintf(c20StrList+" == [str(T(i = %s))]", h+".rm", k)
		case "setrmfrom":
			s.Src = fmt.Sprintf("%s.rm = %s.rm", h, g)
			s.Pre = fmt.Sprintf(c20StrList, g+".rm")
			s.Chk = fmt.Sprintf(c20StrList+" == _pre", h+".rm")
		case "setmp":
			s.Src = fmt.Sprintf("%s.mp = {\"a\": %s}", h, k)
			s.Chk = fmt.Sprintf("dict(%s.mp) == {\"a\": %s}", h, k)
		case "setmpfrom":
			s.Src = fmt.Sprintf("%s.mp = %s.mp", h, g)
			s.Pre = fmt.Sprintf("dict(%s.mp)", g)
			s.Chk = fmt.Sprintf("dict(%s.mp) == _pre", h)
		case "setmmnew":
			s.Src = fmt.Sprintf("%s.mm = {\"k\": T(i = %s)}", h, k)
			s.Chk = fmt.Sprintf("len(%s.mm) == 1 and str(%s.mm[\"k\"]) == str(T(i = %s))", h, h, k)
		case "setmm":
			s.Src = fmt.Sprintf("%s.mm = {\"k\": %s}", h, g)
			s.Pre = fmt.Sprintf("str(%s)", g)
			s.Chk = fmt.Sprintf("len(%s.mm) == 1 and str(%s.mm[\"k\"]) == _pre", h, h)
		case "mm0.seti":
			s.Src = fmt.Sprintf("%s.mm[\"k\"].i = %s", h, k)
			s.Chk = fmt.Sprintf("%s.mm[\"k\"].i == %s", h, k)
		case "sub.setmp":
			s.Src = fmt.Sprintf("%s.sub.mp = {\"a\": %s}", h, k)
			s.Chk = fmt.Sprintf("dict(%s.sub.mp) == {\"a\": %s}", h, k)
		case "sub.setr":
			s.Src = fmt.Sprintf("%s.sub.r = [%s]", h, k)
			s.Chk = fmt.Sprintf("list(%s.sub.r) == [%s]", h, k)
		case "sub.seti":
			s.Src = fmt.Sprintf("%s.sub.i = %s", h, k)
			s.Chk = fmt.Sprintf("%s.sub.i == %s", h, k)
		case "r.append":
			s.Src = fmt.Sprintf("%s.r.append(%s)", h, k)
			s.Pre = fmt.Sprintf("list(%s.r) + [%s]", h, k)
			s.Chk = fmt.Sprintf("list(%s.r) == _pre", h)
		case "r.set0":
			s.Src = fmt.Sprintf("%s.r[0] = %s", h, k)
			s.Chk = fmt.Sprintf("%s.r[0] == %s", h, k)
		case "rm0.seti":
			s.Src = fmt.Sprintf("%s.rm[0].i = %s", h, k)
			s.Chk = fmt.Sprintf("%s.rm[0].i == %s", h, k)
		case "rm.append":
			s.Src = fmt.Sprintf("%s.rm.append(%s)", h, g)
			s.Pre = fmt.Sprintf(c20StrList+" + [str(%s)]", h+".rm", g)
			s.Chk = fmt.Sprintf(c20StrList+" == _pre", h+".rm")
		case "rm.set0":
			s.Src = fmt.Sprintf("%s.rm[0] = %s", h, g)
			s.Pre = fmt.Sprintf("str(%s)", g)
			s.Chk = fmt.Sprintf("str(%s.rm[0]) == _pre", h)
		case "mp.setb":
			s.Src = fmt.Sprintf("%s.mp[\"b\"] = %s", h, k)
			s.Chk = fmt.Sprintf("%s.mp[\"b\"] == %s", h, k)
		case "view.sub", "view.r", "view.rm", "view.mp":
			nh++
			s.Src = fmt.Sprintf("%s = %s.%s", hn(nh), h, strings.TrimPrefix(o.Op, "view."))
		case "view.rm0":
			nh++
			s.Src = fmt.Sprintf("%s = %s.rm[0]", hn(nh), h)
		case "view.mm0":
			nh++
			s.Src = fmt.Sprintf("%s = %s.mm[\"k\"]", hn(nh), h)
		// Snapshot routes: the entries of the container are copied into a new Starlark value
		// first (MapField.Items() for dict(), dict.update and ** expansion - a map field has
		// no .items() / .values() methods of its own; iteration for list()).
		case "snap.mm0":
			nh++
			s.Src = fmt.Sprintf("%s = dict(%s.mm)[\"k\"]", hn(nh), h)
		case "vals.mm0":
			nh++
			s.Src = fmt.Sprintf("_d = {}; _d.update(%s.mm); %s = _d.values()[0]", h, hn(nh))
		case "items.mm0":
			nh++
			s.Src = fmt.Sprintf("%s = (lambda **kw: kw.items()[0][1])(**%s.mm)", hn(nh), h)
		case "snap.rm0":
			nh++
			s.Src = fmt.Sprintf("%s = list(%s.rm)[0]", hn(nh), h)
		case "v.append":
			s.Src = fmt.Sprintf("%s.append(%s)", h, k)
			s.Pre = fmt.Sprintf("list(%s) + [%s]", h, k)
			s.Chk = fmt.Sprintf("list(%s) == _pre", h)
		case "v.set0":
			s.Src = fmt.Sprintf("%s[0] = %s", h, k)
			s.Chk = fmt.Sprintf("%s[0] == %s", h, k)
		case "v0.seti":
			s.Src = fmt.Sprintf("%s[0].i = %s", h, k)
			s.Chk = fmt.Sprintf("%s[0].i == %s", h, k)
		case "vm.append":
			s.Src = fmt.Sprintf("%s.append(%s)", h, g)
			s.Pre = fmt.Sprintf(c20StrList+" + [str(%s)]", h, g)
			s.Chk = fmt.Sprintf(c20StrList+" == _pre", h)
		case "v.setb":
			s.Src = fmt.Sprintf("%s[\"b\"] = %s", h, k)
			s.Chk = fmt.Sprintf("%s[\"b\"] == %s", h, k)
		case "clr.i":
			s.Src = fmt.Sprintf("%s.i = None", h)
			s.Chk = fmt.Sprintf("%s.i == 0", h)
		case "clr.sub":
			s.Src = fmt.Sprintf("%s.sub = None", h)
			s.Chk = fmt.Sprintf("str(%s.sub) == str(T())", h)
		case "clr.r":
			s.Src = fmt.Sprintf("%s.r = None", h)
			s.Chk = fmt.Sprintf("list(%s.r) == []", h)
		case "clr.rm":
			s.Src = fmt.Sprintf("%s.rm = None", h)
			s.Chk = fmt.Sprintf("list(%s.rm) == []", h)
		case "clr.mp":
			s.Src = fmt.Sprintf("%s.mp = None", h)
			s.Chk = fmt.Sprintf("dict(%s.mp) == {}", h)
		case "clr.mm":
			s.Src = fmt.Sprintf("%s.mm = None", h)
			s.Chk = fmt.Sprintf("dict(%s.mm) == {}", h)
		case "freeze":
			s.Src = fmt.Sprintf("freeze(%s)", h)
		default:
			return nil, fmt.Errorf("unknown operation %q", o.Op)
		}
		steps = append(steps, s)
	}
	return steps, nil
}

// ------------------------------------------------------------ content trees

type c20Tree struct {
	I    int
	Sub  *c20Tree
	R    []int
	Rm   []*c20Tree
	A, B int
	Mm   []*c20Tree // entries of the map<string, T> field: none, or the one under key "k"
}

func (t *c20Tree) canon(sb *strings.Builder) {
	fmt.Fprintf(sb, "{i:%d,sub:[", t.I)
	if t.Sub != nil {
		t.Sub.canon(sb)
	}
	sb.WriteString("],r:[")
	for i, x := range t.R {
		if i > 0 {
			sb.WriteByte(',')
		}
		sb.WriteString(strconv.Itoa(x))
	}
	sb.WriteString("],rm:[")
	for i, x := range t.Rm {
		if i > 0 {
			sb.WriteByte(',')
		}
		x.canon(sb)
	}
	fmt.Fprintf(sb, "],mp:{a:%d,b:%d},mm:[", t.A, t.B)
	for i, x := range t.Mm {
		if i > 0 {
			sb.WriteByte(',')
		}
		x.canon(sb)
	}
	sb.WriteString("]}")
}

func (t *c20Tree) String() string {
	var sb strings.Builder
	t.canon(&sb)
	return sb.String()
}

// render is the printed form lib/proto documents by example: Type(field=value, ...),
// set fields only, in field-number order.
func (t *c20Tree) render(sb *strings.Builder) {
	sb.WriteString("c20.T(")
	first := true
	sep := func(name string) {
		if !first {
			sb.WriteString(", ")
		}
		first = false
		sb.WriteString(name + "=")
	}
	if t.I != 0 {
		sep("i")
		sb.WriteString(strconv.Itoa(t.I))
	}
	if t.Sub != nil {
		sep("sub")
		t.Sub.render(sb)
	}
	if len(t.R) > 0 {
		sep("r")
		sb.WriteByte('[')
		for i, x := range t.R {
			if i > 0 {
				sb.WriteString(", ")
			}
			sb.WriteString(strconv.Itoa(x))
		}
		sb.WriteByte(']')
	}
	if len(t.Rm) > 0 {
		sep("rm")
		sb.WriteByte('[')
		for i, x := range t.Rm {
			if i > 0 {
				sb.WriteString(", ")
			}
			x.render(sb)
		}
		sb.WriteByte(']')
	}
	if t.A != 0 || t.B != 0 {
		sep("mp")
		sb.WriteByte('{')
		if t.A != 0 {
			fmt.Fprintf(sb, "\"a\": %d", t.A)
		}
		if t.B != 0 {
			if t.A != 0 {
				sb.WriteString(", ")
			}
			fmt.Fprintf(sb, "\"b\": %d", t.B)
		}
		sb.WriteByte('}')
	}
	if len(t.Mm) > 0 {
		// a map field prints like a dict: {"k": c20.T(...)}
		sep("mm")
		sb.WriteByte('{')
		for i, x := range t.Mm {
			if i > 0 {
				sb.WriteString(", ")
			}
			sb.WriteString("\"k\": ")
			x.render(sb)
		}
		sb.WriteByte('}')
	}
	sb.WriteByte(')')
}

// JSON form printed by TLC
type c20TreeJSON struct {
	I   int            `json:"i"`
	Sub []*c20TreeJSON `json:"sub"`
	R   []int          `json:"r"`
	Rm  []*c20TreeJSON `json:"rm"`
	Mp  struct {
		A int `json:"a"`
		B int `json:"b"`
	} `json:"mp"`
	Mm []*c20TreeJSON `json:"mm"`
}

func (j *c20TreeJSON) tree() *c20Tree {
	t := &c20Tree{I: j.I, R: j.R, A: j.Mp.A, B: j.Mp.B}
	if len(j.Sub) > 0 {
		t.Sub = j.Sub[0].tree()
	}
	for _, x := range j.Rm {
		t.Rm = append(t.Rm, x.tree())
	}
	for _, x := range j.Mm {
		t.Mm = append(t.Mm, x.tree())
	}
	return t
}

// canonical content of a predicted handle
func c20ExpCanon(e *c20ProjEntry) (string, error) {
	switch e.K {
	case "msg":
		var j c20TreeJSON
		if err := json.Unmarshal(e.V, &j); err != nil {
			return "", err
		}
		return "msg:" + j.tree().String(), nil
	case "li":
		var xs []int
		if err := json.Unmarshal(e.V, &xs); err != nil {
			return "", err
		}
		return "li:" + fmt.Sprint(xs), nil
	case "lm":
		var xs []*c20TreeJSON
		if err := json.Unmarshal(e.V, &xs); err != nil {
			return "", err
		}
		parts := []string{}
		for _, x := range xs {
			parts = append(parts, x.tree().String())
		}
		return "lm:[" + strings.Join(parts, ",") + "]", nil
	case "map":
		var m struct{ A, B int }
		if err := json.Unmarshal(e.V, &m); err != nil {
			return "", err
		}
		return fmt.Sprintf("map:{a:%d,b:%d}", m.A, m.B), nil
	}
	return "", fmt.Errorf("unknown handle kind %q", e.K)
}

// --------------------------------------------------- observation through the API

type c20Observer struct {
	env *c20Env
	has *starlark.Builtin
}

func asInt(v starlark.Value) int {
	if i, ok := v.(starlark.Int); ok {
		if x, ok := i.Int64(); ok {
			return int(x)
		}
	}
	return -999
}

func (ob *c20Observer) isSet(m *starlarkproto.Message, f string) bool {
	v, err := starlark.Call(ob.env.thread, ob.has, starlark.Tuple{m, starlark.String(f)}, nil)
	return err == nil && v == starlark.True
}

// The model never nests messages deeper than the history is long; a deeper
// structure is a message that contains itself.  Such a value must never reach
// String() or marshal: they recurse without bound and the Go runtime aborts
// the process ("fatal error: stack overflow", not a recoverable panic).
const (
	c20MaxDepth = 8
	c20Cyclic   = -998
	c20BadEntry = -996
)

func (t *c20Tree) cyclic() bool {
	if t == nil {
		return false
	}
	if t.I == c20Cyclic || t.Sub.cyclic() {
		return true
	}
	for _, x := range t.Rm {
		if x.cyclic() {
			return true
		}
	}
	for _, x := range t.Mm {
		if x.cyclic() {
			return true
		}
	}
	return false
}

// msgTree reads the content of a message through Attr / Index / Get.
func (ob *c20Observer) msgTree(m *starlarkproto.Message, depth int) *c20Tree {
	t := &c20Tree{}
	if depth > c20MaxDepth {
		t.I = c20Cyclic // cyclic or too deep: never equal to a predicted tree
		return t
	}
	if ob.isSet(m, "i") {
		v, _ := m.Attr("i")
		t.I = asInt(v)
	}
	if ob.isSet(m, "sub") {
		v, _ := m.Attr("sub")
		if s, ok := v.(*starlarkproto.Message); ok {
			t.Sub = ob.msgTree(s, depth+1)
		}
	}
	if v, _ := m.Attr("r"); v != nil {
		if rf, ok := v.(*starlarkproto.RepeatedField); ok {
			for i := 0; i < rf.Len(); i++ {
				t.R = append(t.R, asInt(rf.Index(i)))
			}
		}
	}
	if v, _ := m.Attr("rm"); v != nil {
		if rf, ok := v.(*starlarkproto.RepeatedField); ok {
			for i := 0; i < rf.Len(); i++ {
				if s, ok := rf.Index(i).(*starlarkproto.Message); ok {
					t.Rm = append(t.Rm, ob.msgTree(s, depth+1))
				}
			}
		}
	}
	if v, _ := m.Attr("mp"); v != nil {
		if mf, ok := v.(*starlarkproto.MapField); ok {
			t.A, t.B = ob.mapAB(mf)
		}
	}
	if v, _ := m.Attr("mm"); v != nil {
		if mf, ok := v.(*starlarkproto.MapField); ok {
			if x, found, _ := mf.Get(starlark.String("k")); found {
				if s, ok := x.(*starlarkproto.Message); ok {
					t.Mm = append(t.Mm, ob.msgTree(s, depth+1))
				}
			}
			if mf.Len() != len(t.Mm) {
				// entries under other keys, or an entry that is not a message:
				// never equal to a predicted tree
				t.Mm = append(t.Mm, &c20Tree{I: c20BadEntry})
			}
		}
	}
	return t
}

func (ob *c20Observer) mapAB(mf *starlarkproto.MapField) (a, b int) {
	if v, found, _ := mf.Get(starlark.String("a")); found {
		a = asInt(v)
	}
	if v, found, _ := mf.Get(starlark.String("b")); found {
		b = asInt(v)
	}
	if n := mf.Len(); n != btoi(a != 0)+btoi(b != 0) {
		a = -997 // unexpected extra keys
	}
	return
}

func btoi(b bool) int {
	if b {
		return 1
	}
	return 0
}

const c20CyclicText = "<a message that contains itself>"

// content returns (canonical content, printed form) of a handle.
func (ob *c20Observer) content(v starlark.Value) (string, string) {
	switch v := v.(type) {
	case *starlarkproto.Message:
		t := ob.msgTree(v, 0)
		if t.cyclic() {
			return "msg:" + t.String(), c20CyclicText
		}
		return "msg:" + t.String(), v.String()
	case *starlarkproto.RepeatedField:
		if v.Len() > 0 {
			if _, ok := v.Index(0).(*starlarkproto.Message); ok {
				parts := []string{}
				cyc := false
				for i := 0; i < v.Len(); i++ {
					t := ob.msgTree(v.Index(i).(*starlarkproto.Message), 0)
					cyc = cyc || t.cyclic()
					parts = append(parts, t.String())
				}
				if cyc {
					return "lm:[" + strings.Join(parts, ",") + "]", c20CyclicText
				}
				return "lm:[" + strings.Join(parts, ",") + "]", v.String()
			}
		}
		xs := []int{}
		for i := 0; i < v.Len(); i++ {
			xs = append(xs, asInt(v.Index(i)))
		}
		return "li:" + fmt.Sprint(xs), v.String()
	case *starlarkproto.MapField:
		a, b := ob.mapAB(v)
		return fmt.Sprintf("map:{a:%d,b:%d}", a, b), v.String()
	}
	return "?:" + v.Type(), v.String()
}

// roundTrips re-reads a message through binary and text serialisation.
func (ob *c20Observer) roundTrips(name string) (bin, txt string, problem string) {
	for _, form := range []string{"", "_text"} {
		v, o := ob.env.eval(fmt.Sprintf("proto.unmarshal%s(T, proto.marshal%s(%s))", form, form, name))
		got := ""
		if !o.OK {
			problem = fmt.Sprintf("marshal%s/unmarshal%s of %s: %s%s", form, form, name, o.Err, o.Panic)
		} else if m, ok := v.(*starlarkproto.Message); ok {
			got = "msg:" + ob.msgTree(m, 0).String()
		}
		if form == "" {
			bin = got
		} else {
			txt = got
		}
	}
	return
}

// ------------------------------------------------------------ replay

type c20Div struct {
	Step    int      `json:"step"` // 0-based index of the diverging step
	Src     string   `json:"src"`
	Classes []string `json:"classes"`
	Detail  []string `json:"detail"`
}

type c20HistResult struct {
	ID      int       `json:"id"`
	Ops     []c20Op   `json:"ops,omitempty"`
	Steps   []c20Step `json:"steps,omitempty"`
	Div     *c20Div   `json:"div,omitempty"`
	Err     string    `json:"machinery,omitempty"`
	Noops   int       `json:"noops,omitempty"`   // content-preserving stores accepted on frozen content
	Final   []string  `json:"final,omitempty"`   // printed form of every handle at the end
	Outcome []string  `json:"outcome,omitempty"` // ok / error text of each executed step
}

func c20Replay(c *c20HistCase, verbose bool) (res c20HistResult) {
	res.ID = c.ID
	env, err := c20NewEnv()
	if err != nil {
		res.Err = err.Error()
		return
	}
	ob := &c20Observer{env: env, has: starlarkproto.Module.Members["has"].(*starlark.Builtin)}
	if o := env.exec("h1 = T()"); !o.OK {
		res.Err = "h1 = T(): " + o.Err + o.Panic
		return
	}
	type snapT struct{ content, printed string }
	snaps := map[int]snapT{}
	handleNames := func() []int {
		ids := []int{}
		for n := range env.globals {
			if len(n) > 1 && n[0] == 'h' {
				if i, err := strconv.Atoi(n[1:]); err == nil {
					ids = append(ids, i)
				}
			}
		}
		sort.Ints(ids)
		return ids
	}
	for si, st := range c.Steps {
		div := &c20Div{Step: si, Src: st.Src}
		add := func(class, detail string) {
			for _, c := range div.Classes {
				if c == class {
					div.Detail = append(div.Detail, detail)
					return
				}
			}
			div.Classes = append(div.Classes, class)
			div.Detail = append(div.Detail, detail)
		}
		before := map[int]string{}
		for _, h := range handleNames() {
			c, _ := ob.content(env.globals[hn(h)])
			before[h] = c
		}
		delete(env.globals, "_pre")
		preOK := false
		if st.Pre != "" {
			if o := env.exec("_pre = " + st.Pre); o.OK {
				preOK = true
			} else if o.Panic != "" {
				add("panic", "evaluating "+st.Pre+": "+o.Panic+" @ "+o.Stack)
			}
		}
		out := env.exec(st.Src)
		if verbose {
			if out.OK {
				res.Outcome = append(res.Outcome, "ok")
			} else {
				res.Outcome = append(res.Outcome, "error: "+out.Err+out.Panic)
			}
		}
		if out.Panic != "" {
			add("panic", out.Panic+" @ "+out.Stack)
		}
		// a message that contains itself must not be printed or marshalled (see c20MaxDepth)
		cyclic := false
		for _, h := range handleNames() {
			if _, p := ob.content(env.globals[hn(h)]); p == c20CyclicText {
				cyclic = true
				add("cyclic-message", fmt.Sprintf("after %s the message %s contains itself", st.Src, hn(h)))
			}
		}
		if cyclic {
			res.Div = div
			break
		}
		// stored exactly
		if out.OK && st.Chk != "" && (st.Pre == "" || preOK) {
			v, o := env.eval(st.Chk)
			if o.Panic != "" {
				add("panic", "evaluating "+st.Chk+": "+o.Panic+" @ "+o.Stack)
			} else if !o.OK {
				add("inexact", "read-back "+st.Chk+" failed: "+o.Err)
			} else if v != starlark.True {
				add("inexact", "after a successful "+st.Src+": "+st.Chk+" is False")
			}
		}
		// observe every handle
		ids := handleNames()
		obs := map[int]string{}
		for _, h := range ids {
			v := env.globals[hn(h)]
			cont, printed := ob.content(v)
			obs[h] = cont
			if m, ok := v.(*starlarkproto.Message); ok {
				_ = m
				var sb strings.Builder
				ob.msgTree(m, 0).render(&sb)
				if sb.String() != printed {
					add("print", fmt.Sprintf("str(%s) = %s, content renders as %s", hn(h), printed, sb.String()))
				}
				bin, txt, problem := ob.roundTrips(hn(h))
				if problem != "" {
					add("lossy-roundtrip", problem)
				} else if bin != cont || txt != cont {
					add("lossy-roundtrip", fmt.Sprintf("%s: content %s, after binary round trip %s, after text round trip %s", hn(h), cont, bin, txt))
				}
			}
			if s, ok := snaps[h]; ok && (s.content != cont || s.printed != printed) {
				add("frozen-changed", fmt.Sprintf("%s was frozen as %s and is now %s", hn(h), s.printed, printed))
			}
		}
		if !out.OK && out.Panic == "" {
			for _, h := range ids {
				if b, ok := before[h]; ok && b != obs[h] {
					add("error-changed", fmt.Sprintf("%s failed (%s) but %s changed from %s to %s", st.Src, out.Err, hn(h), b, obs[h]))
				}
			}
		}
		// model expectations
		if st.HasExp {
			if st.OK != out.OK {
				unchanged := true
				for _, h := range ids {
					if b, ok := before[h]; !ok || b != obs[h] {
						unchanged = false
					}
				}
				if !st.OK && out.OK && unchanged && len(div.Classes) == 0 {
					// The model refuses every mutation of frozen content; the implementation
					// accepted one that stores what was already there.  No content changed,
					// so the property as stated is not affected: counted, not a divergence.
					res.Noops++
				} else {
					add("ok-mismatch", fmt.Sprintf("%s: model expects ok=%t, implementation ok=%t %s", st.Src, st.OK, out.OK, out.Err))
				}
			}
			if len(st.Exp) != len(ids) {
				add("content-mismatch", fmt.Sprintf("model has %d handles, implementation %d", len(st.Exp), len(ids)))
			} else {
				for i, h := range ids {
					if st.Exp[i] != obs[h] {
						add("content-mismatch", fmt.Sprintf("%s: model %s, implementation %s", hn(h), st.Exp[i], obs[h]))
					}
				}
			}
		}
		// snapshots of the handles frozen by this step
		for _, h := range st.Snap {
			if v, ok := env.globals[hn(h)]; ok {
				c, p := ob.content(v)
				snaps[h] = snapT{c, p}
			}
		}
		if len(div.Classes) > 0 {
			res.Div = div
			break
		}
	}
	if verbose {
		for _, h := range handleNames() {
			_, p := ob.content(env.globals[hn(h)])
			res.Final = append(res.Final, hn(h)+" = "+p)
		}
	}
	return
}

// ------------------------------------------------------------ TLC edges

type c20Edge struct {
	H []c20Op        `json:"h"`
	P []c20ProjEntry `json:"p"`
}

type c20Pred struct {
	exp  []string // canonical content per handle
	root []int    // root handle per handle
}

func c20ParseEdges(path string) ([]*c20Edge, map[string]*c20Pred, error) {
	f, err := os.Open(path)
	if err != nil {
		return nil, nil, err
	}
	defer f.Close()
	br := bufio.NewReaderSize(f, 1<<20)
	var edges []*c20Edge
	preds := map[string]*c20Pred{}
	const prefix = `<<"EDGE", `
	for {
		line, err := br.ReadString('\n')
		if strings.HasPrefix(line, prefix) {
			body := strings.TrimSpace(line[len(prefix):])
			body = strings.TrimSuffix(body, ">>")
			var text string
			if e := json.Unmarshal([]byte(body), &text); e != nil {
				return nil, nil, fmt.Errorf("edge line: %v: %.200s", e, line)
			}
			var ed c20Edge
			if e := json.Unmarshal([]byte(text), &ed); e != nil {
				return nil, nil, fmt.Errorf("edge json: %v: %.200s", e, text)
			}
			p := &c20Pred{}
			for i := range ed.P {
				c, e := c20ExpCanon(&ed.P[i])
				if e != nil {
					return nil, nil, e
				}
				p.exp = append(p.exp, c)
				p.root = append(p.root, ed.P[i].Rt)
			}
			ed.P = nil
			preds[c20Key(ed.H)] = p
			edges = append(edges, &ed)
		}
		if err != nil {
			break
		}
	}
	return edges, preds, nil
}

func c20Key(ops []c20Op) string {
	var sb strings.Builder
	for _, o := range ops {
		sb.WriteString(o.key())
	}
	return sb.String()
}

// c20CaseOfEdge attaches to every step of the history the prediction of the model.
func c20CaseOfEdge(id int, ed *c20Edge, preds map[string]*c20Pred) (*c20HistCase, error) {
	steps, err := c20Render(ed.H)
	if err != nil {
		return nil, err
	}
	for j := range steps {
		p, ok := preds[c20Key(ed.H[:j+1])]
		if !ok {
			return nil, fmt.Errorf("no prediction for the prefix of length %d", j+1)
		}
		steps[j].HasExp = true
		steps[j].OK = ed.H[j].OK
		steps[j].Exp = p.exp
		if ed.H[j].Op == "freeze" {
			for h, r := range p.root {
				if r == ed.H[j].H {
					steps[j].Snap = append(steps[j].Snap, h+1)
				}
			}
		}
	}
	return &c20HistCase{ID: id, Ops: ed.H, Steps: steps}, nil
}

func init() {
	register("c20-hist", func(args []string) error {
		fs := flag.NewFlagSet("c20-hist", flag.ExitOnError)
		edges := fs.String("edges", "", "TLC output with EDGE lines")
		in := fs.String("in", "", "explicit cases (ndjson)")
		out := fs.String("out", "-", "results ndjson")
		par := fs.Int("par", 8, "parallel replays")
		keep := fs.Int("keep", 1, "full records kept per divergence key (edges mode)")
		brief := fs.Bool("brief", false, "explicit cases: report only the divergence")
		fs.Parse(args)
		w, err := openOut(*out)
		if err != nil {
			return err
		}
		defer w.Close()
		nw := newNDWriter(w)
		defer nw.flush()
		if _, err := c20Load(); err != nil {
			return err
		}

		if *in != "" {
			r, err := openIn(*in)
			if err != nil {
				return err
			}
			defer r.Close()
			var cases []*c20HistCase
			if err := readCases(r, func(raw json.RawMessage) error {
				var c c20HistCase
				if err := json.Unmarshal(raw, &c); err != nil {
					return err
				}
				if len(c.Steps) == 0 && len(c.Ops) > 0 {
					st, err := c20Render(c.Ops)
					if err != nil {
						return err
					}
					c.Steps = st
				}
				cases = append(cases, &c)
				return nil
			}); err != nil {
				return err
			}
			results := make([]c20HistResult, len(cases))
			var wg sync.WaitGroup
			sem := make(chan struct{}, *par)
			for i := range cases {
				wg.Add(1)
				sem <- struct{}{}
				go func(i int) {
					defer wg.Done()
					defer func() { <-sem }()
					results[i] = c20Replay(cases[i], !*brief)
					if !*brief {
						results[i].Ops, results[i].Steps = cases[i].Ops, cases[i].Steps
					}
				}(i)
			}
			wg.Wait()
			for _, r := range results {
				nw.write(r)
			}
			return nil
		}

		eds, preds, err := c20ParseEdges(*edges)
		if err != nil {
			return err
		}
		results := make([]c20HistResult, len(eds))
		var wg sync.WaitGroup
		sem := make(chan struct{}, *par)
		for i := range eds {
			wg.Add(1)
			sem <- struct{}{}
			go func(i int) {
				defer wg.Done()
				defer func() { <-sem }()
				c, err := c20CaseOfEdge(i+1, eds[i], preds)
				if err != nil {
					results[i] = c20HistResult{ID: i + 1, Ops: eds[i].H, Err: err.Error()}
					return
				}
				results[i] = c20Replay(c, false)
				results[i].Ops = eds[i].H
				if results[i].Div != nil {
					results[i].Steps = c.Steps
				}
			}(i)
		}
		wg.Wait()
		// summary + divergent histories (full record for the first -keep per key)
		type sum struct {
			Summary   bool           `json:"summary"`
			Edges     int            `json:"edges"`
			Conform   int            `json:"conform"`
			Divergent int            `json:"divergent"`
			Machinery int            `json:"machinery"`
			ByLen     map[int]int    `json:"by_len"`
			ByOp      map[string]int `json:"by_op"`
			Failing   int            `json:"expected_failures"` // edges whose last operation must fail
			Noops     int            `json:"noop_stores_on_frozen"`
			Samples   []string       `json:"samples"`
		}
		s := sum{Summary: true, Edges: len(eds), ByLen: map[int]int{}, ByOp: map[string]int{}}
		kept := map[string]int{}
		for i, r := range results {
			ops := eds[i].H
			last := ops[len(ops)-1]
			s.ByLen[len(ops)]++
			s.Noops += r.Noops
			s.ByOp[last.Op]++
			if !last.OK {
				s.Failing++
			}
			switch {
			case r.Err != "":
				s.Machinery++
				nw.write(r)
			case r.Div == nil:
				s.Conform++
				if len(s.Samples) < 8 && i%(len(eds)/8+1) == 0 {
					st, _ := c20Render(ops)
					srcs := []string{}
					for _, x := range st {
						srcs = append(srcs, x.Src)
					}
					s.Samples = append(s.Samples, strings.Join(srcs, "; "))
				}
			default:
				s.Divergent++
				names := []string{}
				for _, o := range ops[:r.Div.Step+1] {
					if o.G != 0 && o.G == o.H {
						names = append(names, o.Op+"@self")
					} else {
						names = append(names, o.Op)
					}
				}
				key := strings.Join(r.Div.Classes, "+") + "/" + strings.Join(names, ",")
				kept[key]++
				if kept[key] > *keep {
					r.Steps = nil
					r.Div.Detail = nil
				}
				nw.write(r)
			}
		}
		nw.write(s)
		return nil
	})
}
