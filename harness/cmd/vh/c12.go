package main

// vh c12-replay: replay transitions of spec/C12MC.tla (each with a shortest path
// from the initial state) on the real dict / set, through the Go API and through
// Starlark methods and operators, with host keys whose Hash() is dictated by the
// model.  vh c12-seqs / c12-hist: execute operation sequences and record what the
// real table does, for validation by TLC (code -> spec).

import (
	"encoding/json"
	"flag"
	"fmt"
	"math/rand"
	"os"
	"sort"

	"go.starlark.net/starlark"
	"go.starlark.net/syntax"
)

// hkey is a host value with a chosen hash; equality is by id.
type hkey struct {
	id int
	h  uint32
}

func (k hkey) String() string        { return fmt.Sprintf("K%d", k.id) }
func (k hkey) Type() string          { return "hkey" }
func (k hkey) Freeze()               {}
func (k hkey) Truth() starlark.Bool  { return true }
func (k hkey) Hash() (uint32, error) { return k.h, nil }

const c12Helpers = `
def setitem(d, k, v): d[k] = v
def pop(d, k): return d.pop(k)
def popd(d, k, v): return d.pop(k, v)
def popitem(d): return d.popitem()
def setdefault(d, k, v): return d.setdefault(k, v)
def update(d, p): d.update(p)
def ior(d, e):
    d |= e
    return d
def clear(d): d.clear()
def get(d, k): return d.get(k)
def union(d, e): return d | e
def has(d, k): return k in d
def items(d): return d.items()
def keys(d): return list(d)
def length(d): return len(d)
def add(s, k): s.add(k)
def discard(s, k): s.discard(k)
def remove(s, k): s.remove(k)
def spop(s): return s.pop()
def supdate(s, t): s.update(t)
def sunion(s, t): return s.union(t)
def sinter(s, t): return s.intersection(t)
def sdiff(s, t): return s.difference(t)
def ssym(s, t): return s.symmetric_difference(t)
def issubset(s, t): return s.issubset(t)
def issuperset(s, t): return s.issuperset(t)
def o_or(s, t): return s | t
def o_and(s, t): return s & t
def o_sub(s, t): return s - t
def o_xor(s, t): return s ^ t
def o_le(s, t): return s <= t
def o_ge(s, t): return s >= t
def mkset(t): return set(t)
def mktuple(t): return tuple(t)
def mkkeys(t): return {k: None for k in t}
def mkdict(p): return dict(p)
`

type c12Env struct {
	th    *starlark.Thread
	fn    starlark.StringDict
	keys  []hkey // index 1..NK
	setOp [][]int
	dctOp [][][]int
	route string
}

func newC12Env(hashes []uint32, setOp [][]int, dctOp [][][]int, route string) (*c12Env, error) {
	th := &starlark.Thread{Name: "c12"}
	opts := &syntax.FileOptions{Set: true, GlobalReassign: true, TopLevelControl: true}
	g, err := starlark.ExecFileOptions(opts, th, "helpers.star", c12Helpers, nil)
	if err != nil {
		return nil, err
	}
	e := &c12Env{th: th, fn: g, setOp: setOp, dctOp: dctOp, route: route}
	e.keys = make([]hkey, len(hashes)+1)
	for i, h := range hashes {
		e.keys[i+1] = hkey{i + 1, h}
	}
	return e, nil
}

func (e *c12Env) call(name string, args ...starlark.Value) (starlark.Value, error) {
	return starlark.Call(e.th, e.fn[name], starlark.Tuple(args), nil)
}

func (e *c12Env) method(recv starlark.Value, name string, args ...starlark.Value) (starlark.Value, error) {
	m, err := recv.(starlark.HasAttrs).Attr(name)
	if err != nil || m == nil {
		return nil, fmt.Errorf("no method %s", name)
	}
	return starlark.Call(e.th, m, starlark.Tuple(args), nil)
}

func (e *c12Env) k(i int) starlark.Value { return e.keys[i] }

func (e *c12Env) pairList(p [][]int) *starlark.List {
	var xs []starlark.Value
	for _, kv := range p {
		xs = append(xs, starlark.Tuple{e.k(kv[0]), starlark.MakeInt(kv[1])})
	}
	return starlark.NewList(xs)
}

func (e *c12Env) keyList(t []int) *starlark.List {
	var xs []starlark.Value
	for _, k := range t {
		xs = append(xs, e.k(k))
	}
	return starlark.NewList(xs)
}

// result of an operation in the model's shape: ok, a, b
type c12Res struct {
	OK   int
	A, B []int
}

func keyID(v starlark.Value) int {
	if k, ok := v.(hkey); ok {
		return k.id
	}
	return -1000
}
func intOf(v starlark.Value) int {
	if i, ok := v.(starlark.Int); ok {
		n, _ := i.Int64()
		return int(n)
	}
	return -1000
}

func iterKeys(v starlark.Value) []int {
	out := []int{}
	it := starlark.Iterate(v)
	if it == nil {
		return []int{-999}
	}
	defer it.Done()
	var x starlark.Value
	for it.Next(&x) {
		out = append(out, keyID(x))
	}
	return out
}

func fail() c12Res { return c12Res{0, []int{}, []int{}} }
func okRes(a, b []int) c12Res {
	if a == nil {
		a = []int{}
	}
	if b == nil {
		b = []int{}
	}
	return c12Res{1, a, b}
}
func b2i(b bool) int {
	if b {
		return 1
	}
	return 0
}

// apply performs one operation on the dict d / set s.
func (e *c12Env) apply(d *starlark.Dict, s *starlark.Set, op []int) (res c12Res, err error) {
	star := e.route == "star"
	switch op[0] {
	case 1: // ins k v
		if star {
			_, err = e.call("setitem", d, e.k(op[1]), starlark.MakeInt(op[2]))
		} else {
			err = d.SetKey(e.k(op[1]), starlark.MakeInt(op[2]))
		}
		return okRes(nil, nil), err
	case 2: // pop k (fails if missing)
		if star {
			v, err := e.call("pop", d, e.k(op[1]))
			if err != nil {
				return fail(), nil
			}
			return okRes([]int{intOf(v)}, nil), nil
		}
		v, found, err := d.Delete(e.k(op[1]))
		if err != nil {
			return fail(), err
		}
		if !found {
			return fail(), nil
		}
		return okRes([]int{intOf(v)}, nil), nil
	case 3: // pop k default 9
		var v starlark.Value
		if star {
			v, err = e.call("popd", d, e.k(op[1]), starlark.MakeInt(9))
		} else {
			v, err = e.method(d, "pop", e.k(op[1]), starlark.MakeInt(9))
		}
		if err != nil {
			return fail(), err
		}
		return okRes([]int{intOf(v)}, nil), nil
	case 4: // popitem
		var v starlark.Value
		if star {
			v, err = e.call("popitem", d)
		} else {
			v, err = e.method(d, "popitem")
		}
		if err != nil {
			return fail(), nil
		}
		t := v.(starlark.Tuple)
		return okRes([]int{keyID(t[0])}, []int{intOf(t[1])}), nil
	case 5: // setdefault k v
		var v starlark.Value
		if star {
			v, err = e.call("setdefault", d, e.k(op[1]), starlark.MakeInt(op[2]))
		} else {
			v, err = e.method(d, "setdefault", e.k(op[1]), starlark.MakeInt(op[2]))
		}
		if err != nil {
			return fail(), err
		}
		return okRes([]int{intOf(v)}, nil), nil
	case 6: // update operand
		p := e.pairList(e.dctOp[op[1]-1])
		if star {
			// alternate between update(list of pairs) and |= dict
			if op[1]%2 == 0 {
				var dd starlark.Value
				dd, err = e.call("mkdict", p)
				if err == nil {
					_, err = e.call("ior", d, dd)
				}
			} else {
				_, err = e.call("update", d, p)
			}
		} else {
			_, err = e.method(d, "update", p)
		}
		return okRes(nil, nil), err
	case 7: // clear
		if d != nil {
			if star {
				_, err = e.call("clear", d)
			} else {
				err = d.Clear()
			}
		} else {
			if star {
				_, err = e.call("clear", s)
			} else {
				err = s.Clear()
			}
		}
		return okRes(nil, nil), err
	case 8: // get k
		if star {
			v, err := e.call("get", d, e.k(op[1]))
			if err != nil {
				return fail(), err
			}
			if v == starlark.None {
				return okRes(nil, nil), nil
			}
			return okRes([]int{intOf(v)}, nil), nil
		}
		v, found, err := d.Get(e.k(op[1]))
		if err != nil {
			return fail(), err
		}
		if !found {
			return okRes(nil, nil), nil
		}
		return okRes([]int{intOf(v)}, nil), nil
	case 9: // union operand (no state change)
		p := e.pairList(e.dctOp[op[1]-1])
		dd, err := e.call("mkdict", p)
		if err != nil {
			return fail(), err
		}
		var u starlark.Value
		if star {
			u, err = e.call("union", d, dd)
			if err != nil {
				return fail(), err
			}
		} else {
			u = d.Union(dd.(*starlark.Dict))
		}
		ks, vs := []int{}, []int{}
		for _, it := range u.(*starlark.Dict).Items() {
			ks = append(ks, keyID(it[0]))
			vs = append(vs, intOf(it[1]))
		}
		// the derived collection is a collection of its own: emptying it must succeed and must not be seen through
		// either operand (the next observation of the receiver compares it with the model)
		ddLen := dd.(*starlark.Dict).Len()
		if err := u.(*starlark.Dict).Clear(); err != nil {
			return fail(), fmt.Errorf("clearing the derived dict: %v", err)
		}
		if dd.(*starlark.Dict).Len() != ddLen {
			return fail(), fmt.Errorf("clearing d | e changed e")
		}
		return okRes(ks, vs), nil
	case 11: // add
		if star {
			_, err = e.call("add", s, e.k(op[1]))
		} else {
			err = s.Insert(e.k(op[1]))
		}
		return okRes(nil, nil), err
	case 12: // discard
		if star {
			_, err = e.call("discard", s, e.k(op[1]))
		} else {
			_, err = s.Delete(e.k(op[1]))
		}
		return okRes(nil, nil), err
	case 13: // remove (fails if missing)
		if star {
			_, err = e.call("remove", s, e.k(op[1]))
		} else {
			_, err = e.method(s, "remove", e.k(op[1]))
		}
		if err != nil {
			return fail(), nil
		}
		return okRes(nil, nil), nil
	case 14: // pop
		var v starlark.Value
		if star {
			v, err = e.call("spop", s)
		} else {
			v, err = e.method(s, "pop")
		}
		if err != nil {
			return fail(), nil
		}
		return okRes([]int{keyID(v)}, nil), nil
	case 15: // update operand
		t := e.keyList(e.setOp[op[1]-1])
		if star {
			var arg starlark.Value = t
			if (op[1]+s.Len())%2 == 1 {
				if arg, err = e.call("mktuple", t); err != nil {
					return fail(), err
				}
			}
			_, err = e.call("supdate", s, arg)
		} else {
			it := t.Iterate()
			err = s.InsertAll(it)
			it.Done()
		}
		return okRes(nil, nil), err
	case 16: // has
		if star {
			v, err := e.call("has", s, e.k(op[1]))
			if err != nil {
				return fail(), err
			}
			return okRes([]int{b2i(bool(v.(starlark.Bool)))}, nil), nil
		}
		f, err := s.Has(e.k(op[1]))
		return okRes([]int{b2i(f)}, nil), err
	case 17, 18, 19, 20, 21, 22:
		return e.algebra(s, op)
	}
	return fail(), fmt.Errorf("bad op %v", op)
}

func hasDup(t []int) bool {
	seen := map[int]bool{}
	for _, x := range t {
		if seen[x] {
			return true
		}
		seen[x] = true
	}
	return false
}

func (e *c12Env) algebra(s *starlark.Set, op []int) (c12Res, error) {
	tl := e.setOp[op[1]-1]
	t := e.keyList(tl)
	names := map[int]string{17: "sunion", 18: "sinter", 19: "sdiff", 20: "ssym", 21: "issubset", 22: "issuperset"}
	opers := map[int]string{17: "o_or", 18: "o_and", 19: "o_sub", 20: "o_xor", 21: "o_le", 22: "o_ge"}
	conv := func(v starlark.Value) c12Res {
		if b, ok := v.(starlark.Bool); ok {
			return okRes([]int{b2i(bool(b))}, nil)
		}
		r := okRes(iterKeys(v), nil)
		// (see op 9: a derived set is a collection of its own)
		if ds, ok := v.(*starlark.Set); ok && ds != s {
			if err := ds.Clear(); err != nil {
				panic(fmt.Sprintf("clearing the derived set: %v", err))
			}
		} else if ok {
			panic("the derived set IS the receiver")
		}
		return r
	}
	if e.route == "star" {
		// the operand of the method form is a list, a tuple or (without repeated keys) a dict iterated by its keys
		var arg starlark.Value = t
		switch kind := (op[0] + op[1] + s.Len()) % 3; {
		case kind == 1:
			tv, err := e.call("mktuple", t)
			if err != nil {
				return fail(), err
			}
			arg = tv
		case kind == 2 && !hasDup(tl):
			dv, err := e.call("mkkeys", t)
			if err != nil {
				return fail(), err
			}
			arg = dv
		}
		v, err := e.call(names[op[0]], s, arg)
		if err != nil {
			return fail(), err
		}
		r := conv(v)
		if !hasDup(tl) {
			// operator form with a set operand must agree with the method form
			ts, err := e.call("mkset", t)
			if err != nil {
				return fail(), err
			}
			v2, err := e.call(opers[op[0]], s, ts)
			if err != nil {
				return fail(), err
			}
			r2 := conv(v2)
			if fmt.Sprint(r) != fmt.Sprint(r2) {
				return r2, fmt.Errorf("operator form %s gives %v, method form %v", opers[op[0]], r2, r)
			}
		}
		return r, nil
	}
	it := t.Iterate()
	defer it.Done()
	switch op[0] {
	case 17:
		v, err := s.Union(it)
		if err != nil {
			return fail(), err
		}
		return conv(v), nil
	case 18:
		v, err := s.Intersection(it)
		if err != nil {
			return fail(), err
		}
		return conv(v), nil
	case 19:
		v, err := s.Difference(it)
		if err != nil {
			return fail(), err
		}
		return conv(v), nil
	case 20:
		v, err := s.SymmetricDifference(it)
		if err != nil {
			return fail(), err
		}
		return conv(v), nil
	case 21:
		b, err := s.IsSubset(it)
		return okRes([]int{b2i(b)}, nil), err
	default:
		b, err := s.IsSuperset(it)
		return okRes([]int{b2i(b)}, nil), err
	}
}

// observe returns the abstract state of the real collection: [[k, v], ...] in iteration order,
// after cross-checking every read API against it (len, membership/lookup of all keys, Keys, Items, Iterate).
func (e *c12Env) observe(d *starlark.Dict, s *starlark.Set) ([][]int, error) {
	out := [][]int{}
	if d != nil {
		items := d.Items()
		keys := d.Keys()
		it := iterKeys(d)
		if len(items) != d.Len() || len(keys) != d.Len() || len(it) != d.Len() {
			return nil, fmt.Errorf("Len %d, Items %d, Keys %d, Iterate %d", d.Len(), len(items), len(keys), len(it))
		}
		present := map[int]int{}
		for i, kv := range items {
			k, v := keyID(kv[0]), intOf(kv[1])
			if keyID(keys[i]) != k || it[i] != k {
				return nil, fmt.Errorf("Items/Keys/Iterate disagree at %d", i)
			}
			present[k] = v
			out = append(out, []int{k, v})
		}
		for i := 1; i < len(e.keys); i++ {
			v, found, err := d.Get(e.k(i))
			if err != nil {
				return nil, err
			}
			pv, in := present[i]
			if found != in || (found && intOf(v) != pv) {
				return nil, fmt.Errorf("Get(K%d) = %v,%v but Items say %v,%v", i, v, found, pv, in)
			}
			if e.route == "star" {
				hv, err := e.call("has", d, e.k(i))
				if err != nil || bool(hv.(starlark.Bool)) != in {
					return nil, fmt.Errorf("K%d in d = %v, want %v", i, hv, in)
				}
			}
		}
		if e.route == "star" {
			lv, err := e.call("length", d)
			if err != nil || intOf(lv) != d.Len() {
				return nil, fmt.Errorf("len(d) = %v, Len() = %d", lv, d.Len())
			}
		}
		return out, nil
	}
	it := iterKeys(s)
	if len(it) != s.Len() {
		return nil, fmt.Errorf("Len %d, Iterate %d", s.Len(), len(it))
	}
	present := map[int]bool{}
	for _, k := range it {
		present[k] = true
		out = append(out, []int{k, 0})
	}
	for i := 1; i < len(e.keys); i++ {
		f, err := s.Has(e.k(i))
		if err != nil || f != present[i] {
			return nil, fmt.Errorf("Has(K%d) = %v, want %v", i, f, present[i])
		}
	}
	return out, nil
}

type c12Edge struct {
	Path [][]int
	Al   [][]int
	Res  c12Res
}

func (r *c12Res) UnmarshalJSON(b []byte) error {
	var raw []json.RawMessage
	if err := json.Unmarshal(b, &raw); err != nil || len(raw) != 3 {
		return fmt.Errorf("bad res %s", b)
	}
	json.Unmarshal(raw[0], &r.OK)
	json.Unmarshal(raw[1], &r.A)
	json.Unmarshal(raw[2], &r.B)
	return nil
}

func (e *c12Edge) UnmarshalJSON(b []byte) error {
	var raw []json.RawMessage
	if err := json.Unmarshal(b, &raw); err != nil || len(raw) != 3 {
		return fmt.Errorf("bad edge %s", b)
	}
	if err := json.Unmarshal(raw[0], &e.Path); err != nil {
		return err
	}
	if err := json.Unmarshal(raw[1], &e.Al); err != nil {
		return err
	}
	return json.Unmarshal(raw[2], &e.Res)
}

func eqInts(a, b []int) bool {
	if len(a) != len(b) {
		return false
	}
	for i := range a {
		if a[i] != b[i] {
			return false
		}
	}
	return true
}

func eqPairs(a, b [][]int) bool {
	if len(a) != len(b) {
		return false
	}
	for i := range a {
		if !eqInts(a[i], b[i]) {
			return false
		}
	}
	return true
}

// replayEdge returns "" if the real collection follows the edge, else a description.
func (e *c12Env) replayEdge(mode string, ed *c12Edge) (what string, observed any) {
	defer func() {
		if r := recover(); r != nil {
			what = fmt.Sprintf("panic: %v", r)
		}
	}()
	var d *starlark.Dict
	var s *starlark.Set
	if mode == "dict" {
		d = starlark.NewDict(0)
	} else {
		s = starlark.NewSet(0)
	}
	n := len(ed.Path)
	for i, op := range ed.Path {
		res, err := e.apply(d, s, op)
		if i < n-1 {
			continue
		}
		if err != nil {
			return "error: " + err.Error(), res
		}
		if res.OK != ed.Res.OK || !eqInts(res.A, ed.Res.A) || !eqInts(res.B, ed.Res.B) {
			return "result", res
		}
	}
	st, err := e.observe(d, s)
	if err != nil {
		return "inconsistent reads: " + err.Error(), nil
	}
	if !eqPairs(st, ed.Al) {
		return "state", st
	}
	return "", nil
}

func init() {
	register("c12-replay", func(args []string) error {
		fs := flag.NewFlagSet("c12-replay", flag.ExitOnError)
		in := fs.String("in", "-", "edges, one JSON array per line")
		out := fs.String("out", "-", "mismatches ndjson")
		mode := fs.String("mode", "dict", "dict|set")
		operands := fs.String("operands", "", "JSON [setOperands, dictOperands, hashes]")
		fs.Parse(args)
		var ops []json.RawMessage
		if err := json.Unmarshal([]byte(*operands), &ops); err != nil || len(ops) != 3 {
			return fmt.Errorf("bad -operands")
		}
		var setOp [][]int
		var dctOp [][][]int
		var hashes []uint32
		json.Unmarshal(ops[0], &setOp)
		json.Unmarshal(ops[1], &dctOp)
		json.Unmarshal(ops[2], &hashes)
		r, err := openIn(*in)
		if err != nil {
			return err
		}
		defer r.Close()
		w, err := openOut(*out)
		if err != nil {
			return err
		}
		defer w.Close()
		nw := newNDWriter(w)
		defer nw.flush()
		envs := map[string]*c12Env{}
		for _, route := range []string{"go", "star"} {
			e, err := newC12Env(hashes, setOp, dctOp, route)
			if err != nil {
				return err
			}
			envs[route] = e
		}
		n, steps := 0, 0
		err = readCases(r, func(raw json.RawMessage) error {
			var ed c12Edge
			if err := json.Unmarshal(raw, &ed); err != nil {
				return err
			}
			n++
			steps += len(ed.Path)
			for _, route := range []string{"go", "star"} {
				if what, obs := envs[route].replayEdge(*mode, &ed); what != "" {
					nw.write(obj{"n": n, "route": route, "what": what, "observed": obs, "edge": raw})
				}
			}
			return nil
		})
		fmt.Fprintf(os.Stderr, "replayed %d edges, %d steps\n", n, steps)
		return err
	})
}


// ---------------------------------------------------------------- c12-seqs (code -> spec)

// all sequences of exactly L operations over the reduced alphabet (see spec/C12Trace.tla),
// executed on a fresh dict / set; the content is observed after every step.
func c12Seqs(args []string) error {
	fs := flag.NewFlagSet("c12-seqs", flag.ExitOnError)
	L := fs.Int("L", 5, "sequence length")
	out := fs.String("out", "-", "")
	sample := fs.Float64("sample", 1.0, "fraction of sequences to record")
	fs.Parse(args)
	const NK = 5
	hashes := []uint32{7, 7, 7, 3, 0}
	keys := make([]hkey, NK+1)
	for i, h := range hashes {
		keys[i+1] = hkey{i + 1, h}
	}
	w, err := openOut(*out)
	if err != nil {
		return err
	}
	defer w.Close()
	nw := newNDWriter(w)
	defer nw.flush()
	rnd := rand.New(rand.NewSource(seed()))
	th := &starlark.Thread{}
	nops := 2*NK + 2
	ops := make([]int, *L)
	id := 0
	var rec func(pos int)
	run := func(isSet bool) {
		var d *starlark.Dict
		var s *starlark.Set
		if isSet {
			s = starlark.NewSet(0)
		} else {
			d = starlark.NewDict(0)
		}
		obs := [][][]int{}
		res := [][]int{}
		// a panic of the table under test while it is operated or observed is an observation, not a harness failure
		defer func() {
			if p := recover(); p != nil {
				id++
				nw.write(obj{"id": id, "set": b2i(isSet), "ops": append([]int{}, ops...), "obs": obs, "res": res, "panic": fmt.Sprint(p)})
			}
		}()
		for n, c := range ops {
			r := []int{}
			switch {
			case c <= NK:
				if isSet {
					s.Insert(keys[c])
				} else {
					d.SetKey(keys[c], starlark.MakeInt(n+1))
				}
			case c <= 2*NK:
				if isSet {
					s.Delete(keys[c-NK])
				} else {
					m, _ := d.Attr("pop")
					v, err := starlark.Call(th, m, starlark.Tuple{keys[c-NK], starlark.None}, nil)
					if err == nil && v != starlark.None {
						r = []int{intOf(v)}
					}
				}
			case c == 2*NK+1:
				if isSet {
					m, _ := s.Attr("pop")
					v, err := starlark.Call(th, m, nil, nil)
					if err != nil {
						r = []int{-1}
					} else {
						r = []int{keyID(v)}
					}
				} else {
					m, _ := d.Attr("popitem")
					v, err := starlark.Call(th, m, nil, nil)
					if err != nil {
						r = []int{-1}
					} else {
						t := v.(starlark.Tuple)
						r = []int{keyID(t[0]), intOf(t[1])}
					}
				}
			default:
				if isSet {
					s.Clear()
				} else {
					d.Clear()
				}
			}
			res = append(res, r)
			st := [][]int{}
			if isSet {
				for _, k := range iterKeys(s) {
					st = append(st, []int{k, 0})
				}
			} else {
				for _, kv := range d.Items() {
					st = append(st, []int{keyID(kv[0]), intOf(kv[1])})
				}
			}
			obs = append(obs, st)
		}
		id++
		nw.write(obj{"id": id, "set": b2i(isSet), "ops": append([]int{}, ops...), "obs": obs, "res": res})
	}
	total := 0
	rec = func(pos int) {
		if pos == *L {
			total++
			if *sample >= 1.0 || rnd.Float64() < *sample {
				run(false)
				run(true)
			}
			return
		}
		for c := 1; c <= nops; c++ {
			ops[pos] = c
			rec(pos + 1)
		}
	}
	rec(0)
	fmt.Fprintf(os.Stderr, "enumerated %d sequences, recorded %d\n", total, id)
	return nil
}

// ---------------------------------------------------------------- c12-hist (code -> spec)

// long random histories over keys with adversarial hash distributions
func c12Hist(args []string) error {
	fs := flag.NewFlagSet("c12-hist", flag.ExitOnError)
	n := fs.Int("n", 3000, "operations per history")
	nkeys := fs.Int("keys", 600, "size of the key universe")
	out := fs.String("out", "-", "")
	part := fs.String("part", "all", "random | threshold | all")
	fs.Parse(args)
	w, err := openOut(*out)
	if err != nil {
		return err
	}
	defer w.Close()
	nw := newNDWriter(w)
	defer nw.flush()
	// a panic of the table under test ends the history with a "panic" event (an observation, not a harness failure)
	defer func() {
		if p := recover(); p != nil {
			nw.write(obj{"n": -1, "op": -1, "panic": fmt.Sprint(p)})
		}
	}()
	rnd := rand.New(rand.NewSource(seed()))
	th := &starlark.Thread{}
	dists := []func(i int) uint32{
		func(i int) uint32 { return 12345 },                  // all one full hash
		func(i int) uint32 { return uint32(i) << 12 },        // equal modulo every table size up to 4096
		func(i int) uint32 { return uint32(i % 2) },          // hashes 0 and 1 (0 is stored as 1)
		func(i int) uint32 { return uint32(i) * 2654435761 }, // spread
		func(i int) uint32 { return uint32(i%7) << 20 },      // seven classes colliding in small tables
	}
	ev := 0
	for di, dist := range dists {
		if *part == "threshold" {
			break
		}
		keys := make([]hkey, *nkeys+1)
		for i := 1; i <= *nkeys; i++ {
			keys[i] = hkey{i, dist(i)}
		}
		d := starlark.NewDict(0)
		emit := func(op, k, v int, res []int) {
			ev++
			o := obj{"n": ev, "dist": di, "op": op, "k": k, "v": v, "res": res, "len": d.Len()}
			ks := d.Keys()
			if len(ks) > 0 {
				o["first"] = keyID(ks[0])
				o["last"] = keyID(ks[len(ks)-1])
			} else {
				o["first"] = 0
				o["last"] = 0
			}
			if ev%256 == 0 {
				o["order"] = iterKeys(d)
			}
			nw.write(o)
		}
		emit(0, 0, 0, []int{})
		// phases: grow, churn, shrink, regrow
		for j := 0; j < *n; j++ {
			phase := j * 4 / *n
			k := 1 + rnd.Intn(*nkeys)
			r := rnd.Intn(100)
			insBias := []int{75, 45, 15, 60}[phase]
			switch {
			case r < insBias:
				d.SetKey(keys[k], starlark.MakeInt(j))
				emit(1, k, j, []int{})
			case r < insBias+18 || (phase == 2 && r < 88):
				v, found, _ := d.Delete(keys[k])
				if found {
					emit(2, k, 0, []int{intOf(v)})
				} else {
					emit(2, k, 0, []int{})
				}
			case r < 92:
				v, found, _ := d.Get(keys[k])
				if found {
					emit(5, k, 0, []int{intOf(v)})
				} else {
					emit(5, k, 0, []int{})
				}
			case r < 96:
				m, _ := d.Attr("setdefault")
				v, err := starlark.Call(th, m, starlark.Tuple{keys[k], starlark.MakeInt(j)}, nil)
				if err != nil {
					emit(6, k, j, []int{-1})
				} else {
					emit(6, k, j, []int{intOf(v)})
				}
			case r < 99 || d.Len() < 50:
				m, _ := d.Attr("popitem")
				v, err := starlark.Call(th, m, nil, nil)
				if err != nil {
					emit(3, 0, 0, []int{-1})
				} else {
					t := v.(starlark.Tuple)
					emit(3, 0, 0, []int{keyID(t[0]), intOf(t[1])})
				}
			default:
				if rnd.Intn(4) == 0 {
					d.Clear()
					emit(4, 0, 0, []int{})
				} else {
					d.SetKey(keys[k], starlark.MakeInt(j))
					emit(1, k, j, []int{})
				}
			}
		}
	}
	// Threshold scenarios: the table doubles when an insertion finds len >= 6.5 x #chains (13, 26, 52).
	// For every way of distributing the live keys over the hash residues (all compositions for the 2 -> 4
	// doubling, seeded samples biased towards exactly full chains for 4 -> 8 and 8 -> 16), insert one more key
	// of every residue, then look every key up and record the complete order.
	if *part != "random" {
		d := starlark.NewDict(0)
		forceOrder := false
		emit := func(op, k, v int, res []int) {
			ev++
			o := obj{"n": ev, "dist": 9, "op": op, "k": k, "v": v, "res": res, "len": d.Len()}
			ks := d.Keys()
			if len(ks) > 0 {
				o["first"] = keyID(ks[0])
				o["last"] = keyID(ks[len(ks)-1])
			} else {
				o["first"] = 0
				o["last"] = 0
			}
			if forceOrder || ev%256 == 0 {
				o["order"] = iterKeys(d)
			}
			nw.write(o)
		}
		scenario := func(classes int, counts []int, extra int, holes int) {
			d = starlark.NewDict(0)
			emit(0, 0, 0, []int{})
			// key id = class + classes*j + 1, hash = class + 64*j: equal low bits within a class
			var keys []hkey
			for c, n := range counts {
				for j := 0; j < n; j++ {
					keys = append(keys, hkey{c + classes*j + 1, uint32(c + 64*j)})
				}
			}
			rnd.Shuffle(len(keys), func(i, j int) { keys[i], keys[j] = keys[j], keys[i] })
			for i, k := range keys {
				d.SetKey(k, starlark.MakeInt(i))
				emit(1, k.id, i, []int{})
			}
			// optional churn just below the threshold: delete and re-insert (leaves holes in the old chains)
			for h := 0; h < holes && h < len(keys); h++ {
				k := keys[rnd.Intn(len(keys))]
				v, found, _ := d.Delete(k)
				if found {
					emit(2, k.id, 0, []int{intOf(v)})
				} else {
					emit(2, k.id, 0, []int{})
				}
				d.SetKey(k, starlark.MakeInt(1000+h))
				emit(1, k.id, 1000+h, []int{})
			}
			nk := hkey{extra + classes*40 + 1, uint32(extra + 64*40)}
			d.SetKey(nk, starlark.MakeInt(777))
			emit(1, nk.id, 777, []int{})
			all := append(append([]hkey{}, keys...), nk)
			for i, k := range all {
				forceOrder = i == len(all)-1
				v, found, _ := d.Get(k)
				if found {
					emit(5, k.id, 0, []int{intOf(v)})
				} else {
					emit(5, k.id, 0, []int{})
				}
			}
			forceOrder = false
			// a second insertion of the same key must update in place
			d.SetKey(nk, starlark.MakeInt(778))
			forceOrder = true
			emit(1, nk.id, 778, []int{})
			forceOrder = false
		}
		// all compositions of 13 into 4 residues (2 -> 4 chains)
		for a := 0; a <= 13; a++ {
			for b := 0; a+b <= 13; b++ {
				for c := 0; a+b+c <= 13; c++ {
					for extra := 0; extra < 4; extra++ {
						scenario(4, []int{a, b, c, 13 - a - b - c}, extra, 0)
					}
				}
			}
		}
		// sampled compositions of 26 into 8 residues and of 52 into 16, biased towards full chains
		samples := *n / 4
		for s := 0; s < samples; s++ {
			classes, total := 8, 26
			if s%3 == 2 {
				classes, total = 16, 52
			}
			counts := make([]int, classes)
			target := rnd.Intn(classes)
			left := total
			if rnd.Intn(3) != 0 {
				counts[target] = 8 * (1 + rnd.Intn(2))
				if counts[target] > left {
					counts[target] = 8
				}
				left -= counts[target]
			}
			for left > 0 {
				c := rnd.Intn(classes)
				if c == target && rnd.Intn(3) != 0 {
					continue
				}
				counts[c]++
				left--
			}
			extra := target
			if rnd.Intn(4) == 0 {
				extra = rnd.Intn(classes)
			}
			scenario(classes, counts, extra, rnd.Intn(3))
		}
		// Shrink-and-clear scenarios: a table that has grown to several buckets is emptied down to a few live keys
		// (or refilled with a few after a first clear) and cleared; none of the old keys may remain findable, and
		// re-inserted keys are new keys.
		shrink := func(total, keep int, twice bool, mul uint32) {
			d = starlark.NewDict(0)
			emit(0, 0, 0, []int{})
			keys := make([]hkey, total)
			for i := range keys {
				keys[i] = hkey{i + 1, uint32(i+1) * mul}
			}
			for i, k := range keys {
				d.SetKey(k, starlark.MakeInt(i))
				emit(1, k.id, i, []int{})
			}
			lookups := func() {
				for i, k := range keys {
					forceOrder = i == len(keys)-1
					v, found, _ := d.Get(k)
					if found {
						emit(5, k.id, 0, []int{intOf(v)})
					} else {
						emit(5, k.id, 0, []int{})
					}
				}
				forceOrder = false
			}
			if twice {
				d.Clear()
				emit(4, 0, 0, []int{})
				for i := 0; i < keep; i++ {
					k := keys[rnd.Intn(total)]
					d.SetKey(k, starlark.MakeInt(500+i))
					emit(1, k.id, 500+i, []int{})
				}
			} else {
				perm := rnd.Perm(total)
				for _, j := range perm[:total-keep] {
					v, found, _ := d.Delete(keys[j])
					if found {
						emit(2, keys[j].id, 0, []int{intOf(v)})
					} else {
						emit(2, keys[j].id, 0, []int{})
					}
				}
			}
			d.Clear()
			emit(4, 0, 0, []int{})
			lookups()
			for i := 0; i < 4 && i < total; i++ {
				k := keys[total-1-i]
				d.SetKey(k, starlark.MakeInt(900+i))
				forceOrder = true
				emit(1, k.id, 900+i, []int{})
				forceOrder = false
			}
			lookups()
			v, found, _ := d.Delete(keys[total-1])
			if found {
				emit(2, keys[total-1].id, 0, []int{intOf(v)})
			} else {
				emit(2, keys[total-1].id, 0, []int{})
			}
			lookups()
		}
		for _, total := range []int{9, 14, 20, 27, 40, 60, 120} {
			for _, keep := range []int{0, 1, 2, 3, 5, 8} {
				if keep >= total {
					continue
				}
				for _, mul := range []uint32{1, 2654435761, 64} {
					shrink(total, keep, false, mul)
					shrink(total, keep, true, mul)
				}
			}
		}
	}
	fmt.Fprintf(os.Stderr, "logged %d events\n", ev)
	return nil
}

func init() {
	register("c12-seqs", c12Seqs)
	register("c12-hist", c12Hist)
}

var _ = sort.Ints
