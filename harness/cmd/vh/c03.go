package main

// C03 "Execution is deterministic" (code -> spec, P-A).
//
//   vh c03-run -in progs.ndjson -out runs.ndjson [-procs 3] [-gor 8] [-groups 2] [-par N] [-chunk 1]
//   vh c03-child            (re-exec'd by c03-run; header + programs on stdin, runs on stdout)
//
// The first input line is a header {"pool":[literal sources], "shared_d":[[lit,val]..], "shared_s":[lit..]}
// defining the key pool of the order-exposing family and the frozen values that
// every run receives in its predeclared environment (SHARED_D, SHARED_S, SHARED_L,
// SHARED_ST).  Every following line is a program
//   {"id", "src", "opts":{..}|absent, "steps":N, "mods":{"name.star": src}}.
// For every program the command records one observation per run:
//   kind "proc"  k=0..procs-1   child process k (re-exec of this binary: its own maphash seed); a child
//                               executes a chunk of -chunk programs, in another order for every k,
//                               so the first program of a chunk runs in a process that executed nothing before
//   kind "seq"   k=0,1          this process, one OS thread, new starlark.Thread; pass 0 walks the
//                               corpus forwards, pass 1 backwards (so different executions precede)
//   kind "reuse" k=0            this process, ONE starlark.Thread reused for the whole corpus
//   kind "conc"  k=0..gor-1     gor goroutines locked to OS threads, released together, while
//                               other groups execute other programs; all share the predeclared values
// Observation: Print transcript, trace() effects, canonical serialisation of the globals
// (iteration order of every reachable list/dict/set, aliasing by object ids, struct fields in
// AttrNames order), StringDict.String(), AttrNames()/dir() of every value kind met, error text,
// EvalError.Backtrace(), ExecutionSteps(), and the compact records of the ob() probe used by the
// order-exposing family (keys decoded to pool indices).  A wall-clock watchdog (C03_WATCHDOG
// seconds, default 20) cancels runs whose single steps are too expensive; such runs are marked
// "timeout" and their program is not judged.  C03_TIMING=1 reports slow programs on stderr.

import (
	"bytes"
	"encoding/json"
	"flag"
	"fmt"
	"math"
	"math/rand"
	"os"
	"os/exec"
	"runtime"
	"strconv"
	"strings"
	"sync"
	"sync/atomic"
	gotime "time"

	sjson "go.starlark.net/lib/json"
	smath "go.starlark.net/lib/math"
	stime "go.starlark.net/lib/time"
	"go.starlark.net/resolve"
	"go.starlark.net/starlark"
	"go.starlark.net/starlarkstruct"
	"go.starlark.net/syntax"
)

type c03Header struct {
	Pool    []string `json:"pool"`
	SharedD [][2]int `json:"shared_d"`
	SharedS []int    `json:"shared_s"`
}

type c03Prog struct {
	ID    int               `json:"id"`
	Src   string            `json:"src"`
	Opts  *optVec           `json:"opts"`
	Steps uint64            `json:"steps"`
	Mods  map[string]string `json:"mods"`
}

// one record of the ob() probe
type c03Ob struct {
	N int   `json:"n"`
	C []any `json:"c"` // content: dict [[lit,val]..], set [lit..]
	R []int `json:"r"` // decoded result of the operation
	S []int `json:"s"` // bytes of str(x)
	L []int `json:"l"` // keys of the in-language listing
}

type c03Obs struct {
	OK      bool    `json:"ok"`
	Static  bool    `json:"static"`
	Printed string  `json:"printed"`
	Effects string  `json:"effects"`
	Globals string  `json:"globals"`
	GStr    string  `json:"gstr"`
	Dirs    string  `json:"dirs"`
	Err     string  `json:"err"`
	BT      string  `json:"bt"`
	Steps   int     `json:"steps"`
	Ord     []c03Ob `json:"ord"`
	Timeout bool    `json:"timeout,omitempty"` // the wall-clock watchdog fired: the run is not comparable
	// structured extras, first sequential run only
	DirL [][]any `json:"dirl,omitempty"` // [type, [names of dir(x) as byte arrays]]
	Hash [][]any `json:"hash,omitempty"` // [bytes of s, hi16, lo16] for every trace("hash", s, hash(s))
}

type c03Run struct {
	ID   int    `json:"id"`
	Kind string `json:"kind"`
	K    int    `json:"k"`
	FP   string `json:"fp"` // fingerprint of this process's string-hash seed
	Obs  c03Obs `json:"obs"`
}

// per-run host state, reached from built-ins through the thread
type c03State struct {
	env     *c03Env
	printed []string
	effects []string
	ord     []c03Ob
	hash    [][]any
	full    bool
	loaded  map[string]*c03Loaded
	prog    *c03Prog
	lsteps  uint64
	kinds   *c03Kinds
}

type c03Loaded struct {
	g   starlark.StringDict
	err error
}

type c03Holder struct {
	st     *c03State
	shared *starlark.Program // non-nil: initialise this compiled program instead of compiling the source
}

// the environment of one process
type c03Env struct {
	hdr    c03Header
	pool   []starlark.Value
	lit    map[string]int // canonical text of a pool value -> 1-based index
	predec starlark.StringDict
}

var c03Watchdog = func() gotime.Duration {
	if n, err := strconv.Atoi(os.Getenv("C03_WATCHDOG")); err == nil && n > 0 {
		return gotime.Duration(n) * gotime.Second
	}
	return 20 * gotime.Second
}()

func seedFingerprint() string {
	h1, _ := starlark.String("verif-seed-probe-0123456789").Hash()
	h2, _ := starlark.String("another-long-string-for-the-probe").Hash()
	return fmt.Sprintf("%08x%08x", h1, h2)
}

// NORES: what an order-exposing program passes to ob() when an operation had no result
// (None itself is a legal set element and dict key)
var c03NoRes = starlark.NewBuiltin("NORES", func(*starlark.Thread, *starlark.Builtin, starlark.Tuple, []starlark.Tuple) (starlark.Value, error) {
	return starlark.None, nil
})

func c03State0(th *starlark.Thread) *c03State { return th.Local("c03").(*c03Holder).st }

func newC03Env(hdr c03Header) (*c03Env, error) {
	e := &c03Env{hdr: hdr, lit: map[string]int{}}
	th := &starlark.Thread{Name: "pool"}
	for i, src := range hdr.Pool {
		v, err := starlark.EvalOptions((*optVec)(nil).fileOptions(), th, "pool", src, nil)
		if err != nil {
			return nil, fmt.Errorf("pool literal %d %q: %v", i+1, src, err)
		}
		e.pool = append(e.pool, v)
		k := keyText(v)
		if _, dup := e.lit[k]; dup {
			return nil, fmt.Errorf("pool literal %d %q is a duplicate", i+1, src)
		}
		e.lit[k] = i + 1
	}
	sd := starlark.NewDict(len(hdr.SharedD))
	for _, kv := range hdr.SharedD {
		if err := sd.SetKey(e.pool[kv[0]-1], starlark.MakeInt(kv[1])); err != nil {
			return nil, err
		}
	}
	ss := starlark.NewSet(len(hdr.SharedS))
	sl := []starlark.Value{}
	for _, k := range hdr.SharedS {
		if err := ss.Insert(e.pool[k-1]); err != nil {
			return nil, err
		}
		sl = append(sl, e.pool[k-1])
	}
	shl := starlark.NewList(sl)
	sst := starlarkstruct.FromStringDict(starlarkstruct.Default, starlark.StringDict{
		"shared_dictionary": sd, "shared_set_value": ss, "shared_list_value": shl,
		"zeta": starlark.MakeInt(26), "alpha": starlark.MakeInt(1), "mu": starlark.String("m")})
	e.predec = starlark.StringDict{
		"json":      sjson.Module,
		"math":      smath.Module,
		"time":      stime.Module,
		"struct":    starlark.NewBuiltin("struct", starlarkstruct.Make),
		"module":    starlark.NewBuiltin("module", starlarkstruct.MakeModule),
		"trace":     starlark.NewBuiltin("trace", c03Trace),
		"ob":        starlark.NewBuiltin("ob", c03Probe),
		"NORES":     c03NoRes,
		"SHARED_D":  sd,
		"SHARED_S":  ss,
		"SHARED_L":  shl,
		"SHARED_ST": sst,
	}
	e.predec.Freeze()
	return e, nil
}

// keyText identifies a pool value by type and exact value.
func keyText(v starlark.Value) string {
	c := &c03Canon{}
	c.val(v)
	return c.sb.String()
}

func c03Trace(th *starlark.Thread, b *starlark.Builtin, args starlark.Tuple, kwargs []starlark.Tuple) (starlark.Value, error) {
	st := c03State0(th)
	c := &c03Canon{kinds: st.kinds}
	c.sb.WriteString("trace(")
	for i, a := range args {
		if i > 0 {
			c.sb.WriteString(", ")
		}
		c.val(a)
	}
	for _, kv := range kwargs {
		c.sb.WriteString(", ")
		c.sb.WriteString(string(kv[0].(starlark.String)))
		c.sb.WriteString("=")
		c.val(kv[1])
	}
	c.sb.WriteString(")")
	st.effects = append(st.effects, c.sb.String())
	// trace("hash", s, hash(s)): structured copy for the hash oracle
	if st.full && len(args) == 3 {
		if tag, ok := args[0].(starlark.String); ok && tag == "hash" {
			if s, ok := args[1].(starlark.String); ok {
				if h, ok := args[2].(starlark.Int); ok {
					if x, ok := h.Int64(); ok && x >= math.MinInt32 && x <= math.MaxInt32 {
						u := uint32(int32(x))
						st.hash = append(st.hash, []any{byteArr(string(s)), int(u >> 16), int(u & 0xffff)})
					}
				}
			}
		}
	}
	if len(args) > 0 {
		return args[0], nil
	}
	return starlark.None, nil
}

func (e *c03Env) litOf(v starlark.Value) int { return e.lit[keyText(v)] }

func smallInt(v starlark.Value) int {
	if i, ok := v.(starlark.Int); ok {
		if x, ok := i.Int64(); ok && x >= 0 && x < 1<<30 {
			return int(x)
		}
	}
	return -1
}

// ob(n, x, mode, res, lmode, listing): probe of the order-exposing family.
// x is the dict/set just operated on; mode says how to decode res:
// "" none, "v" value, "k" key, "kv" (key, value) pair; the sentinel NORES decodes to [].
// listing is an in-language enumeration of x: keys (lmode "k") or (key, value) pairs (lmode "kv").
func c03Probe(th *starlark.Thread, b *starlark.Builtin, args starlark.Tuple, kwargs []starlark.Tuple) (starlark.Value, error) {
	st := c03State0(th)
	e := st.env
	var n int
	var x, res, listing starlark.Value
	var mode, lmode string
	if err := starlark.UnpackPositionalArgs("ob", args, kwargs, 6, &n, &x, &mode, &res, &lmode, &listing); err != nil {
		return nil, err
	}
	o := c03Ob{N: n, C: []any{}, R: []int{}, L: []int{}}
	switch x := x.(type) {
	case *starlark.Dict:
		for _, it := range x.Items() {
			o.C = append(o.C, []int{e.litOf(it[0]), smallInt(it[1])})
		}
	case *starlark.Set:
		it := x.Iterate()
		var k starlark.Value
		for it.Next(&k) {
			o.C = append(o.C, e.litOf(k))
		}
		it.Done()
	default:
		return nil, fmt.Errorf("ob: got %s", x.Type())
	}
	o.S = byteArr(x.String())
	if res != starlark.Value(c03NoRes) {
		switch mode {
		case "v":
			o.R = []int{smallInt(res)}
		case "k":
			o.R = []int{e.litOf(res)}
		case "kv":
			t, ok := res.(starlark.Tuple)
			if !ok || len(t) != 2 {
				return nil, fmt.Errorf("ob: kv result is %s", res.String())
			}
			o.R = []int{e.litOf(t[0]), smallInt(t[1])}
		default:
			return nil, fmt.Errorf("ob: mode %q with a result", mode)
		}
	}
	if seq, ok := listing.(starlark.Iterable); ok {
		it := seq.Iterate()
		var k starlark.Value
		for it.Next(&k) {
			if lmode == "kv" {
				if t, ok := k.(starlark.Tuple); ok && len(t) == 2 {
					o.L = append(o.L, e.litOf(t[0]))
				} else {
					o.L = append(o.L, 0)
				}
			} else {
				o.L = append(o.L, e.litOf(k))
			}
		}
		it.Done()
	}
	st.ord = append(st.ord, o)
	return starlark.None, nil
}

// ---------------------------------------------------------------- canonical text

type c03Kinds struct {
	order []string
	first map[string]starlark.Value
}

func (k *c03Kinds) note(v starlark.Value) {
	if k == nil {
		return
	}
	t := v.Type()
	if _, ok := k.first[t]; !ok {
		if k.first == nil {
			k.first = map[string]starlark.Value{}
		}
		k.first[t] = v
		k.order = append(k.order, t)
	}
}

type c03Canon struct {
	sb    strings.Builder
	ids   map[any]int
	kinds *c03Kinds
	depth int
}

func (c *c03Canon) ref(key any) (int, bool) {
	if c.ids == nil {
		c.ids = map[any]int{}
	}
	if id, ok := c.ids[key]; ok {
		return id, true
	}
	id := len(c.ids) + 1
	c.ids[key] = id
	return id, false
}

func (c *c03Canon) val(v starlark.Value) {
	c.depth++
	defer func() { c.depth-- }()
	if c.depth > 150 {
		c.sb.WriteString("<deep>")
		return
	}
	if v == nil {
		c.sb.WriteString("<nil>")
		return
	}
	c.kinds.note(v)
	w := &c.sb
	switch v := v.(type) {
	case starlark.NoneType:
		w.WriteString("None")
	case starlark.Bool:
		w.WriteString(v.String())
	case starlark.Int:
		w.WriteString("i")
		w.WriteString(v.String())
	case starlark.Float:
		fmt.Fprintf(w, "f%016x", math.Float64bits(float64(v)))
	case starlark.String:
		w.WriteString(strconv.QuoteToASCII(string(v)))
	case starlark.Bytes:
		w.WriteString("b")
		w.WriteString(strconv.QuoteToASCII(string(v)))
	case *starlark.List:
		id, seen := c.ref(v)
		if seen {
			fmt.Fprintf(w, "<ref %d>", id)
			return
		}
		fmt.Fprintf(w, "[#%d", id)
		for i := 0; i < v.Len(); i++ {
			w.WriteString(" ")
			c.val(v.Index(i))
		}
		w.WriteString("]")
	case starlark.Tuple:
		w.WriteString("(")
		for i, x := range v {
			if i > 0 {
				w.WriteString(" ")
			}
			c.val(x)
		}
		w.WriteString(")")
	case *starlark.Dict:
		id, seen := c.ref(v)
		if seen {
			fmt.Fprintf(w, "<ref %d>", id)
			return
		}
		fmt.Fprintf(w, "{#%d", id)
		for _, it := range v.Items() {
			w.WriteString(" ")
			c.val(it[0])
			w.WriteString(":")
			c.val(it[1])
		}
		w.WriteString("}")
	case *starlark.Set:
		id, seen := c.ref(v)
		if seen {
			fmt.Fprintf(w, "<ref %d>", id)
			return
		}
		fmt.Fprintf(w, "set#%d(", id)
		it := v.Iterate()
		var x starlark.Value
		for i := 0; it.Next(&x); i++ {
			if i > 0 {
				w.WriteString(" ")
			}
			c.val(x)
		}
		it.Done()
		w.WriteString(")")
	case *starlarkstruct.Struct:
		id, seen := c.ref(v)
		if seen {
			fmt.Fprintf(w, "<ref %d>", id)
			return
		}
		fmt.Fprintf(w, "struct#%d<", id)
		c.val(v.Constructor())
		w.WriteString(">(")
		for i, n := range v.AttrNames() { // order as listed by the implementation
			if i > 0 {
				w.WriteString(" ")
			}
			w.WriteString(n)
			w.WriteString("=")
			a, err := v.Attr(n)
			if err != nil || a == nil {
				w.WriteString("<noattr>")
			} else {
				c.val(a)
			}
		}
		w.WriteString(")")
	case *starlarkstruct.Module:
		fmt.Fprintf(w, "<module %s>", strconv.QuoteToASCII(v.Name))
	case *starlark.Function:
		id, seen := c.ref(v)
		if seen {
			fmt.Fprintf(w, "<ref %d>", id)
			return
		}
		fmt.Fprintf(w, "<function#%d %s %s", id, v.Name(), v.Position().String())
		for i := 0; i < v.NumParams(); i++ {
			if d := v.ParamDefault(i); d != nil {
				n, _ := v.Param(i)
				w.WriteString(" ")
				w.WriteString(n)
				w.WriteString("=")
				c.val(d)
			}
		}
		for i := 0; i < v.NumFreeVars(); i++ {
			bnd, fv := v.FreeVar(i)
			w.WriteString(" ^")
			w.WriteString(bnd.Name)
			w.WriteString("=")
			if fv == nil {
				w.WriteString("<unset>")
			} else {
				c.val(fv)
			}
		}
		w.WriteString(">")
	case *starlark.Builtin:
		fmt.Fprintf(w, "<builtin %s", v.Name())
		if r := v.Receiver(); r != nil {
			w.WriteString(" of ")
			c.val(r)
		}
		w.WriteString(">")
	default:
		fmt.Fprintf(w, "<%s %s>", v.Type(), strconv.QuoteToASCII(safeString(v)))
	}
}

// ---------------------------------------------------------------- one execution

func (e *c03Env) newThread(h *c03Holder) *starlark.Thread {
	th := &starlark.Thread{Name: "c03"}
	th.Print = func(t *starlark.Thread, msg string) {
		st := c03State0(t)
		st.printed = append(st.printed, msg)
	}
	th.Load = c03Load
	th.SetLocal("c03", h)
	stime.SetNow(th, func() (gotime.Time, error) { return fixedNow, nil })
	return th
}

func c03Load(th *starlark.Thread, module string) (starlark.StringDict, error) {
	st := c03State0(th)
	if l, ok := st.loaded[module]; ok {
		if l == nil {
			return nil, fmt.Errorf("cycle in load graph")
		}
		return l.g, l.err
	}
	src, ok := st.prog.Mods[module]
	if !ok {
		return nil, fmt.Errorf("no such module %q", module)
	}
	st.loaded[module] = nil
	h := th.Local("c03").(*c03Holder)
	th2 := st.env.newThread(h)
	th2.SetMaxExecutionSteps(st.budget())
	g, err := starlark.ExecFileOptions(st.prog.Opts.fileOptions(), th2, module, src, st.env.predec)
	st.lsteps += th2.ExecutionSteps()
	st.loaded[module] = &c03Loaded{g, err}
	return g, err
}

func (st *c03State) budget() uint64 {
	if st.prog.Steps == 0 {
		return 300000
	}
	return st.prog.Steps
}

func quoteList(xs []string) string {
	var sb strings.Builder
	for _, x := range xs {
		sb.WriteString(strconv.QuoteToASCII(x))
		sb.WriteString("\n")
	}
	return sb.String()
}

// exec runs p once on th (a fresh thread, or the reused one whose holder is h).
func (e *c03Env) exec(p *c03Prog, th *starlark.Thread, h *c03Holder, full bool) (obs c03Obs) {
	st := &c03State{env: e, prog: p, full: full, loaded: map[string]*c03Loaded{}, kinds: &c03Kinds{}}
	h.st = st
	th.Uncancel()
	steps0 := th.ExecutionSteps()
	th.SetMaxExecutionSteps(steps0 + st.budget())
	var g starlark.StringDict
	var err error
	// wall-clock watchdog: the step budget does not bound the cost of one step (big-integer or
	// string growth); a run stopped by the watchdog is marked and its program is not judged
	done := make(chan struct{})
	var timedOut atomic.Bool
	go func() {
		select {
		case <-done:
		case <-gotime.After(c03Watchdog):
			timedOut.Store(true)
			th.Cancel("c03 watchdog")
		}
	}()
	func() {
		defer func() {
			if r := recover(); r != nil {
				err = fmt.Errorf("GO PANIC: %v", r)
			}
		}()
		if sp := h.shared; sp != nil {
			// one compiled program shared by several goroutines (the host compiles once and initialises many times)
			g, err = sp.Init(th, e.predec)
		} else {
			g, err = starlark.ExecFileOptions(p.Opts.fileOptions(), th, "prog.star", p.Src, e.predec)
		}
	}()
	close(done)
	obs.Timeout = timedOut.Load()
	obs.Steps = int(th.ExecutionSteps()-steps0) + int(st.lsteps)
	obs.OK = err == nil
	if err != nil {
		switch er := err.(type) {
		case *starlark.EvalError:
			obs.Err = strconv.QuoteToASCII(er.Msg)
			obs.BT = strconv.QuoteToASCII(er.Backtrace())
		case resolve.ErrorList:
			obs.Static = true
			parts := []string{}
			for _, x := range er {
				parts = append(parts, x.Error())
			}
			obs.Err = strconv.QuoteToASCII(strings.Join(parts, "\n"))
		case syntax.Error:
			obs.Static = true
			obs.Err = strconv.QuoteToASCII(er.Error())
		default:
			obs.Static = true
			obs.Err = strconv.QuoteToASCII(err.Error())
		}
	}
	// globals in the order StringDict.Keys lists them
	c := &c03Canon{kinds: st.kinds}
	for _, name := range g.Keys() {
		c.sb.WriteString(name)
		c.sb.WriteString(" = ")
		c.val(g[name])
		c.sb.WriteString("\n")
	}
	obs.Globals = c.sb.String()
	func() {
		defer func() {
			if r := recover(); r != nil {
				obs.GStr = fmt.Sprintf("GO PANIC: %v", r)
			}
		}()
		if g != nil {
			obs.GStr = strconv.QuoteToASCII(g.String())
		}
	}()
	obs.Printed = quoteList(st.printed)
	obs.Effects = strings.Join(st.effects, "\n")
	obs.Ord = st.ord
	if obs.Ord == nil {
		obs.Ord = []c03Ob{}
	}
	// attribute listings of every kind of value met (globals, trace arguments)
	var db strings.Builder
	dirFn := starlark.Universe["dir"]
	for _, t := range st.kinds.order {
		v := st.kinds.first[t]
		raw := []string{}
		if ha, ok := v.(starlark.HasAttrs); ok {
			raw = ha.AttrNames()
		}
		fmt.Fprintf(&db, "%s raw=%s", t, strconv.QuoteToASCII(strings.Join(raw, ",")))
		dth := &starlark.Thread{Name: "dir"}
		if r, err := starlark.Call(dth, dirFn, starlark.Tuple{v}, nil); err == nil {
			names := []any{}
			lst := r.(*starlark.List)
			txt := []string{}
			for i := 0; i < lst.Len(); i++ {
				s := string(lst.Index(i).(starlark.String))
				txt = append(txt, s)
				names = append(names, byteArr(s))
			}
			fmt.Fprintf(&db, " dir=%s", strconv.QuoteToASCII(strings.Join(txt, ",")))
			if full {
				obs.DirL = append(obs.DirL, []any{t, names})
			}
		} else {
			fmt.Fprintf(&db, " direrr=%s", strconv.QuoteToASCII(err.Error()))
		}
		db.WriteString("\n")
	}
	obs.Dirs = db.String()
	if full {
		obs.Hash = st.hash
	}
	return obs
}

func (e *c03Env) execFresh(p *c03Prog, full bool) c03Obs {
	h := &c03Holder{}
	if os.Getenv("C03_TIMING") != "" {
		t0 := gotime.Now()
		o := e.exec(p, e.newThread(h), h, full)
		if d := gotime.Since(t0); d > 20*gotime.Millisecond {
			fmt.Fprintf(os.Stderr, "c03: program %d took %v (%d steps)\n", p.ID, d, o.Steps)
		}
		return o
	}
	return e.exec(p, e.newThread(h), h, full)
}

// ---------------------------------------------------------------- input

func c03Read(path string) (c03Header, []*c03Prog, error) {
	var hdr c03Header
	var progs []*c03Prog
	r, err := openIn(path)
	if err != nil {
		return hdr, nil, err
	}
	defer r.Close()
	first := true
	err = readCases(r, func(raw json.RawMessage) error {
		if first {
			first = false
			return json.Unmarshal(raw, &hdr)
		}
		p := &c03Prog{}
		if err := json.Unmarshal(raw, p); err != nil {
			return err
		}
		progs = append(progs, p)
		return nil
	})
	return hdr, progs, err
}

// ---------------------------------------------------------------- commands

func init() {
	register("c03-child", func(args []string) error {
		runtime.LockOSThread()
		hdr, progs, err := c03Read("-")
		if err != nil {
			return err
		}
		e, err := newC03Env(hdr)
		if err != nil {
			return err
		}
		nw := newNDWriter(os.Stdout)
		defer nw.flush()
		fp := seedFingerprint()
		for _, p := range progs {
			nw.write(c03Run{ID: p.ID, Kind: "proc", FP: fp, Obs: e.execFresh(p, false)})
		}
		return nil
	})

	register("c03-run", func(args []string) error {
		fs := flag.NewFlagSet("c03-run", flag.ExitOnError)
		in := fs.String("in", "-", "header + programs ndjson")
		out := fs.String("out", "-", "runs ndjson")
		procs := fs.Int("procs", 3, "fresh child processes per program")
		gor := fs.Int("gor", 8, "concurrent goroutines per program")
		groups := fs.Int("groups", 2, "programs executing concurrently in the concurrent pass")
		par := fs.Int("par", runtime.NumCPU(), "parallel child processes")
		chunk := fs.Int("chunk", 1, "programs per child process (1 = every child runs exactly one program)")
		fs.Parse(args)
		hdr, progs, err := c03Read(*in)
		if err != nil {
			return err
		}
		e, err := newC03Env(hdr)
		if err != nil {
			return err
		}
		w, err := openOut(*out)
		if err != nil {
			return err
		}
		defer w.Close()
		nw := newNDWriter(w)
		defer nw.flush()
		var mu sync.Mutex
		emit := func(r c03Run) {
			mu.Lock()
			nw.write(r)
			mu.Unlock()
		}
		fp := seedFingerprint()
		hdrLine, _ := json.Marshal(hdr)

		// child processes run in the background while this process does its own passes
		var wg sync.WaitGroup
		var childErr error
		var errMu sync.Mutex
		sem := make(chan struct{}, *par)
		spawn := func(k int, ps []*c03Prog) {
			defer wg.Done()
			defer func() { <-sem }()
			var inp bytes.Buffer
			inp.Write(hdrLine)
			inp.WriteByte('\n')
			for _, p := range ps {
				b, _ := json.Marshal(p)
				inp.Write(b)
				inp.WriteByte('\n')
			}
			cmd := exec.Command(os.Args[0], "c03-child")
			cmd.Stdin = &inp
			var so, se bytes.Buffer
			cmd.Stdout, cmd.Stderr = &so, &se
			if err := cmd.Run(); err != nil {
				errMu.Lock()
				childErr = fmt.Errorf("child for program %d failed: %v: %s", ps[0].ID, err, se.String())
				errMu.Unlock()
				return
			}
			n := 0
			readCases(&so, func(raw json.RawMessage) error {
				var r c03Run
				if err := json.Unmarshal(raw, &r); err == nil {
					r.K = k
					emit(r)
					n++
				}
				return nil
			})
			if n != len(ps) {
				errMu.Lock()
				childErr = fmt.Errorf("child for program %d returned %d of %d runs: %s", ps[0].ID, n, len(ps), se.String())
				errMu.Unlock()
			}
		}
		spawnAll := func() {
			rnd := rand.New(rand.NewSource(seed()))
			for k := 0; k < *procs; k++ {
				order := make([]*c03Prog, len(progs))
				copy(order, progs)
				if *chunk > 1 { // different neighbours in every round
					rnd.Shuffle(len(order), func(i, j int) { order[i], order[j] = order[j], order[i] })
				}
				for i := 0; i < len(order); i += *chunk {
					j := i + *chunk
					if j > len(order) {
						j = len(order)
					}
					sem <- struct{}{}
					wg.Add(1)
					go spawn(k, order[i:j])
				}
			}
		}
		spawnDone := make(chan struct{})
		go func() { spawnAll(); close(spawnDone) }()

		// sequential passes on one OS thread
		func() {
			runtime.LockOSThread()
			defer runtime.UnlockOSThread()
			for _, p := range progs {
				emit(c03Run{ID: p.ID, Kind: "seq", K: 0, FP: fp, Obs: e.execFresh(p, true)})
			}
			for i := len(progs) - 1; i >= 0; i-- {
				emit(c03Run{ID: progs[i].ID, Kind: "seq", K: 1, FP: fp, Obs: e.execFresh(progs[i], false)})
			}
			// one starlark.Thread for the whole corpus, in a seeded order
			order := make([]*c03Prog, len(progs))
			copy(order, progs)
			rnd := rand.New(rand.NewSource(seed() + 17))
			rnd.Shuffle(len(order), func(i, j int) { order[i], order[j] = order[j], order[i] })
			h := &c03Holder{}
			th := e.newThread(h)
			for _, p := range order {
				emit(c03Run{ID: p.ID, Kind: "reuse", K: 0, FP: fp, Obs: e.exec(p, th, h, false)})
			}
		}()

		// concurrent pass: *groups programs at a time, *gor goroutines each, released together
		gsem := make(chan struct{}, *groups)
		var cwg sync.WaitGroup
		for _, p := range progs {
			gsem <- struct{}{}
			cwg.Add(1)
			go func(p *c03Prog) {
				defer cwg.Done()
				defer func() { <-gsem }()
				start := make(chan struct{})
				var g sync.WaitGroup
				res := make([]c03Obs, *gor)
				// even goroutines initialise ONE shared compiled program, odd ones compile their own copy
				var shared *starlark.Program
				func() {
					defer func() { recover() }()
					_, sp, err := starlark.SourceProgramOptions(p.Opts.fileOptions(), "prog.star", p.Src, e.predec.Has)
					if err == nil {
						shared = sp
					} else if os.Getenv("C03_TIMING") != "" {
						fmt.Fprintf(os.Stderr, "c03: program %d is not shared: %v\n", p.ID, err)
					}
				}()
				for k := 0; k < *gor; k++ {
					g.Add(1)
					go func(k int) {
						defer g.Done()
						runtime.LockOSThread()
						defer runtime.UnlockOSThread()
						h := &c03Holder{}
						if k%2 == 0 {
							h.shared = shared
						}
						th := e.newThread(h)
						<-start
						res[k] = e.exec(p, th, h, false)
					}(k)
				}
				close(start)
				g.Wait()
				for k := range res {
					emit(c03Run{ID: p.ID, Kind: "conc", K: k, FP: fp, Obs: res[k]})
				}
			}(p)
		}
		cwg.Wait()
		<-spawnDone
		wg.Wait()
		if childErr != nil {
			return childErr
		}
		fmt.Fprintf(os.Stderr, "c03-run: %d programs, parent seed fingerprint %s\n", len(progs), fp)
		return nil
	})
}
