package main

// C02 "no program or built-in call can crash the host process".
//
// This file: the value pool (codes declared in spec/CrashDomain.tla are
// materialised here as FRESH values for every call), the host values with
// failing Hash/compare, the discovery of the callables of the build under test
// (`vh c02-callables`) and the execution of one call case.
//
// All cases are executed in child processes (c02run.go): a Go stack overflow or
// runtime fatal error cannot be recovered, so `recover` alone is not enough.

import (
	"flag"
	"fmt"
	"math"
	"math/big"
	"sort"
	"strings"
	gotime "time"

	sjson "go.starlark.net/lib/json"
	smath "go.starlark.net/lib/math"
	stime "go.starlark.net/lib/time"
	"go.starlark.net/starlark"
	"go.starlark.net/starlarkstruct"
	"go.starlark.net/syntax"
)

// ---------------------------------------------------------------- host values

// c02Bad: a well-behaved host value (it honours the Value contract) whose Hash and
// comparison report errors and whose truth is false.
type c02Bad struct{}

func (c02Bad) String() string        { return "<bad>" }
func (c02Bad) Type() string          { return "bad" }
func (c02Bad) Freeze()               {}
func (c02Bad) Truth() starlark.Bool  { return starlark.False }
func (c02Bad) Hash() (uint32, error) { return 0, fmt.Errorf("bad: hash fails") }
func (c02Bad) CompareSameType(op syntax.Token, y starlark.Value, depth int) (bool, error) {
	return false, fmt.Errorf("bad: comparison fails")
}

// c02Iter: a host iterable (not a sequence: no Len) that yields 1, then a value whose
// Hash/compare fail, then 2: consumers fail midway through the iteration.
type c02Iter struct{ n int }

func (c02Iter) String() string        { return "<iter>" }
func (c02Iter) Type() string          { return "iter" }
func (c02Iter) Freeze()               {}
func (c02Iter) Truth() starlark.Bool  { return starlark.True }
func (c02Iter) Hash() (uint32, error) { return 7, nil }
func (it c02Iter) Iterate() starlark.Iterator {
	vals := []starlark.Value{starlark.MakeInt(1), c02Bad{}, starlark.MakeInt(2)}
	if it.n > 0 {
		vals = vals[:it.n]
	}
	return &c02It{vals: vals}
}

type c02It struct {
	vals []starlark.Value
	i    int
}

func (it *c02It) Next(p *starlark.Value) bool {
	if it.i < len(it.vals) {
		*p = it.vals[it.i]
		it.i++
		return true
	}
	return false
}
func (it *c02It) Done() {}

// ---------------------------------------------------------------- the pool

func pow2(n uint, neg bool) starlark.Value {
	x := new(big.Int).Lsh(big.NewInt(1), n)
	if neg {
		x.Neg(x)
	}
	return starlark.MakeBigInt(x)
}

var c02Lambda starlark.Value // compiled once per process

func c02Init() error {
	th := &starlark.Thread{Name: "init"}
	g, err := starlark.ExecFileOptions(&syntax.FileOptions{}, th, "pool.star", "lam = lambda *a, **k: None\n", nil)
	if err != nil {
		return err
	}
	c02Lambda = g["lam"]
	return nil
}

func ints(xs ...int) []starlark.Value {
	out := make([]starlark.Value, len(xs))
	for i, x := range xs {
		out[i] = starlark.MakeInt(x)
	}
	return out
}

var c02Time = gotime.Date(2020, 2, 3, 4, 5, 6, 7, gotime.UTC)

// c02Value returns a fresh value for a pool code of spec/CrashDomain.tla.
func c02Value(code string) (starlark.Value, error) {
	switch code {
	case "none":
		return starlark.None, nil
	case "true":
		return starlark.True, nil
	case "false":
		return starlark.False, nil
	case "i0":
		return starlark.MakeInt(0), nil
	case "i1":
		return starlark.MakeInt(1), nil
	case "im1":
		return starlark.MakeInt(-1), nil
	case "i2", "im2", "i5", "im5", "i100", "im100":
		n := map[string]int{"i2": 2, "im2": -2, "i5": 5, "im5": -5, "i100": 100, "im100": -100}[code]
		return starlark.MakeInt(n), nil
	case "s_abc":
		return starlark.String("abc"), nil
	case "b_abc":
		return starlark.Bytes("abc"), nil
	case "t_123":
		return starlark.Tuple(ints(1, 2, 3)), nil
	case "s_pct":
		return starlark.String("%s %d %r %x %c %%"), nil
	case "s_pct1":
		return starlark.String("%d"), nil
	case "s_pctmap":
		return starlark.String("%(a)s %(b)r"), nil
	case "i2p31":
		return pow2(31, false), nil
	case "im2p31":
		return pow2(31, true), nil
	case "i2p62":
		return pow2(62, false), nil
	case "im2p62":
		return pow2(62, true), nil
	case "i2p63m1":
		return starlark.MakeInt64(math.MaxInt64), nil
	case "i2p63":
		return pow2(63, false), nil
	case "im2p63":
		return pow2(63, true), nil
	case "i2p64":
		return pow2(64, false), nil
	case "im2p64":
		return pow2(64, true), nil
	case "i2p200":
		return pow2(200, false), nil
	case "f0":
		return starlark.Float(0), nil
	case "fm0":
		return starlark.Float(math.Copysign(0, -1)), nil
	case "f1p5":
		return starlark.Float(1.5), nil
	case "finf":
		return starlark.Float(math.Inf(1)), nil
	case "fminf":
		return starlark.Float(math.Inf(-1)), nil
	case "fnan":
		return starlark.Float(math.NaN()), nil
	case "s_empty":
		return starlark.String(""), nil
	case "s_a":
		return starlark.String("a"), nil
	case "s12":
		return starlark.String("hello, world"), nil
	case "s40":
		return starlark.String("1234567890123456789012345678901234567890"), nil
	case "s_bad":
		return starlark.String("a\xff\xfe\xc0b\xed\xa0\x80"), nil
	case "s_fmt":
		return starlark.String("{}%s{0}%d{a}%%{"), nil
	case "s_fmt63":
		return starlark.String("{9223372036854775808}"), nil
	case "s_fmt19":
		return starlark.String("{9999999999999999999}"), nil
	case "s_fmt20":
		return starlark.String("{18446744073709551616}"), nil
	case "b_empty":
		return starlark.Bytes(""), nil
	case "b_ab":
		return starlark.Bytes("ab\xff\x00"), nil
	case "l_empty":
		return starlark.NewList(nil), nil
	case "l_123":
		return starlark.NewList(ints(1, 2, 3)), nil
	case "l_frozen":
		l := starlark.NewList(ints(1, 2, 3))
		l.Freeze()
		return l, nil
	case "l_self":
		l := starlark.NewList(ints(1))
		l.Append(l)
		return l, nil
	case "l_nest":
		inner := starlark.NewList([]starlark.Value{starlark.String("k"), starlark.Tuple{starlark.MakeInt(1), starlark.NewList(nil)}})
		return starlark.NewList([]starlark.Value{inner, starlark.Tuple{starlark.String("a"), starlark.MakeInt(1)}}), nil
	case "t_empty":
		return starlark.Tuple{}, nil
	case "t_12":
		return starlark.Tuple(ints(1, 2)), nil
	case "d_empty":
		return starlark.NewDict(0), nil
	case "d_ab", "d_frozen":
		d := starlark.NewDict(2)
		d.SetKey(starlark.String("a"), starlark.MakeInt(1))
		d.SetKey(starlark.String("b"), starlark.NewList(ints(2)))
		if code == "d_frozen" {
			d.Freeze()
		}
		return d, nil
	case "d_self":
		d := starlark.NewDict(1)
		d.SetKey(starlark.String("a"), d)
		return d, nil
	case "set_empty":
		return starlark.NewSet(0), nil
	case "set_12", "set_frozen":
		s := starlark.NewSet(2)
		s.Insert(starlark.MakeInt(1))
		s.Insert(starlark.MakeInt(2))
		if code == "set_frozen" {
			s.Freeze()
		}
		return s, nil
	case "r10", "r_huge", "r0", "r3":
		th := &starlark.Thread{}
		n := starlark.Value(starlark.MakeInt(map[string]int{"r10": 10, "r0": 0, "r3": 3}[code]))
		if code == "r_huge" {
			n = pow2(62, false)
		}
		return starlark.Call(th, starlark.Universe["range"], starlark.Tuple{n}, nil)
	case "lam":
		return c02Lambda, nil
	case "blt":
		return starlark.Universe["len"], nil
	case "strct":
		return starlarkstruct.FromStringDict(starlarkstruct.Default, starlark.StringDict{
			"a": starlark.MakeInt(1), "b": starlark.NewList(ints(2))}), nil
	case "h_iter":
		return c02Iter{}, nil
	case "h_iter1":
		return c02Iter{n: 1}, nil
	case "h_bad":
		return c02Bad{}, nil
	case "tm":
		return stime.Time(c02Time), nil
	case "dur":
		return stime.Duration(90 * gotime.Minute), nil
	}
	return nil, fmt.Errorf("unknown pool code %q", code)
}

// ---------------------------------------------------------------- callables

var c02StructBuiltin = starlark.NewBuiltin("struct", starlarkstruct.Make)

var c02Modules = map[string]*starlarkstruct.Module{"json": sjson.Module, "math": smath.Module, "time": stime.Module}

// receivers used only to discover the method names of each receiver type
var c02Probe = map[string]string{"string": "s_a", "bytes": "b_ab", "list": "l_123", "dict": "d_ab", "set": "set_12", "timeval": "tm", "duration": "dur"}

type c02Callable struct {
	G string `json:"g"` // universe | struct | json | math | time | string | bytes | list | dict | set | timeval | duration
	N string `json:"n"`
}

func c02Discover() ([]c02Callable, error) {
	var out []c02Callable
	names := starlark.Universe.Keys()
	sort.Strings(names)
	for _, n := range names {
		if _, ok := starlark.Universe[n].(starlark.Callable); ok {
			out = append(out, c02Callable{"universe", n})
		}
	}
	out = append(out, c02Callable{"struct", "struct"})
	for _, m := range []string{"json", "math", "time"} {
		mem := c02Modules[m].Members
		ks := mem.Keys()
		sort.Strings(ks)
		for _, n := range ks {
			if _, ok := mem[n].(starlark.Callable); ok {
				out = append(out, c02Callable{m, n})
			}
		}
	}
	for _, g := range []string{"string", "bytes", "list", "dict", "set", "timeval", "duration"} {
		v, err := c02Value(c02Probe[g])
		if err != nil {
			return nil, err
		}
		ha, ok := v.(starlark.HasAttrs)
		if !ok {
			continue
		}
		ns := ha.AttrNames()
		sort.Strings(ns)
		for _, n := range ns {
			a, err := ha.Attr(n)
			if err != nil || a == nil {
				continue
			}
			if _, ok := a.(starlark.Callable); ok {
				out = append(out, c02Callable{g, n})
			}
		}
	}
	return out, nil
}

func c02Resolve(g, n, recv string) (starlark.Value, error) {
	switch g {
	case "universe":
		v, ok := starlark.Universe[n]
		if !ok {
			return nil, fmt.Errorf("no universe name %q", n)
		}
		return v, nil
	case "struct":
		return c02StructBuiltin, nil
	case "json", "math", "time":
		v, ok := c02Modules[g].Members[n]
		if !ok {
			return nil, fmt.Errorf("no member %s.%s", g, n)
		}
		return v, nil
	}
	r, err := c02Value(recv)
	if err != nil {
		return nil, err
	}
	ha, ok := r.(starlark.HasAttrs)
	if !ok {
		return nil, fmt.Errorf("receiver %s has no attributes", recv)
	}
	a, err := ha.Attr(n)
	if err != nil || a == nil {
		return nil, fmt.Errorf("receiver %s has no method %s", recv, n)
	}
	return a, nil
}

// ---------------------------------------------------------------- one call case

type c02CallCase struct {
	ID   int         `json:"id"`
	G    string      `json:"g"`
	N    string      `json:"n"`
	R    string      `json:"r"`
	Args []string    `json:"a"`
	Kw   [][2]string `json:"k"`
}

func (c *c02CallCase) String() string {
	var sb strings.Builder
	if c.R != "" && c.R != "-" {
		fmt.Fprintf(&sb, "<%s>.", c.R)
	} else if c.G != "universe" && c.G != "struct" {
		sb.WriteString(c.G + ".")
	}
	sb.WriteString(c.N + "(")
	for i, a := range c.Args {
		if i > 0 {
			sb.WriteString(", ")
		}
		sb.WriteString(a)
	}
	for i, kv := range c.Kw {
		if i > 0 || len(c.Args) > 0 {
			sb.WriteString(", ")
		}
		sb.WriteString(kv[0] + "=" + kv[1])
	}
	sb.WriteString(")")
	return sb.String()
}

type c02Outcome struct {
	Class  string `json:"class"` // ok | err | panic
	Detail string `json:"detail,omitempty"`
	Steps  uint64 `json:"steps,omitempty"`
	Len    int    `json:"len,omitempty"`
}

func c02Thread(steps uint64) *starlark.Thread {
	th := &starlark.Thread{Name: "c02", Print: func(*starlark.Thread, string) {},
		Load: func(_ *starlark.Thread, module string) (starlark.StringDict, error) {
			if module == "m" {
				return starlark.StringDict{"a": starlark.MakeInt(1)}, nil
			}
			return nil, fmt.Errorf("no module %q", module)
		}}
	th.SetMaxExecutionSteps(steps)
	return th
}

func trunc(s string, n int) string {
	if len(s) > n {
		return s[:n] + "..."
	}
	return s
}

func c02RunCall(c *c02CallCase) (out c02Outcome, merr error) {
	fn, err := c02Resolve(c.G, c.N, c.R)
	if err != nil {
		return out, err
	}
	args := make(starlark.Tuple, len(c.Args))
	for i, a := range c.Args {
		if args[i], err = c02Value(a); err != nil {
			return out, err
		}
	}
	var kw []starlark.Tuple
	for _, kv := range c.Kw {
		v, err := c02Value(kv[1])
		if err != nil {
			return out, err
		}
		kw = append(kw, starlark.Tuple{starlark.String(kv[0]), v})
	}
	th := c02Thread(100_000)
	defer func() {
		if r := recover(); r != nil {
			out = c02Outcome{Class: "panic", Detail: trunc(fmt.Sprint(r), 300)}
		}
	}()
	v, err := starlark.Call(th, fn, args, kw)
	if err != nil {
		return c02Outcome{Class: "err", Detail: trunc(err.Error(), 120)}, nil
	}
	if v == nil {
		return c02Outcome{Class: "panic", Detail: "nil result without error"}, nil
	}
	// the result must itself be a usable value: every element (bounded walk) is a value, and the result can be frozen
	if bad := c02Walk(v, 3); bad != "" {
		return c02Outcome{Class: "panic", Detail: bad}, nil
	}
	v.Freeze()
	return c02Outcome{Class: "ok", Detail: v.Type()}, nil
}

// c02Walk visits the elements of a result (lists, tuples, dict items; at most 1000 per level) and reports a nil
// element: a Go nil inside a Starlark value makes the host crash as soon as the element is touched.
func c02Walk(v starlark.Value, depth int) string {
	if v == nil {
		return "nil element inside the result"
	}
	_ = v.Type()
	if depth == 0 {
		return ""
	}
	switch x := v.(type) {
	case *starlark.List:
		for i := 0; i < x.Len() && i < 1000; i++ {
			if bad := c02Walk(x.Index(i), depth-1); bad != "" {
				return bad
			}
		}
	case starlark.Tuple:
		for i := 0; i < len(x) && i < 1000; i++ {
			if bad := c02Walk(x[i], depth-1); bad != "" {
				return bad
			}
		}
	case *starlark.Dict:
		if x.Len() < 1000 {
			for _, it := range x.Items() {
				if bad := c02Walk(it[0], depth-1) + c02Walk(it[1], depth-1); bad != "" {
					return bad
				}
			}
		}
	}
	return ""
}

func init() {
	register("c02-callables", func(args []string) error {
		fs := flag.NewFlagSet("c02-callables", flag.ExitOnError)
		out := fs.String("out", "-", "")
		fs.Parse(args)
		if err := c02Init(); err != nil {
			return err
		}
		cs, err := c02Discover()
		if err != nil {
			return err
		}
		w, err := openOut(*out)
		if err != nil {
			return err
		}
		defer w.Close()
		nw := newNDWriter(w)
		defer nw.flush()
		for _, c := range cs {
			nw.write(c)
		}
		return nil
	})
}
