package main

// C02 source domain: token sequences and parametrised stress shapes declared in
// spec/C02MCSrc.tla are rendered to text and run through the whole pipeline
// (parse, resolve, compile, execute) with a step budget.

import (
	"fmt"
	"strconv"
	"strings"
	"sync/atomic"

	"go.starlark.net/starlark"
	"go.starlark.net/syntax"
)

type c02SrcCase struct {
	ID   int      `json:"id"`
	Kind string   `json:"kind"` // toks | nest | indent | count | text
	Toks []string `json:"toks"`
	// shapes (strings come from the specification)
	Name  string `json:"name"`
	Head  string `json:"head"`
	Open  string `json:"open"`
	Mid   string `json:"mid"`
	Close string `json:"close"`
	Tail  string `json:"tail"`
	Line  string `json:"line"`
	Body  string `json:"body"`
	Item  string `json:"item"`
	Sep   string `json:"sep"`
	Suf   string `json:"suf"`
	Num   bool   `json:"num"`
	D     int    `json:"d"`
	Len   int    `json:"len"`   // declared length (nest, indent, text), 0 = only the 64 KiB bound
	Opts  []int  `json:"opts"`  // FileOptions vectors to run (bit 0 Set, 1 While, 2 TopLevelControl, 3 GlobalReassign, 4 LoadBindsGlobally, 5 Recursion)
	Steps uint64 `json:"steps"` // step budget
	Tmo   int    `json:"tmo"`   // cpu limit for this case in ms (0 = default)
}

const c02MaxSrc = 65536

// c02RenderToks: tokens are separated by one space; NL ends a line, IN/OUT change the
// indentation (two spaces per level) of the following lines, HALF shifts the following
// lines by one more space (an indentation that matches no enclosing level).
func c02RenderToks(toks []string) string {
	var b strings.Builder
	level, half := 0, 0
	bol := true
	for _, t := range toks {
		switch t {
		case "NL":
			b.WriteString("\n")
			bol = true
			continue
		case "IN":
			level++
			continue
		case "OUT":
			if level > 0 {
				level--
			}
			continue
		case "HALF":
			half++
			continue
		}
		if bol {
			b.WriteString(strings.Repeat(" ", 2*level+half))
			bol = false
		} else {
			b.WriteString(" ")
		}
		b.WriteString(t)
	}
	if !bol {
		b.WriteString("\n")
	}
	return b.String()
}

func c02RenderSrc(c *c02SrcCase) (string, error) {
	switch c.Kind {
	case "toks":
		return c02RenderToks(c.Toks), nil
	case "nest":
		return c.Head + strings.Repeat(c.Open, c.D) + c.Mid + strings.Repeat(c.Close, c.D) + c.Tail, nil
	case "indent":
		var b strings.Builder
		b.WriteString(c.Head)
		for i := 0; i < c.D; i++ {
			b.WriteString(strings.Repeat(" ", i))
			b.WriteString(c.Line)
			b.WriteString("\n")
		}
		b.WriteString(strings.Repeat(" ", c.D))
		b.WriteString(c.Body)
		b.WriteString("\n")
		b.WriteString(c.Tail)
		return b.String(), nil
	case "count":
		var b strings.Builder
		b.WriteString(c.Head)
		for i := 0; i < c.D; i++ {
			if i > 0 {
				b.WriteString(c.Sep)
			}
			b.WriteString(c.Item)
			if c.Num {
				b.WriteString(strconv.Itoa(i))
			}
			b.WriteString(c.Suf)
		}
		b.WriteString(c.Tail)
		return b.String(), nil
	case "text":
		return c.Head, nil
	}
	return "", fmt.Errorf("unknown source kind %q", c.Kind)
}

func c02Opts(v int) *syntax.FileOptions {
	return &syntax.FileOptions{Set: v&1 != 0, While: v&2 != 0, TopLevelControl: v&4 != 0, GlobalReassign: v&8 != 0,
		LoadBindsGlobally: v&16 != 0, Recursion: v&32 != 0}
}

// predeclared names every source may use (documented in spec/CrashDomain.tla)
func c02SrcEnv() starlark.StringDict {
	var f *starlark.Builtin
	f = starlark.NewBuiltin("f", func(_ *starlark.Thread, _ *starlark.Builtin, args starlark.Tuple, kw []starlark.Tuple) (starlark.Value, error) {
		if len(args) > 0 {
			return args[0], nil
		}
		if len(kw) > 0 {
			return kw[0][1], nil
		}
		return f, nil
	})
	c := starlark.NewList(nil)
	c.Append(c)
	return starlark.StringDict{
		"json": c02Modules["json"], "math": c02Modules["math"], "time": c02Modules["time"], "struct": c02StructBuiltin,
		"x": starlark.NewList(ints(1, 2, 3)), "c": c, "f": f,
	}
}

type c02SrcRun struct {
	Opt    int    `json:"opt"`
	Class  string `json:"class"` // ok | static | runtime | budget | panic | overrun
	Detail string `json:"detail,omitempty"`
	Steps  uint64 `json:"steps"`
}

type c02SrcResult struct {
	Len   int         `json:"len"`
	Runs  []c02SrcRun `json:"runs"`
	N     int         `json:"n"`
	NT    bool        `json:"nt"`
	Bad   []string    `json:"bad,omitempty"`
	Class string      `json:"class"` // class of the first run
}

// the thread and budget of the run in progress: the watchdog of the child reports a budget
// overrun while the program is still running (a program that ignores its budget never returns)
var (
	c02CurThread atomic.Pointer[starlark.Thread]
	c02CurBudget atomic.Uint64
)

func c02RunOne(src string, opt int, budget uint64) (run c02SrcRun) {
	run.Opt = opt
	th := c02Thread(budget)
	c02CurBudget.Store(budget)
	c02CurThread.Store(th)
	defer c02CurThread.Store(nil)
	defer func() {
		if r := recover(); r != nil {
			run.Class, run.Detail = "panic", trunc(fmt.Sprint(r), 300)
		}
		run.Steps = th.ExecutionSteps()
		if run.Class != "panic" && run.Steps > budget {
			run.Class, run.Detail = "overrun", fmt.Sprintf("%d steps executed with a budget of %d", run.Steps, budget)
		}
	}()
	_, err := starlark.ExecFileOptions(c02Opts(opt), th, "case.star", src, c02SrcEnv())
	switch e := err.(type) {
	case nil:
		run.Class = "ok"
	case *starlark.EvalError:
		run.Class, run.Detail = "runtime", trunc(e.Msg, 100)
		if strings.Contains(e.Msg, "too many steps") {
			run.Class = "budget"
		}
	default:
		run.Class, run.Detail = "static", trunc(err.Error(), 100)
	}
	return
}

func c02RunSrc(c *c02SrcCase) (*c02SrcResult, error) {
	src, err := c02RenderSrc(c)
	if err != nil {
		return nil, err
	}
	res := &c02SrcResult{Len: len(src)}
	if len(src) > c02MaxSrc {
		return nil, fmt.Errorf("case %d (%s d=%d): rendered source has %d bytes > 64 KiB", c.ID, c.Name, c.D, len(src))
	}
	if c.Len != 0 && c.Len != len(src) {
		return nil, fmt.Errorf("case %d (%s d=%d): the specification declares %d bytes, rendered %d", c.ID, c.Name, c.D, c.Len, len(src))
	}
	budget := c.Steps
	if budget == 0 {
		budget = 10_000
	}
	opts := c.Opts
	if len(opts) == 0 {
		opts = []int{63}
	}
	for _, o := range opts {
		run := c02RunOne(src, o, budget)
		res.N++
		if run.Steps > 0 {
			res.NT = true
		}
		if run.Class == "panic" || run.Class == "overrun" {
			res.Bad = append(res.Bad, fmt.Sprintf("opts=%d: %s: %s", o, run.Class, run.Detail))
		}
		if len(res.Runs) < 4 || run.Class == "panic" || run.Class == "overrun" {
			res.Runs = append(res.Runs, run)
		}
	}
	res.Class = res.Runs[0].Class
	return res, nil
}
