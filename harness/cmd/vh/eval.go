package main

// vh eval [-in f] [-out f]: evaluate one Starlark expression or file per case
// with the real pipeline (parse, resolve, compile, interpret) and record the
// encoded result. Used by the record-validation checks (P-A).

import (
	"encoding/json"
	"flag"
	"fmt"
	"strings"
	gotime "time"

	sjson "go.starlark.net/lib/json"
	smath "go.starlark.net/lib/math"
	stime "go.starlark.net/lib/time"
	"go.starlark.net/starlark"
	"go.starlark.net/starlarkstruct"
	"go.starlark.net/syntax"
)

type evalCase struct {
	ID    int             `json:"id"`
	Src   string          `json:"src"`
	Mode  string          `json:"mode"`  // "expr" (default) or "file"
	Opts  *optVec         `json:"opts"`  // nil = everything on
	Steps uint64          `json:"steps"` // 0 = default budget
	Want  []string        `json:"want"`  // globals to report in file mode (nil = all)
	IDs   bool            `json:"ids"`   // encode object identities
	Extra json.RawMessage `json:"extra"`
	// GoCall: after the file has run, call its global f through starlark.Call with positional and named integer
	// arguments held in buffers that are overwritten as soon as the call returns; the result becomes the global r
	GoCall *goCall `json:"gocall"`
}

type goCall struct {
	Pos   []int   `json:"pos"`
	Named [][]any `json:"named"`
}

type optVec struct {
	Set, While, TopLevelControl, GlobalReassign, LoadBindsGlobally, Recursion bool
}

func (o *optVec) fileOptions() *syntax.FileOptions {
	if o == nil {
		return &syntax.FileOptions{Set: true, While: true, TopLevelControl: true, GlobalReassign: true, Recursion: true}
	}
	return &syntax.FileOptions{Set: o.Set, While: o.While, TopLevelControl: o.TopLevelControl,
		GlobalReassign: o.GlobalReassign, LoadBindsGlobally: o.LoadBindsGlobally, Recursion: o.Recursion}
}

var fixedNow = gotime.Date(2020, 2, 3, 4, 5, 6, 7, gotime.UTC)

type effect struct {
	Fn   string `json:"fn"`
	Args []obj  `json:"args"`
	Kw   [][]any `json:"kw"`
}

type hostEnv struct {
	effects []effect
	printed []string
}

// hostObj is a host value with settable fields kept in assignment order (spec/RefSem.tla: "obj").
type hostObj struct {
	names []string
	vals  []starlark.Value
}

func (o *hostObj) String() string        { return "obj(...)" }
func (o *hostObj) Type() string          { return "obj" }
func (o *hostObj) Freeze()               {}
func (o *hostObj) Truth() starlark.Bool  { return true }
func (o *hostObj) Hash() (uint32, error) { return 0, fmt.Errorf("unhashable: obj") }
func (o *hostObj) Attr(name string) (starlark.Value, error) {
	for i, n := range o.names {
		if n == name {
			return o.vals[i], nil
		}
	}
	return nil, nil
}
func (o *hostObj) AttrNames() []string { return append([]string{}, o.names...) }
func (o *hostObj) SetField(name string, v starlark.Value) error {
	for i, n := range o.names {
		if n == name {
			o.vals[i] = v
			return nil
		}
	}
	o.names = append(o.names, name)
	o.vals = append(o.vals, v)
	return nil
}

func (h *hostEnv) predeclared() starlark.StringDict {
	trace := func(thread *starlark.Thread, b *starlark.Builtin, args starlark.Tuple, kwargs []starlark.Tuple) (starlark.Value, error) {
		ef := effect{Fn: b.Name(), Args: []obj{}, Kw: [][]any{}}
		for _, a := range args {
			ef.Args = append(ef.Args, encValue(a))
		}
		for _, kv := range kwargs {
			ef.Kw = append(ef.Kw, []any{string(kv[0].(starlark.String)), encValue(kv[1])})
		}
		h.effects = append(h.effects, ef)
		if len(args) > 0 {
			return args[0], nil
		}
		return starlark.None, nil
	}
	boom := func(thread *starlark.Thread, b *starlark.Builtin, args starlark.Tuple, kwargs []starlark.Tuple) (starlark.Value, error) {
		return nil, fmt.Errorf("boom")
	}
	return starlark.StringDict{
		"json":   sjson.Module,
		"math":   smath.Module,
		"time":   stime.Module,
		"struct": starlark.NewBuiltin("struct", starlarkstruct.Make),
		"trace":  starlark.NewBuiltin("trace", trace),
		"boom":   starlark.NewBuiltin("boom", boom),
		"obj": starlark.NewBuiltin("obj", func(_ *starlark.Thread, _ *starlark.Builtin, args starlark.Tuple, kwargs []starlark.Tuple) (starlark.Value, error) {
			if len(args) > 0 {
				return nil, fmt.Errorf("obj: unexpected positional arguments")
			}
			o := &hostObj{}
			for _, kv := range kwargs {
				o.SetField(string(kv[0].(starlark.String)), kv[1])
			}
			return o, nil
		}),
	}
}

func (h *hostEnv) thread(steps uint64) *starlark.Thread {
	th := &starlark.Thread{Name: "vh", Print: func(_ *starlark.Thread, msg string) { h.printed = append(h.printed, msg) }}
	if steps == 0 {
		steps = 20_000_000
	}
	th.SetMaxExecutionSteps(steps)
	stime.SetNow(th, func() (gotime.Time, error) { return fixedNow, nil })
	// the modelled loader (spec/RefSem.tla, LoadedModule): one module with an int, a frozen list and a string
	th.Load = func(_ *starlark.Thread, module string) (starlark.StringDict, error) {
		if module == "m.star" {
			l := starlark.NewList([]starlark.Value{starlark.MakeInt(1), starlark.MakeInt(2)})
			l.Freeze()
			return starlark.StringDict{"a": starlark.MakeInt(7), "b": l, "s": starlark.String("str")}, nil
		}
		return nil, fmt.Errorf("no such module %s", module)
	}
	return th
}

type evalResult struct {
	ID      int      `json:"id"`
	OK      bool     `json:"ok"`
	V       obj      `json:"v,omitempty"`
	Globals [][]any  `json:"globals,omitempty"`
	Err     string   `json:"err,omitempty"`
	Panic   string   `json:"panic,omitempty"`
	Static  bool     `json:"static,omitempty"`
	Steps   uint64   `json:"steps"`
	Effects []effect `json:"effects,omitempty"`
	Printed []string `json:"printed,omitempty"`
	Stack   []frame  `json:"stack,omitempty"`
}

type frame struct {
	Name string `json:"name"`
	File string `json:"file"`
	Line int    `json:"line"`
	Col  int    `json:"col"`
}

func runEvalCase(c *evalCase) (res evalResult) {
	res.ID = c.ID
	h := &hostEnv{}
	th := h.thread(c.Steps)
	defer func() {
		if r := recover(); r != nil {
			res.OK = false
			res.Panic = fmt.Sprint(r)
		}
		res.Steps = th.ExecutionSteps()
		res.Effects = h.effects
		res.Printed = h.printed
	}()
	opts := c.Opts.fileOptions()
	pre := h.predeclared()
	enc := &encoder{ids: c.IDs}
	if c.Mode == "file" {
		g, err := starlark.ExecFileOptions(opts, th, "case.star", c.Src, pre)
		if err != nil {
			res.Err = err.Error()
			fillErr(&res, err)
		} else {
			res.OK = true
		}
		if err == nil && c.GoCall != nil {
			buf := make(starlark.Tuple, len(c.GoCall.Pos))
			for i, v := range c.GoCall.Pos {
				buf[i] = starlark.MakeInt(v)
			}
			kw := make([]starlark.Tuple, len(c.GoCall.Named))
			for i, nv := range c.GoCall.Named {
				kw[i] = starlark.Tuple{starlark.String(nv[0].(string)), starlark.MakeInt(int(nv[1].(float64)))}
			}
			v, cerr := starlark.Call(th, g["f"], buf, kw)
			// the caller owns its buffers: what the callee was given must not change with them
			for i := range buf {
				buf[i] = starlark.MakeInt(999)
			}
			for i := range kw {
				kw[i][0], kw[i][1] = starlark.String("zz"), starlark.MakeInt(998)
			}
			if cerr != nil {
				res.OK = false
				res.Err = cerr.Error()
				fillErr(&res, cerr)
			} else {
				g["r"] = v
			}
		}
		names := c.Want
		if names == nil {
			names = g.Keys()
		}
		res.Globals = [][]any{}
		for _, n := range names {
			if v, ok := g[n]; ok {
				res.Globals = append(res.Globals, []any{n, enc.enc(v)})
			}
		}
		return
	}
	v, err := starlark.EvalOptions(opts, th, "case.star", c.Src, pre)
	if err != nil {
		res.Err = err.Error()
		fillErr(&res, err)
		return
	}
	res.OK = true
	res.V = enc.enc(v)
	return
}

func fillErr(res *evalResult, err error) {
	switch e := err.(type) {
	case *starlark.EvalError:
		for _, fr := range e.CallStack {
			res.Stack = append(res.Stack, frame{fr.Name, fr.Pos.Filename(), int(fr.Pos.Line), int(fr.Pos.Col)})
		}
		res.Err = e.Msg
	default:
		res.Static = true
		if len(res.Err) > 300 {
			res.Err = res.Err[:300]
		}
	}
}

func init() {
	register("eval", func(args []string) error {
		fs := flag.NewFlagSet("eval", flag.ExitOnError)
		in := fs.String("in", "-", "cases ndjson")
		out := fs.String("out", "-", "results ndjson")
		fs.Parse(args)
		r, err := openIn(*in)
		if err != nil {
			return err
		}
		defer r.Close()
		w, err := openOut(*out)
		if err != nil {
			return err
		}
		defer w.Close()
		nw := newNDWriter(w)
		defer nw.flush()
		return readCases(r, func(raw json.RawMessage) error {
			var c evalCase
			if err := json.Unmarshal(raw, &c); err != nil {
				return fmt.Errorf("bad case %s: %v", strings.TrimSpace(string(raw)), err)
			}
			nw.write(runEvalCase(&c))
			return nil
		})
	})
}
