package main

// vh c05-race (built with -race): run the operation combinations enumerated by TLC from
// spec/C05MC.tla on several goroutines behind a start barrier, each goroutine a Starlark thread
// of its own, all of them on ONE freshly published module and ONE set of shared compiled
// programs per combination.  Observed:
//   * reports of the Go race detector (GORACE log_path=...: the log file is inspected after every
//     combination, so a report is attributed to the combination that produced it),
//   * the transcript of every operation of every goroutine, compared with the transcript of the
//     same operation executed alone (on another, structurally equal module, so that lazily
//     initialised state of the module under test is first touched concurrently),
//   * after the goroutines have finished: the same operations once more, alone, on the module
//     that was shared (nothing was corrupted),
//   * mutation attempts that were not rejected.
// The verif hooks stay nil here: nothing but the code under test runs concurrently.

import (
	"encoding/json"
	"flag"
	"fmt"
	"math/rand"
	"os"
	"regexp"
	"strconv"
	"strings"
	"sync"
)

type c05Case struct {
	ID  int          `json:"id"`
	Ops [][]c05Combo `json:"ops"` // per thread: the operations it performs, in order
	G   int          `json:"g,omitempty"`
}

type c05Mismatch struct {
	Goroutine int    `json:"goroutine"`
	Iter      int    `json:"iter"`
	Op        string `json:"op"`
	Want      string `json:"want"`
	Got       string `json:"got"`
}

func c05RaceLog() string {
	m := regexp.MustCompile(`log_path=(\S+)`).FindStringSubmatch(os.Getenv("GORACE"))
	if m == nil {
		return ""
	}
	return m[1] + "." + strconv.Itoa(os.Getpid())
}

func c05LogSize(path string) int64 {
	if path == "" {
		return 0
	}
	st, err := os.Stat(path)
	if err != nil {
		return 0
	}
	return st.Size()
}

func c05Clip(s string, n int) string {
	if len(s) > n {
		return s[:n] + "..."
	}
	return s
}

// deliberately racy code: proves that the detector is live and that reports are attributed
func c05SelfTestRace() {
	var wg sync.WaitGroup
	shared := 0
	for i := 0; i < 2; i++ {
		wg.Add(1)
		go func() {
			defer wg.Done()
			for j := 0; j < 100; j++ {
				shared++
			}
		}()
	}
	wg.Wait()
	_ = shared
}

func init() {
	register("c05-race", func(args []string) error {
		fs := flag.NewFlagSet("c05-race", flag.ExitOnError)
		in := fs.String("in", "-", "combinations (ndjson): {id, ops: [[{op,k},...] per thread]}")
		out := fs.String("out", "-", "results: one line per combination with a problem, then a summary")
		iters := fs.Int("iters", 50, "iterations per goroutine")
		gs := fs.String("g", "2,4", "goroutine counts to choose from (per combination, by seed)")
		selftest := fs.Bool("selftest", false, "first run a deliberately racy function (pipeline check)")
		fs.Parse(args)
		r, err := openIn(*in)
		if err != nil {
			return err
		}
		defer r.Close()
		w, err := openOut(*out)
		if err != nil {
			return err
		}
		defer w.Close()
		nw := newNDWriter(w)
		defer nw.flush()
		var gchoices []int
		for _, s := range strings.Split(*gs, ",") {
			n, err := strconv.Atoi(s)
			if err != nil || n < 1 {
				return fmt.Errorf("bad -g")
			}
			gchoices = append(gchoices, n)
		}
		logPath := c05RaceLog()
		selfOK := false
		if *selftest {
			before := c05LogSize(logPath)
			c05SelfTestRace()
			selfOK = c05LogSize(logPath) > before
		}

		helpers := c05Helpers()
		soloIn, soloTwin := c05NewInst(helpers), c05NewInst(helpers)
		main := c05NewEnv("solo")
		solo := map[string]string{}
		for _, c := range c05AllCombos() {
			for v := 0; v < 2; v++ {
				solo[fmt.Sprintf("%s/%s/%d", c.Op, c.K, v)] = c05Do(main, soloIn, soloTwin, c.Op, c.K, v)
			}
		}
		if len(main.mutated) > 0 {
			nw.write(obj{"id": -1, "mutated": main.mutated, "race": "", "mismatch": []c05Mismatch{}})
		}

		ncombos, nexec, nprob, ngor := 0, 0, 0, 0
		err = readCases(r, func(raw json.RawMessage) error {
			var c c05Case
			if err := json.Unmarshal(raw, &c); err != nil {
				return err
			}
			for _, seq := range c.Ops {
				for _, o := range seq {
					if !c05Applies(o.Op, o.K) {
						return fmt.Errorf("combination %d: the harness has no operation %s on %s", c.ID, o.Op, o.K)
					}
				}
			}
			n := len(c.Ops)
			g := c.G
			if g == 0 {
				rng := rand.New(rand.NewSource(seed()*1000003 + int64(c.ID)))
				g = gchoices[rng.Intn(len(gchoices))]
			}
			if g < n {
				g = n
			}
			before := c05LogSize(logPath)
			shared := c05NewInst(helpers) // published by the completion of its module; nothing else has touched it
			type gres struct {
				mism    *c05Mismatch
				mutated []string
				execs   int
			}
			res := make([]gres, g)
			start := make(chan struct{})
			var wg sync.WaitGroup
			for i := 0; i < g; i++ {
				wg.Add(1)
				go func(i int) {
					defer wg.Done()
					e := c05NewEnv(fmt.Sprintf("g%d", i))
					seq := c.Ops[i%n]
					variant := (i / n) % 2
					<-start
					for it := 0; it < *iters; it++ {
						for _, o := range seq {
							got := c05Do(e, shared, soloIn, o.Op, o.K, variant)
							res[i].execs++
							key := fmt.Sprintf("%s/%s/%d", o.Op, o.K, variant)
							if want := solo[key]; got != want && res[i].mism == nil {
								res[i].mism = &c05Mismatch{i, it, key, c05Clip(want, 1500), c05Clip(got, 1500)}
							}
						}
					}
					res[i].mutated = e.mutated
				}(i)
			}
			close(start)
			wg.Wait()
			ncombos++
			ngor += g
			mism := []c05Mismatch{}
			mutated := []string{}
			for i := range res {
				nexec += res[i].execs
				if res[i].mism != nil {
					mism = append(mism, *res[i].mism)
				}
				mutated = append(mutated, res[i].mutated...)
			}
			// alone again on the module that was shared
			for i := 0; i < n; i++ {
				for _, o := range c.Ops[i] {
					for v := 0; v < 2; v++ {
						key := fmt.Sprintf("%s/%s/%d", o.Op, o.K, v)
						if got := c05Do(main, shared, soloIn, o.Op, o.K, v); got != solo[key] {
							mism = append(mism, c05Mismatch{-1, -1, key + " (alone, afterwards)", c05Clip(solo[key], 1500), c05Clip(got, 1500)})
						}
					}
				}
			}
			race := ""
			if after := c05LogSize(logPath); after > before {
				if f, err := os.Open(logPath); err == nil {
					buf := make([]byte, after-before)
					f.ReadAt(buf, before)
					f.Close()
					race = c05Clip(string(buf), 12000)
				}
			}
			if race != "" || len(mism) > 0 || len(mutated) > 0 {
				nprob++
				if len(mutated) > 8 {
					mutated = mutated[:8]
				}
				nw.write(obj{"id": c.ID, "ops": c.Ops, "g": g, "iters": *iters, "race": race, "mismatch": mism, "mutated": mutated})
			}
			return nil
		})
		nw.write(obj{"summary": true, "combos": ncombos, "executions": nexec, "goroutines": ngor, "problems": nprob,
			"selftest_reported": selfOK, "log": logPath, "solo_transcripts": len(solo)})
		return err
	})
}
