package main

// C17 "Compiled programs survive serialization unchanged" (code -> spec, P-A).
//
//   vh c17-run -in cases.ndjson -out recs.ndjson
//
// case   {"id", "src", "opts":{..}|absent, "steps":N, "mods":{"name.star": src}, "fields":bool}
// For every case:  P = SourceProgramOptions(src);  b1 = Write(P);  Q = CompiledProgram(b1);
// b2 = Write(Q);  P.Init and Q.Init run on fresh threads with the same predeclared
// environment and loader.  The record carries, for P and for Q, the observation
// (ok, error text, call stack with positions, steps, Print transcript, trace() effects,
// encoded globals) and the metadata (Filename, Load(i), and of every function reachable
// from the globals: Name, Doc, Position, NumParams, Param(i) name + position,
// ParamDefault(i), NumKwonlyParams, HasVarargs, HasKwargs, free variable names, and the
// pc -> position table), and whether b1 == b2.
// With "fields" the record also carries b1 split into its raw varints and string section
// (no knowledge of the structure is used: spec/Serial.tla parses it) and the fields of
// the compiled programs P and Q as the implementation holds them.

import (
	"bytes"
	"encoding/binary"
	"encoding/json"
	"flag"
	"fmt"
	"math"
	"math/big"
	"reflect"
	"strconv"
	"strings"
	"sync"

	"go.starlark.net/starlark"
	"go.starlark.net/starlarkstruct"
	"go.starlark.net/syntax"
)

type c17Case struct {
	ID     int               `json:"id"`
	Src    string            `json:"src"`
	SrcB   []byte            `json:"srcb"` // base64: source that is not valid UTF-8 (overrides src)
	Opts   *optVec           `json:"opts"`
	Steps  uint64            `json:"steps"`
	Mods   map[string]string `json:"mods"`
	Fields bool              `json:"fields"`
}

// a position is recorded as one ASCII string: quoted file name, line, column
func c17pos(p syntax.Position) string {
	return fmt.Sprintf("%s:%d:%d", strconv.QuoteToASCII(p.Filename()), p.Line, p.Col)
}

func c17q(s string) string { return strconv.QuoteToASCII(s) }

// metadata of one function; text components are canonical ASCII renderings
type c17Fn struct {
	Name    string `json:"name"`
	Doc     string `json:"doc"`
	Pos     string `json:"pos"`
	NParams int    `json:"nparams"`
	NKwonly int    `json:"nkwonly"`
	Varargs bool   `json:"varargs"`
	Kwargs  bool   `json:"kwargs"`
	NListed int    `json:"nlisted"`  // number of parameters listed in Params
	Params  string `json:"params"`   // one line per parameter: name @position = default (canonical value) | required
	Free    string `json:"freevars"` // names of the free variables
	PosTab  string `json:"postab"`   // pc:line:col wherever the position changes
}

// what a client observes of one execution (P.Init or Q.Init) and of the program's metadata;
// values are rendered canonically with type tags (see c03Canon: ints i.., floats by bit pattern,
// strings and bytes quoted, containers with object identities, functions with name, position,
// defaults and free variables)
type c17Side struct {
	OK       bool    `json:"ok"`
	Panic    bool    `json:"panic"`
	Steps    int     `json:"steps"`
	Err      string  `json:"err"`
	Stack    string  `json:"stack"`
	Printed  string  `json:"printed"`
	Effects  string  `json:"effects"`
	Globals  string  `json:"globals"`
	Filename string  `json:"filename"`
	Loads    string  `json:"loads"`
	Fns      []c17Fn `json:"fns"`
	Fields   obj     `json:"fields,omitempty"`
}

var c17Prev []byte // the compiled form of the previous case

// c17Other is the compiled form of a fixed, fairly large program unrelated to every case
var c17Other = func() []byte {
	src := "def other(a, b = 'default value of a parameter', *rest, k = 3.25, **kw):\n    'docstring of another program'\n    return [a, b, rest, k, kw, 1 << 80, b'bytes constant', 'string constant %d' % 7]\nz = other(1)\n"
	for i := 0; i < 40; i++ {
		src += fmt.Sprintf("v%d = ['filler string number %d', %d.5, %d << 70]\n", i, i, i, i)
	}
	_, prog, err := starlark.SourceProgramOptions(&syntax.FileOptions{}, "other.star", src, func(string) bool { return false })
	if err != nil {
		panic(err)
	}
	var buf bytes.Buffer
	if err := prog.Write(&buf); err != nil {
		panic(err)
	}
	return buf.Bytes()
}()

type c17Rec struct {
	ID     int      `json:"id"`
	Static bool     `json:"static"` // source does not compile: outside the quantifier
	Err    string   `json:"err,omitempty"`
	DecErr string   `json:"decerr,omitempty"` // CompiledProgram(Write(P)) failed
	Same   bool     `json:"same"`             // Write(Q) == Write(P)
	Len1   int      `json:"len1"`
	Len2   int      `json:"len2"`
	P      *c17Side `json:"p,omitempty"`
	Q      *c17Side `json:"q,omitempty"`
	HasF   bool     `json:"hasf"`
	DecOK  bool     `json:"decok"`
	Ver    int      `json:"ver"`          // starlark.CompilerVersion of the build under test
	B1     obj      `json:"b1,omitempty"` // {magic, off, toks, strs}
}

const c17MaxFieldBytes = 3000

// toplevel function of the Init running on a given thread (VerifStep hook)
var (
	c17mu  sync.Mutex
	c17top = map[*starlark.Thread]*starlark.Function{}
)

func c17hook(th *starlark.Thread, fn *starlark.Function, pc uint32) {
	c17mu.Lock()
	if f, ok := c17top[th]; ok && f == nil {
		c17top[th] = fn
	}
	c17mu.Unlock()
}

// splitProgram splits a compiled file into its raw parts without interpreting them.
func splitProgram(b []byte) (obj, error) {
	if len(b) < 8 {
		return nil, fmt.Errorf("short file")
	}
	off := int(binary.LittleEndian.Uint32(b[4:8]))
	if off < 8 || off > len(b) {
		return nil, fmt.Errorf("bad offset %d", off)
	}
	toks := [][]int{}
	p := b[8:off]
	for len(p) > 0 {
		u, n := binary.Uvarint(p)
		if n <= 0 {
			return nil, fmt.Errorf("bad varint")
		}
		p = p[n:]
		toks = append(toks, limbsOf(new(big.Int).SetUint64(u)))
	}
	return obj{"magic": byteArr(string(b[:4])), "off": off, "toks": toks, "strs": byteArr(string(b[off:]))}, nil
}

func c17ident(name string, pos syntax.Position) obj {
	return obj{"name": byteArr(name), "line": int(pos.Line), "col": int(pos.Col)}
}

// fieldsOf exports the compiled program that fn belongs to, field by field (reflection is
// needed only because the harness cannot name the types of the internal package).
func fieldsOf(fn *starlark.Function) obj {
	fc := starlark.VerifFuncode(fn)
	prog := fc.Prog
	idents := func(v reflect.Value) []obj {
		out := []obj{}
		for i := 0; i < v.Len(); i++ {
			b := v.Index(i)
			out = append(out, c17ident(b.FieldByName("Name").String(), b.FieldByName("Pos").Interface().(syntax.Position)))
		}
		return out
	}
	funcode := func(v reflect.Value) obj { // v: *compile.Funcode
		f := v.Elem()
		cells := []int{}
		for i := 0; i < f.FieldByName("Cells").Len(); i++ {
			cells = append(cells, int(f.FieldByName("Cells").Index(i).Int()))
		}
		pos := f.FieldByName("Pos").Interface().(syntax.Position)
		return obj{"name": byteArr(f.FieldByName("Name").String()), "line": int(pos.Line), "col": int(pos.Col),
			"doc": byteArr(f.FieldByName("Doc").String()), "code": byteArr(string(f.FieldByName("Code").Bytes())),
			"locals": idents(f.FieldByName("Locals")), "cells": cells, "freevars": idents(f.FieldByName("FreeVars")),
			"maxstack": int(f.FieldByName("MaxStack").Int()), "numparams": int(f.FieldByName("NumParams").Int()),
			"numkwonly":  int(f.FieldByName("NumKwonlyParams").Int()),
			"hasvarargs": f.FieldByName("HasVarargs").Bool(), "haskwargs": f.FieldByName("HasKwargs").Bool()}
	}
	pv := reflect.ValueOf(prog).Elem()
	names := [][]int{}
	for i := 0; i < pv.FieldByName("Names").Len(); i++ {
		names = append(names, byteArr(pv.FieldByName("Names").Index(i).String()))
	}
	consts := []obj{}
	cs := pv.FieldByName("Constants")
	for i := 0; i < cs.Len(); i++ {
		c := cs.Index(i).Interface()
		switch c := c.(type) {
		case string:
			consts = append(consts, obj{"t": "string", "v": byteArr(c)})
		case int64:
			consts = append(consts, obj{"t": "int", "v": encBig(big.NewInt(c))})
		case float64:
			consts = append(consts, obj{"t": "float", "v": limbsOf(new(big.Int).SetUint64(math.Float64bits(c)))})
		case *big.Int:
			consts = append(consts, obj{"t": "bigint", "v": encBig(c)})
		default:
			rv := reflect.ValueOf(c)
			if rv.Kind() == reflect.String && rv.Type().Name() == "Bytes" {
				consts = append(consts, obj{"t": "bytes", "v": byteArr(rv.String())})
			} else {
				consts = append(consts, obj{"t": "unknown:" + rv.Type().String(), "v": []int{}})
			}
		}
	}
	funcs := []obj{}
	fs := pv.FieldByName("Functions")
	for i := 0; i < fs.Len(); i++ {
		funcs = append(funcs, funcode(fs.Index(i)))
	}
	top := pv.FieldByName("Toplevel")
	return obj{"filename": byteArr(top.Elem().FieldByName("Pos").Interface().(syntax.Position).Filename()),
		"loads": idents(pv.FieldByName("Loads")), "names": names, "consts": consts, "globals": idents(pv.FieldByName("Globals")),
		"toplevel": funcode(top), "funcs": funcs, "recursion": pv.FieldByName("Recursion").Bool()}
}

// functions reachable from the globals, in a deterministic traversal order
type c17walker struct {
	seen map[any]bool
	fns  []*starlark.Function
}

func (w *c17walker) walk(v starlark.Value, depth int) {
	if v == nil || depth > 100 {
		return
	}
	switch v := v.(type) {
	case *starlark.Function:
		if w.seen[v] {
			return
		}
		w.seen[v] = true
		w.fns = append(w.fns, v)
		for i := 0; i < v.NumParams(); i++ {
			w.walk(v.ParamDefault(i), depth+1)
		}
		for i := 0; i < v.NumFreeVars(); i++ {
			_, fv := v.FreeVar(i)
			w.walk(fv, depth+1)
		}
	case *starlark.List:
		if w.seen[v] {
			return
		}
		w.seen[v] = true
		for i := 0; i < v.Len(); i++ {
			w.walk(v.Index(i), depth+1)
		}
	case starlark.Tuple:
		for _, x := range v {
			w.walk(x, depth+1)
		}
	case *starlark.Dict:
		if w.seen[v] {
			return
		}
		w.seen[v] = true
		for _, it := range v.Items() {
			w.walk(it[0], depth+1)
			w.walk(it[1], depth+1)
		}
	case *starlarkstruct.Struct:
		if w.seen[v] {
			return
		}
		w.seen[v] = true
		for _, n := range v.AttrNames() {
			a, _ := v.Attr(n)
			w.walk(a, depth+1)
		}
	}
}

func c17fn(fn *starlark.Function) c17Fn {
	m := c17Fn{Name: c17q(fn.Name()), Doc: c17q(fn.Doc()), Pos: c17pos(fn.Position()), NParams: fn.NumParams(),
		NKwonly: fn.NumKwonlyParams(), Varargs: fn.HasVarargs(), Kwargs: fn.HasKwargs()}
	var sb strings.Builder
	for i := 0; i < fn.NumParams(); i++ {
		n, p := fn.Param(i)
		fmt.Fprintf(&sb, "%s @%s", c17q(n), c17pos(p))
		if v := fn.ParamDefault(i); v != nil {
			c := &c03Canon{}
			c.val(v)
			sb.WriteString(" = ")
			sb.WriteString(c.sb.String())
		} else {
			sb.WriteString(" required")
		}
		sb.WriteString("\n")
		m.NListed++
	}
	m.Params = sb.String()
	sb.Reset()
	for i := 0; i < fn.NumFreeVars(); i++ {
		b, _ := fn.FreeVar(i)
		sb.WriteString(c17q(b.Name))
		sb.WriteString(" ")
	}
	m.Free = sb.String()
	sb.Reset()
	fc := starlark.VerifFuncode(fn)
	var last syntax.Position
	for pc := 0; pc < len(fc.Code); pc++ {
		p := fc.Position(uint32(pc))
		if pc == 0 || p.Line != last.Line || p.Col != last.Col {
			fmt.Fprintf(&sb, "%d:%d:%d ", pc, p.Line, p.Col)
			last = p
		}
	}
	m.PosTab = sb.String()
	return m
}

func c17side(c *c17Case, prog *starlark.Program) *c17Side {
	s := &c17Side{Fns: []c17Fn{}}
	h := &hostEnv{}
	steps := c.Steps
	if steps == 0 {
		steps = 200000
	}
	pre := h.predeclared()
	loaded := map[string]*c03Loaded{}
	var load func(th *starlark.Thread, module string) (starlark.StringDict, error)
	load = func(th *starlark.Thread, module string) (starlark.StringDict, error) {
		if l, ok := loaded[module]; ok {
			if l == nil {
				return nil, fmt.Errorf("cycle in load graph")
			}
			return l.g, l.err
		}
		src, ok := c.Mods[module]
		if !ok {
			return nil, fmt.Errorf("no such module %q", module)
		}
		loaded[module] = nil
		th2 := h.thread(steps)
		th2.Load = load
		g, err := starlark.ExecFileOptions(c.Opts.fileOptions(), th2, module, src, pre)
		loaded[module] = &c03Loaded{g, err}
		return g, err
	}
	th := h.thread(steps)
	th.Load = load
	c17mu.Lock()
	c17top[th] = nil
	c17mu.Unlock()
	var g starlark.StringDict
	var err error
	func() {
		defer func() {
			if r := recover(); r != nil {
				err = fmt.Errorf("GO PANIC: %v", r)
				s.Panic = true
			}
		}()
		g, err = prog.Init(th, pre)
	}()
	c17mu.Lock()
	top := c17top[th]
	delete(c17top, th)
	c17mu.Unlock()
	s.Steps = int(th.ExecutionSteps())
	s.OK = err == nil
	var sb strings.Builder
	if err != nil {
		if ee, ok := err.(*starlark.EvalError); ok {
			s.Err = c17q(ee.Msg)
			for _, fr := range ee.CallStack {
				fmt.Fprintf(&sb, "%s @%s\n", c17q(fr.Name), c17pos(fr.Pos))
			}
			s.Stack = sb.String()
			sb.Reset()
		} else {
			s.Err = c17q(err.Error())
		}
	}
	for _, m := range h.printed {
		sb.WriteString(c17q(m))
		sb.WriteString("\n")
	}
	s.Printed = sb.String()
	sb.Reset()
	for _, ef := range h.effects {
		b, _ := json.Marshal(ef) // encoded values (enc.go); Go sorts object keys
		sb.Write(b)
		sb.WriteString("\n")
	}
	s.Effects = sb.String()
	sb.Reset()
	cn := &c03Canon{}
	w := &c17walker{seen: map[any]bool{}}
	for _, n := range g.Keys() {
		cn.sb.WriteString(n)
		cn.sb.WriteString(" = ")
		cn.val(g[n])
		cn.sb.WriteString("\n")
		w.walk(g[n], 0)
	}
	s.Globals = cn.sb.String()
	s.Filename = c17q(prog.Filename())
	for i := 0; i < prog.NumLoads(); i++ {
		n, p := prog.Load(i)
		fmt.Fprintf(&sb, "%s @%s\n", c17q(n), c17pos(p))
	}
	s.Loads = sb.String()
	if top != nil {
		w.fns = append([]*starlark.Function{top}, w.fns...)
	}
	for _, fn := range w.fns {
		s.Fns = append(s.Fns, c17fn(fn))
	}
	if c.Fields && top != nil {
		s.Fields = fieldsOf(top)
	}
	return s
}

func runC17Case(c *c17Case) (rec c17Rec) {
	rec.ID = c.ID
	opts := c.Opts.fileOptions()
	pre := (&hostEnv{}).predeclared()
	var src any = c.Src
	if len(c.SrcB) > 0 {
		src = c.SrcB
	}
	_, P, err := starlark.SourceProgramOptions(opts, "prog.star", src, pre.Has)
	if err != nil {
		rec.Static = true
		rec.Err = err.Error()
		if len(rec.Err) > 300 {
			rec.Err = rec.Err[:300]
		}
		return
	}
	var b1, b2 bytes.Buffer
	if err := P.Write(&b1); err != nil {
		rec.DecErr = "write: " + err.Error()
		return
	}
	rec.Len1 = b1.Len()
	Q, err := starlark.CompiledProgram(bytes.NewReader(b1.Bytes()))
	if err != nil {
		rec.DecErr = err.Error()
		return
	}
	// a decoded program owns what it decoded: reading OTHER compiled programs afterwards (the previous case's file,
	// then this one's again) must leave Q untouched
	if c17Prev != nil {
		starlark.CompiledProgram(bytes.NewReader(c17Prev))
	}
	starlark.CompiledProgram(bytes.NewReader(c17Other))
	c17Prev = append([]byte{}, b1.Bytes()...)
	if err := Q.Write(&b2); err != nil {
		rec.DecErr = "rewrite: " + err.Error()
		return
	}
	rec.Len2 = b2.Len()
	rec.DecOK = true
	rec.Ver = starlark.CompilerVersion
	rec.Same = bytes.Equal(b1.Bytes(), b2.Bytes())
	rec.P = c17side(c, P)
	rec.Q = c17side(c, Q)
	// format conformance is evaluated by TLC token by token: only for files of moderate size
	if c.Fields && rec.P.Fields != nil && rec.Q.Fields != nil && b1.Len() > c17MaxFieldBytes {
		rec.P.Fields, rec.Q.Fields = nil, nil
	}
	if c.Fields && rec.P.Fields != nil && rec.Q.Fields != nil {
		if sp, err := splitProgram(b1.Bytes()); err == nil {
			rec.HasF = true
			rec.B1 = sp
		} else {
			rec.DecErr = "split: " + err.Error()
		}
	}
	return
}

func init() {
	register("c17-run", func(args []string) error {
		fs := flag.NewFlagSet("c17-run", flag.ExitOnError)
		in := fs.String("in", "-", "cases ndjson")
		out := fs.String("out", "-", "records ndjson")
		fs.Parse(args)
		r, err := openIn(*in)
		if err != nil {
			return err
		}
		defer r.Close()
		w, err := openOut(*out)
		if err != nil {
			return err
		}
		defer w.Close()
		nw := newNDWriter(w)
		defer nw.flush()
		starlark.VerifStep = c17hook
		defer func() { starlark.VerifStep = nil }()
		return readCases(r, func(raw json.RawMessage) error {
			var c c17Case
			if err := json.Unmarshal(raw, &c); err != nil {
				return err
			}
			nw.write(runC17Case(&c))
			return nil
		})
	})
}
