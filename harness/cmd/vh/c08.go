package main

// vh c08-unpack: call UnpackArgs / UnpackPositionalArgs directly with targets of
// every supported Go type pre-loaded with a recognisable prior value, and report
// what each target holds afterwards as an abstract code (see spec/Binding.tla).

import (
	"encoding/json"
	"flag"
	"fmt"

	"go.starlark.net/starlark"
)

type c08Pair struct {
	Name string `json:"name"`
	Mark string `json:"mark"`
	Ty   string `json:"ty"`
}

type c08Case struct {
	ID    int       `json:"id"`
	Kind  string    `json:"kind"` // unpack | unpackpos
	Pairs []c08Pair `json:"pairs"`
	Min   int       `json:"min"`
	Call  struct {
		Pos []string   `json:"pos"`
		Kw  [][]string `json:"kw"`
	} `json:"call"`
}

// custom Unpacker: accepts small ints only
type c08Unp struct {
	got string
}

func (u *c08Unp) Unpack(v starlark.Value) error {
	if i, ok := v.(starlark.Int); ok {
		if n, ok := i.Int64(); ok {
			u.got = fmt.Sprintf("int%d", n)
			return nil
		}
	}
	return fmt.Errorf("c08Unp: want small int, got %s", v.Type())
}

var (
	c08List  = starlark.NewList([]starlark.Value{starlark.MakeInt(1)})
	c08Dict  = func() *starlark.Dict { d := starlark.NewDict(1); d.SetKey(starlark.String("k"), starlark.MakeInt(1)); return d }()
	c08Fn    = starlark.NewBuiltin("fn", func(*starlark.Thread, *starlark.Builtin, starlark.Tuple, []starlark.Tuple) (starlark.Value, error) { return starlark.None, nil })
	c08Big   = starlark.MakeInt(1).Lsh(70)
	c08Prior = starlark.String("PRIOR")
	// distinct prior objects per typed target
	c08PriorList = starlark.NewList(nil)
	c08PriorDict = starlark.NewDict(0)
	c08PriorFn   = starlark.NewBuiltin("priorfn", func(*starlark.Thread, *starlark.Builtin, starlark.Tuple, []starlark.Tuple) (starlark.Value, error) { return starlark.None, nil })
)

func c08Arg(code string) starlark.Value {
	switch code {
	case "none":
		return starlark.None
	case "true":
		return starlark.True
	case "false":
		return starlark.False
	case "int7":
		return starlark.MakeInt(7)
	case "int9":
		return starlark.MakeInt(9)
	case "big":
		return c08Big
	case "str":
		return starlark.String("s")
	case "list":
		return c08List
	case "tuple":
		return starlark.Tuple{starlark.MakeInt(1)}
	case "dict":
		return c08Dict
	case "fn":
		return c08Fn
	case "float":
		return starlark.Float(1.5)
	case "bytes":
		return starlark.Bytes("s")
	}
	panic("bad arg code " + code)
}

// code of a Starlark value held by a target
func c08Code(v starlark.Value) string {
	switch v := v.(type) {
	case nil:
		return "nil"
	case starlark.NoneType:
		return "none"
	case starlark.Bool:
		if v {
			return "true"
		}
		return "false"
	case starlark.Int:
		if n, ok := v.Int64(); ok {
			return fmt.Sprintf("int%d", n)
		}
		return "big"
	case starlark.Float:
		return "float"
	case starlark.String:
		if v == c08Prior {
			return "prior"
		}
		return "str"
	case starlark.Bytes:
		return "bytes"
	case *starlark.List:
		if v == c08PriorList {
			return "prior"
		}
		if v == c08List {
			return "list"
		}
	case *starlark.Dict:
		if v == c08PriorDict {
			return "prior"
		}
		if v == c08Dict {
			return "dict"
		}
	case starlark.Tuple:
		return "tuple"
	case *starlark.Builtin:
		if v == c08PriorFn {
			return "prior"
		}
		if v == c08Fn {
			return "fn"
		}
	}
	return "other:" + v.Type()
}

type c08Target struct {
	ptr  any
	read func() string
}

func c08NewTarget(ty string) c08Target {
	switch ty {
	case "Value":
		v := starlark.Value(c08Prior)
		return c08Target{&v, func() string { return c08Code(v) }}
	case "string":
		s := "PRIOR"
		return c08Target{&s, func() string {
			if s == "PRIOR" {
				return "prior"
			} else if s == "s" {
				return "str"
			}
			return "other:" + s
		}}
	case "bool":
		// two-valued type: the prior value is chosen by the driver through the type name
		b := false
		return c08Target{&b, func() string {
			if b {
				return "true"
			}
			return "prior"
		}}
	case "int":
		n := -999
		return c08Target{&n, func() string {
			if n == -999 {
				return "prior"
			}
			return fmt.Sprintf("int%d", n)
		}}
	case "Int":
		n := starlark.MakeInt(-999)
		return c08Target{&n, func() string {
			if x, ok := n.Int64(); ok && x == -999 {
				return "prior"
			}
			return c08Code(n)
		}}
	case "List":
		l := c08PriorList
		return c08Target{&l, func() string { return c08Code(l) }}
	case "Dict":
		d := c08PriorDict
		return c08Target{&d, func() string { return c08Code(d) }}
	case "Callable":
		c := starlark.Callable(c08PriorFn)
		return c08Target{&c, func() string { return c08Code(c) }}
	case "Iterable":
		it := starlark.Iterable(c08PriorList)
		return c08Target{&it, func() string { return c08Code(it) }}
	case "Unpacker":
		u := &c08Unp{got: "prior"}
		return c08Target{u, func() string { return u.got }}
	case "String":
		v := starlark.String("PRIOR")
		return c08Target{&v, func() string {
			if v == "PRIOR" {
				return "prior"
			}
			return c08Code(v)
		}}
	case "Bytes":
		v := starlark.Bytes("PRIOR")
		return c08Target{&v, func() string {
			if v == "PRIOR" {
				return "prior"
			}
			return c08Code(v)
		}}
	case "Float":
		v := starlark.Float(-999)
		return c08Target{&v, func() string {
			if v == -999 {
				return "prior"
			}
			return c08Code(v)
		}}
	case "Bool":
		v := starlark.False
		return c08Target{&v, func() string {
			if v {
				return "true"
			}
			return "prior"
		}}
	case "Tuple":
		v := starlark.Tuple{starlark.String("PRIOR")}
		return c08Target{&v, func() string {
			if len(v) == 1 && v[0] == starlark.String("PRIOR") {
				return "prior"
			}
			return c08Code(v)
		}}
	}
	panic("bad target type " + ty)
}

func init() {
	register("c08-unpack", func(args []string) error {
		fs := flag.NewFlagSet("c08-unpack", flag.ExitOnError)
		in := fs.String("in", "-", "")
		out := fs.String("out", "-", "")
		fs.Parse(args)
		r, err := openIn(*in)
		if err != nil {
			return err
		}
		defer r.Close()
		w, err := openOut(*out)
		if err != nil {
			return err
		}
		defer w.Close()
		nw := newNDWriter(w)
		defer nw.flush()
		return readCases(r, func(raw json.RawMessage) error {
			var c c08Case
			if err := json.Unmarshal(raw, &c); err != nil {
				return err
			}
			res := obj{"id": c.ID}
			func() {
				defer func() {
					if p := recover(); p != nil {
						res["ok"] = false
						res["panic"] = fmt.Sprint(p)
					}
				}()
				targets := make([]c08Target, len(c.Pairs))
				var pos starlark.Tuple
				for _, a := range c.Call.Pos {
					pos = append(pos, c08Arg(a))
				}
				var kw []starlark.Tuple
				for _, kv := range c.Call.Kw {
					kw = append(kw, starlark.Tuple{starlark.String(kv[0]), c08Arg(kv[1])})
				}
				var e error
				if c.Kind == "unpackpos" {
					vars := []any{}
					for i, p := range c.Pairs {
						targets[i] = c08NewTarget(p.Ty)
						vars = append(vars, targets[i].ptr)
					}
					e = starlark.UnpackPositionalArgs("f", pos, kw, c.Min, vars...)
				} else {
					pairs := []any{}
					for i, p := range c.Pairs {
						targets[i] = c08NewTarget(p.Ty)
						pairs = append(pairs, p.Name+p.Mark, targets[i].ptr)
					}
					e = starlark.UnpackArgs("f", pos, kw, pairs...)
				}
				tg := []string{}
				for _, t := range targets {
					tg = append(tg, t.read())
				}
				res["ok"] = e == nil
				if e != nil {
					res["err"] = e.Error()
				}
				res["tgt"] = tg
			}()
			nw.write(res)
			return nil
		})
	})
}
