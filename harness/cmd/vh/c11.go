package main

// vh c11-run -in spec.json -out out.ndjson
//
// Property C11 (equality, hashing and ordering are coherent): records, for a
// pool of values built by a Starlark source file, the full matrices of the six
// comparison operators and of membership in {x: 1}, set([x]) and [x] for ALL
// ordered pairs (each entry evaluated by the real interpreter through a
// Starlark function of two arguments), and Value.Hash() of every value taken
// three times: before the comparisons, after them, and after freezing.
//
// input  {"src": file defining POOL (list) and OPS (dict name -> function(x, y))}
// output {"op":"header","n":N,"limit":CompareLimit,"ops":[names]}
//        {"op":"val","i":i,"type":..,"enc":<value>,"ptr":k,"time":{"sec":big,"ns":n},"dur":big}
//        {"op":"row","i":i,"hash":{"ok":b,"oks":[b,b,b],"h":[[hi,lo],[hi,lo],[hi,lo]],"err":..},"m":{name:[codes]},"errs":[..]}
//        row.hf = {"ok":b,"v":[hi,lo]}: the hash() built-in applied to the value
// matrix codes: 0 False, 1 True, 2 error, 3 non-Boolean result, 4 Go panic

import (
	"encoding/json"
	"flag"
	"fmt"
	"math/big"
	"os"
	"sort"
	gotime "time"

	stime "go.starlark.net/lib/time"
	"go.starlark.net/starlark"
)

type c11Hash struct {
	OK  bool    `json:"ok"`  // first call succeeded
	OKs []bool  `json:"oks"` // every call
	H   [][]int `json:"h"`   // [hi16, lo16] per call ([-1,-1] if it failed)
	Err string  `json:"err,omitempty"`
}

func c11hash(v starlark.Value) (h uint32, err error) {
	defer func() {
		if r := recover(); r != nil {
			err = fmt.Errorf("panic: %v", r)
		}
	}()
	return v.Hash()
}

func c11call(th *starlark.Thread, fn starlark.Value, x, y starlark.Value) (code int, msg string) {
	defer func() {
		if r := recover(); r != nil {
			code, msg = 4, fmt.Sprint(r)
		}
	}()
	res, err := starlark.Call(th, fn, starlark.Tuple{x, y}, nil)
	if err != nil {
		if ee, ok := err.(*starlark.EvalError); ok {
			return 2, ee.Msg
		}
		return 2, err.Error()
	}
	b, ok := res.(starlark.Bool)
	if !ok {
		return 3, res.Type()
	}
	if b {
		return 1, ""
	}
	return 0, ""
}

func init() {
	register("c11-run", func(args []string) error {
		fs := flag.NewFlagSet("c11-run", flag.ExitOnError)
		in := fs.String("in", "-", "spec json")
		out := fs.String("out", "-", "records ndjson")
		fs.Parse(args)
		raw, err := os.ReadFile(*in)
		if err != nil {
			return err
		}
		var spec struct {
			Src string `json:"src"`
		}
		if err := json.Unmarshal(raw, &spec); err != nil {
			return err
		}
		w, err := openOut(*out)
		if err != nil {
			return err
		}
		defer w.Close()
		nw := newNDWriter(w)
		defer nw.flush()

		h := &hostEnv{}
		th := h.thread(1 << 40)
		g, err := starlark.ExecFileOptions((*optVec)(nil).fileOptions(), th, "pool.star", spec.Src, h.predeclared())
		if err != nil {
			return fmt.Errorf("pool source failed: %v", err)
		}
		poolV, ok := g["POOL"].(*starlark.List)
		if !ok {
			return fmt.Errorf("POOL is not a list")
		}
		opsV, ok := g["OPS"].(*starlark.Dict)
		if !ok {
			return fmt.Errorf("OPS is not a dict")
		}
		n := poolV.Len()
		pool := make([]starlark.Value, n)
		for i := range pool {
			pool[i] = poolV.Index(i)
		}
		var names []string
		ops := map[string]starlark.Value{}
		for _, it := range opsV.Items() {
			name := string(it[0].(starlark.String))
			names = append(names, name)
			ops[name] = it[1]
		}
		sort.Strings(names)
		nw.write(obj{"op": "header", "n": n, "limit": starlark.CompareLimit, "ops": names})

		// identity classes of reference-compared objects (Go pointer identity)
		ptrClass := map[starlark.Value]int{}
		for i, v := range pool {
			rec := obj{"op": "val", "i": i + 1, "type": v.Type(), "enc": encValue(v)}
			switch p := v.(type) {
			case *starlark.Function, *starlark.Builtin:
				if _, ok := ptrClass[p]; !ok {
					ptrClass[p] = len(ptrClass) + 1
				}
				rec["ptr"] = ptrClass[p]
			case stime.Time:
				t := gotime.Time(p)
				rec["time"] = obj{"sec": encBig(big.NewInt(t.Unix())), "ns": t.Nanosecond()}
			case stime.Duration:
				rec["dur"] = encBig(big.NewInt(int64(p)))
			}
			nw.write(rec)
		}

		hashes := make([]c11Hash, n)
		takeHash := func() {
			for i, v := range pool {
				hv, err := c11hash(v)
				if len(hashes[i].H) == 0 {
					hashes[i].OK = err == nil
				}
				if err != nil && hashes[i].Err == "" {
					hashes[i].Err = err.Error()
				}
				hashes[i].OKs = append(hashes[i].OKs, err == nil)
				if err == nil {
					hashes[i].H = append(hashes[i].H, []int{int(hv >> 16), int(hv & 0xffff)})
				} else {
					hashes[i].H = append(hashes[i].H, []int{-1, -1})
				}
			}
		}
		takeHash() // before any comparison

		// the hash() built-in (defined for strings and bytes only): [hi16, lo16] of the 32-bit result
		hashFn := starlark.Universe["hash"]
		hf := make([]obj, n)
		for i, v := range pool {
			hf[i] = func() (o obj) {
				defer func() {
					if r := recover(); r != nil {
						o = obj{"ok": false, "panic": fmt.Sprint(r)}
					}
				}()
				res, err := starlark.Call(th, hashFn, starlark.Tuple{v}, nil)
				if err != nil {
					return obj{"ok": false}
				}
				x, ok := res.(starlark.Int)
				if !ok {
					return obj{"ok": false, "panic": "hash returned " + res.Type()}
				}
				i64, ok := x.Int64()
				if !ok || i64 < -(1<<31) || i64 >= 1<<32 {
					return obj{"ok": false, "panic": "hash out of range: " + x.String()}
				}
				u := uint32(i64)
				return obj{"ok": true, "v": []int{int(u >> 16), int(u & 0xffff)}}
			}()
		}

		rows := make([]obj, n)
		for i, x := range pool {
			m := map[string][]int{}
			errs := map[string]bool{}
			for _, name := range names {
				codes := make([]int, n)
				for j, y := range pool {
					c, msg := c11call(th, ops[name], x, y)
					codes[j] = c
					if c >= 2 && len(errs) < 6 {
						errs[name+": "+msg] = true
					}
				}
				m[name] = codes
			}
			el := []string{}
			for e := range errs {
				el = append(el, e)
			}
			sort.Strings(el)
			rows[i] = obj{"op": "row", "i": i + 1, "m": m, "errs": el}
		}
		takeHash() // after 9*n^2 comparisons, dict and set insertions
		poolV.Freeze()
		opsV.Freeze()
		takeHash() // after freezing
		for i := range rows {
			rows[i]["hash"] = hashes[i]
			rows[i]["hf"] = hf[i]
			nw.write(rows[i])
		}
		return nil
	})
}
